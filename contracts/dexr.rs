// ---------------------------------------------------------------------------------------------
// U-dexr (feature `serialize`, without `overlapped-lists`): the look-ahead reader of the serde
// deserializer (src/de/mod.rs, XmlReader) and the functions of Deserializer that rely on it.
// C07 mechanism: consumers contain `unreachable!()` justified by "two consequent Text events would be
// merged into one". The contracts make that an invariant: after `XmlReader::next` has returned a Text,
// its look-ahead is neither Text, CData nor DocType (`text_done`), and from such a state the next call
// cannot return a Text; with it the `unreachable!()` of drain_text, peek and read_text are PROVED
// unreachable (Verus treats `unreachable!()` as `assert(false)`).
// ---------------------------------------------------------------------------------------------
pub mod dexr_ {
use super::*;
use vstd::prelude::*;
use vstd::string::*;
use core::result::Result;
use std::mem::replace;
use crate::deio_::PayloadEvent;
use std::collections::VecDeque;
use core::num::NonZeroUsize;

/// hand transcription of the variants of src/errors.rs serialize::DeError that these functions construct
pub enum DeError {
    Custom(String),
    InvalidXml(Error),
    UnexpectedStart(Vec<u8>),
    UnexpectedEof,
    KeyNotRead,
    TooManyEvents(core::num::NonZeroUsize),
    Other,
}
impl vstd::std_specs::convert::FromSpecImpl<Error> for DeError {
    open spec fn obeys_from_spec() -> bool { true }
    open spec fn from_spec(e: Error) -> Self { DeError::InvalidXml(e) }
}
impl From<Error> for DeError {
//@extract errors::DeError::from_error#dexr | src/errors.rs :: mod serialize :: impl From<Error> for DeError :: fn from | serves=C07 features=serialize
        fn from(e: Error) -> Self {
            Self::InvalidXml(e)
        }
//@end
}
impl vstd::std_specs::convert::FromSpecImpl<EncodingError> for DeError {
    open spec fn obeys_from_spec() -> bool { true }
    open spec fn from_spec(e: EncodingError) -> Self { DeError::InvalidXml(Error::Encoding(e)) }
}
impl From<EncodingError> for DeError {
//@extract errors::DeError::from_encoding#dexr | src/errors.rs :: mod serialize :: impl From<EncodingError> for DeError :: fn from | serves=C07 features=serialize
        fn from(e: EncodingError) -> Self {
            Self::InvalidXml(e.into())
        }
//@end
}
/// N15: the text of an error message (not interpreted by any contract)
#[verifier::external_body]
pub fn errstr_() -> String { String::new() }

/// assumed (not under contract here; the string-level functions are verified in unit charref): decoding and
/// unescaping a text, decoding a CDATA section -- only that they return, not what
impl<'a> BytesText<'a> {
    #[verifier::external_body]
    pub fn unescape_with<'entity, F: FnMut(&str) -> Option<&'entity str>>(&self, resolve_entity: F) -> Result<Cow<'a, str>, Error>
    { unimplemented!() }
}
impl<'a> BytesCData<'a> {
    #[verifier::external_body]
    pub fn decode(&self) -> Result<Cow<'a, str>, EncodingError>
    { unimplemented!() }
}
/// std: Cow::<str>::to_mut hands out the owned string (cloning first if borrowed); String::push_str appends
/// dereferencing a Cow<str> gives the string it holds (std: Deref for Cow)
pub axiom fn axiom_cow_str_dexr<'a>(c: &Cow<'a, str>)
    ensures cow_target(c)@ == c@;
/// std: `Cow<str>: From<&str>` borrows
pub assume_specification<'a>[ <Cow<'a, str> as From<&'a str>>::from ](s: &'a str) -> (r: Cow<'a, str>)
    ensures r == Cow::<'a, str>::Borrowed(s);
pub assume_specification<'a, 'b, B: ?Sized + ToOwned>[ Cow::<'a, B>::to_mut ](c: &'b mut Cow<'a, B>) -> (r: &'b mut <B as ToOwned>::Owned);

//@extract de::Text | src/de/mod.rs :: struct Text | serves=C07 features=serialize
 pub struct Text<'a> {
    pub text: Cow<'a, str>,
}
//@end
impl<'a> Deref for Text<'a> {
    type Target = str;
//@extract de::Text::deref | src/de/mod.rs :: impl<'a> Deref for Text<'a> :: fn deref | serves=C07 features=serialize
    fn deref(&self) -> (r: &Self::Target)
        ensures r@ == self.text@
    {
        proof { axiom_cow_str_dexr(&self.text); }
        self.text.deref()
    }
//@end
}
//@extract de::DeEvent | src/de/mod.rs :: enum DeEvent | serves=C07 features=serialize
 enum DeEvent<'a> {
    /// Start tag (with attributes) `<tag attr="value">`.
    Start(BytesStart<'a>),
    /// End tag `</tag>`.
    End(BytesEnd<'a>),
    /// Decoded and concatenated content of consequent [`Text`] and [`CData`]
    /// events. _Consequent_ means that events should follow each other or be
    /// delimited only by (any count of) [`Comment`] or [`PI`] events.
    ///
    /// [`Text`]: Event::Text
    /// [`CData`]: Event::CData
    /// [`Comment`]: Event::Comment
    /// [`PI`]: Event::PI
    Text(Text<'a>),
    /// End of XML document.
    Eof,
}
//@end
spec fn de_wf<'a>(e: DeEvent<'a>) -> bool { e matches DeEvent::Start(s) ==> s.name_len <= s.buf@.len() }
/// no Text event is immediately followed by another one
pub open spec fn no_adjacent_text<'a>(s: Seq<DeEvent<'a>>) -> bool {
    forall|i: int| #![trigger s[i]] 0 <= i && i + 1 < s.len() ==> !(s[i] is Text && s[i + 1] is Text)
}
pub open spec fn pe_wf<'a>(e: PayloadEvent<'a>) -> bool { e matches PayloadEvent::Start(s) ==> s.name_len <= s.buf@.len() }
//@extract de::XmlRead | src/de/mod.rs :: trait XmlRead | serves=C07 features=serialize
 trait XmlRead<'i> {
    /// ghost: the names this source was asked to skip to, in order (one entry per `read_to_end` call)
    spec fn skips(&self) -> Seq<Seq<u8>>;
    /// Return an input-borrowing event.
    fn next(&mut self) -> (r: Result<PayloadEvent<'i>, DeError>)
        // what the event sources hand out are well-formed values (C03: the name of a tag lies inside its buffer)
        ensures r matches Ok(e) ==> pe_wf(e), final(self).skips() == old(self).skips();

    /// Skips until end element is found. Unlike `next()` it will not allocate
    /// when it cannot satisfy the lifetime.
    fn read_to_end(&mut self, name: QName) -> (r: Result<(), DeError>)
        ensures final(self).skips() == old(self).skips().push(name.0@);

    /// A copy of the reader's decoder used to decode strings.
    fn decoder(&self) -> Decoder;

    /// Checks if the `start` tag has a [`xsi:nil`] attribute. This method ignores
    /// any errors in attributes.
    ///
    /// [`xsi:nil`]: https://www.w3.org/TR/xmlschema-1/#xsi_nil
    fn has_nil_attr(&self, start: &BytesStart) -> bool;
}
//@end
//@extract de::resolver::EntityResolver | src/de/resolver.rs :: trait EntityResolver | serves=C07 features=serialize
//@rewrite type Error: Error; ==> type Error;
 trait EntityResolver {
    /// The error type that represents DTD parse error
    type Error;

    /// Called on contents of [`Event::DocType`] to capture declared entities.
    /// Can be called multiple times, for each parsed `<!DOCTYPE >` declaration.
    ///
    /// [`Event::DocType`]: crate::events::Event::DocType
    fn capture(&mut self, doctype: BytesText) -> Result<(), Self::Error>;

    /// Called when an entity needs to be resolved.
    ///
    /// `None` is returned if a suitable value can not be found.
    /// In that case an [`EscapeError::UnrecognizedEntity`] will be returned by
    /// a deserializer.
    ///
    /// [`EscapeError::UnrecognizedEntity`]: crate::escape::EscapeError::UnrecognizedEntity
    fn resolve(&self, entity: &str) -> Option<&str>;
}
//@end
//@extract de::XmlReader | src/de/mod.rs :: struct XmlReader | serves=C07 features=serialize
//@rewrite E: EntityResolver = PredefinedEntityResolver ==> E: EntityResolver
/// An intermediate reader that consumes [`PayloadEvent`]s and produces final [`DeEvent`]s.
/// [`PayloadEvent::Text`] events, that followed by any event except
/// [`PayloadEvent::Text`] or [`PayloadEvent::CData`], are trimmed from the end.
struct XmlReader<'i, R: XmlRead<'i>, E: EntityResolver> {
    /// A source of low-level XML events
    reader: R,
    /// Intermediate event, that could be returned by the next call to `next()`.
    /// If that is the `Text` event then leading spaces already trimmed, but
    /// trailing spaces is not. Before the event will be returned, trimming of
    /// the spaces could be necessary
    lookahead: Result<PayloadEvent<'i>, DeError>,

    /// Used to resolve unknown entities that would otherwise cause the parser
    /// to return an [`EscapeError::UnrecognizedEntity`] error.
    ///
    /// [`EscapeError::UnrecognizedEntity`]: crate::escape::EscapeError::UnrecognizedEntity
    entity_resolver: E,
}
//@end

impl<'i, R: XmlRead<'i>, E: EntityResolver> XmlReader<'i, R, E> {
    /// the look-ahead does not continue a text: it is neither Text nor CData nor a DOCTYPE (which is skipped)
    spec fn wf(&self) -> bool { self.lookahead matches Ok(e) ==> pe_wf(e) }
    spec fn text_done(&self) -> bool {
        !(self.lookahead matches Ok(PayloadEvent::Text(_))) && !(self.lookahead matches Ok(PayloadEvent::CData(_)))
            && !(self.lookahead matches Ok(PayloadEvent::DocType(_)))
    }
//@extract de::XmlReader::new | src/de/mod.rs :: impl<'i, R: XmlRead<'i>, E: EntityResolver> XmlReader<'i, R, E> :: fn new | serves=C07 features=serialize
    fn new(mut reader: R, entity_resolver: E) -> (r: Self)
        ensures r.wf()
    {
        // Lookahead by one event immediately, so we do not need to check in the
        // loop if we need lookahead or not
        let lookahead = reader.next();

        Self {
            reader,
            lookahead,
            entity_resolver,
        }
    }
//@end
//@extract de::XmlReader::is_empty | src/de/mod.rs :: impl<'i, R: XmlRead<'i>, E: EntityResolver> XmlReader<'i, R, E> :: fn is_empty | serves=C07 features=serialize
 fn is_empty(&self) -> (r: bool)
        ensures r == (self.lookahead matches Ok(PayloadEvent::Eof))
 {
        matches!(self.lookahead, Ok(PayloadEvent::Eof))
    }
//@end
//@extract de::XmlReader::next_impl | src/de/mod.rs :: impl<'i, R: XmlRead<'i>, E: EntityResolver> XmlReader<'i, R, E> :: fn next_impl | serves=C07 features=serialize
    fn next_impl(&mut self) -> (r: Result<PayloadEvent<'i>, DeError>)
        // hands out the look-ahead and reads the next one
        requires old(self).wf()
        ensures r == old(self).lookahead, final(self).wf(), final(self).reader.skips() == old(self).reader.skips()
    {
        replace(&mut self.lookahead, self.reader.next())
    }
//@end
//@extract de::XmlReader::current_event_is_last_text | src/de/mod.rs :: impl<'i, R: XmlRead<'i>, E: EntityResolver> XmlReader<'i, R, E> :: fn current_event_is_last_text | serves=C07 features=serialize
 fn current_event_is_last_text(&self) -> (r: bool)
        ensures r == (!(self.lookahead matches Ok(PayloadEvent::Text(_))) && !(self.lookahead matches Ok(PayloadEvent::CData(_))))
 {
        // If next event is a text or CDATA, we should not trim trailing spaces
        !matches!(
            self.lookahead,
            Ok(PayloadEvent::Text(_)) | Ok(PayloadEvent::CData(_))
        )
    }
//@end
//@extract de::XmlReader::drain_text | src/de/mod.rs :: impl<'i, R: XmlRead<'i>, E: EntityResolver> XmlReader<'i, R, E> :: fn drain_text | serves=C07 features=serialize n15=1
    /// Read all consequent [`Text`] and [`CData`] events until non-text event
    /// occurs. Content of all events would be appended to `result` and returned
    /// as [`DeEvent::Text`].
    ///
    /// [`Text`]: PayloadEvent::Text
    /// [`CData`]: PayloadEvent::CData
    #[verifier::exec_allows_no_decreases_clause]
    fn drain_text(&mut self, mut result: Cow<'i, str>) -> (r: Result<DeEvent<'i>, DeError>)
        // C07: the whole run of text pieces is merged: what follows is neither Text nor CData nor a DOCTYPE
        requires old(self).wf()
        ensures final(self).wf(), r matches Ok(ev) ==> ev is Text && final(self).text_done(), {
        loop
            invariant self.wf()
            ensures self.wf(), self.text_done() {
            // A DOCTYPE inside a text is not well-formed, but the reader reports it
            // as an event. Skip it like a comment, so the text pieces around it are
            // merged and two consequent `Text` events are never returned
            if matches!(self.lookahead, Ok(PayloadEvent::DocType(_))) {
                if let PayloadEvent::DocType(e) = self.next_impl()? {
                    self.entity_resolver
                        .capture(e)
                        .map_err(|err| DeError::Custom(errstr_()))?;
                }
                continue;
            }
            if self.current_event_is_last_text() {
                break;
            }

            match self.next_impl()? {
                PayloadEvent::Text(mut e) => {
                    if self.current_event_is_last_text() {
                        // FIXME: Actually, we should trim after decoding text, but now we trim before
                        e.inplace_trim_end();
                    }
                    result
                        .to_mut()
                        .push_str(&e.unescape_with(|entity| self.entity_resolver.resolve(entity))?);
                }
                PayloadEvent::CData(e) => result.to_mut().push_str(&e.decode()?),

                // SAFETY: current_event_is_last_text checks that event is Text or CData
                _ => unreachable!(),
            }
        }
        Ok(DeEvent::Text(Text { text: result }))
    }
//@end
//@extract de::XmlReader::next | src/de/mod.rs :: impl<'i, R: XmlRead<'i>, E: EntityResolver> XmlReader<'i, R, E> :: fn next | serves=C07 features=serialize n15=1
    /// Return an input-borrowing event.
    #[verifier::exec_allows_no_decreases_clause]
    fn next(&mut self) -> (r: Result<DeEvent<'i>, DeError>)
        requires old(self).wf()
        ensures
            // C07 ("two consequent Text events would be merged into one"): after a Text the look-ahead does not continue
            // it, and from such a state the next event is not a Text
            r matches Ok(DeEvent::Text(_)) ==> final(self).text_done(),
            old(self).text_done() ==> !(r matches Ok(DeEvent::Text(_))),
            final(self).wf(), r matches Ok(ev) ==> de_wf(ev),
    {
        let ghost mut first = true;
        loop
            invariant self.wf(), old(self).text_done() ==> first, first ==> self.lookahead == old(self).lookahead,
        {
            return match self.next_impl()? {
                PayloadEvent::Start(e) => Ok(DeEvent::Start(e)),
                PayloadEvent::End(e) => Ok(DeEvent::End(e)),
                PayloadEvent::Text(mut e) => {
                    if self.current_event_is_last_text() && e.inplace_trim_end() {
                        // FIXME: Actually, we should trim after decoding text, but now we trim before
                        proof { first = false; }
                        continue;
                    }
                    self.drain_text(e.unescape_with(|entity| self.entity_resolver.resolve(entity))?)
                }
                PayloadEvent::CData(e) => self.drain_text(e.decode()?),
                PayloadEvent::DocType(e) => {
                    self.entity_resolver
                        .capture(e)
                        .map_err(|err| DeError::Custom(errstr_()))?;
                    proof { first = false; }
                    continue;
                }
                PayloadEvent::Eof => Ok(DeEvent::Eof),
            };
        }
    }
//@end
//@extract de::XmlReader::read_to_end | src/de/mod.rs :: impl<'i, R: XmlRead<'i>, E: EntityResolver> XmlReader<'i, R, E> :: fn read_to_end | serves=C07 features=serialize
    fn read_to_end(&mut self, name: QName) -> (r: Result<(), DeError>)
        requires old(self).wf()
        ensures final(self).wf(),
            // the element is skipped with the look-ahead taken into account: if the pre-read event is the Start of an
            // element with the SAME QUALIFIED NAME the source has to skip twice (the pre-read element, then the rest), if it
            // is the End with that name nothing is left to skip, otherwise once; an error in the look-ahead is handed out
            final(self).reader.skips() == old(self).reader.skips() + (match old(self).lookahead {
                Ok(PayloadEvent::Start(e)) => if e.buf@.subrange(0, e.name_len as int) == name.0@ { seq![name.0@, name.0@] } else { seq![name.0@] },
                Ok(PayloadEvent::End(e)) => if e.name@ == name.0@ { Seq::<Seq<u8>>::empty() } else { seq![name.0@] },
                Ok(_) => seq![name.0@],
                Err(_) => Seq::<Seq<u8>>::empty(),
            }),
    {
        match self.lookahead {
            // We pre-read event with the same name that is required to be skipped.
            // First call of `read_to_end` will end out pre-read event, the second
            // will consume other events
            Ok(PayloadEvent::Start(ref e)) if e.name() == name => {
                let result1 = self.reader.read_to_end(name);
                let result2 = self.reader.read_to_end(name);

                // In case of error `next_impl` returns `Eof`
                let _ = self.next_impl();
                result1?;
                result2?;
            }
            // We pre-read event with the same name that is required to be skipped.
            // Because this is end event, we already consume the whole tree, so
            // nothing to do, just update lookahead
            Ok(PayloadEvent::End(ref e)) if e.name() == name => {
                let _ = self.next_impl();
            }
            Ok(_) => {
                let result = self.reader.read_to_end(name);

                // In case of error `next_impl` returns `Eof`
                let _ = self.next_impl();
                result?;
            }
            // Read next lookahead event, unpack error from the current lookahead
            Err(_) => {
                self.next_impl()?;
            }
        }
        Ok(())
    }
//@end
//@extract de::XmlReader::decoder | src/de/mod.rs :: impl<'i, R: XmlRead<'i>, E: EntityResolver> XmlReader<'i, R, E> :: fn decoder | serves=C07 features=serialize
    fn decoder(&self) -> Decoder {
        self.reader.decoder()
    }
//@end
}

//@extract de::Deserializer | src/de/mod.rs :: struct Deserializer | serves=C07 features=serialize
//@rewrite E: EntityResolver = PredefinedEntityResolver ==> E: EntityResolver
 pub struct Deserializer<'de, R, E: EntityResolver>
where
    R: XmlRead<'de>,
{
    /// An XML reader that streams events into this deserializer
    reader: XmlReader<'de, R, E>,

    peek: Option<DeEvent<'de>>,

    /// Buffer to store attribute name as a field name exposed to serde consumers
    key_buf: String,
}
//@end
impl<'de, R, E> Deserializer<'de, R, E>
where
    R: XmlRead<'de>,
    E: EntityResolver,
{
//@if overlapped-lists
    /// THE REPLAY QUEUES (feature `overlapped-lists`). Events still to be delivered: `read` (replayed or looked at), then the
    /// reader's. "Two consequent Text events would be merged into one" becomes a fact about that stream: no Text in `read` is
    /// followed by a Text, and if `read` ends with a Text the reader's look-ahead does not continue it
    pub closed spec fn rinv(&self) -> bool {
        &&& self.reader.wf()
        &&& forall|i: int| 0 <= i < self.read@.len() ==> de_wf(#[trigger] self.read@[i])
        &&& no_adjacent_text(self.read@)
        &&& self.read@.len() > 0 && self.read@.last() is Text ==> self.reader.text_done()
    }
    /// the events held for replay: no adjacent Texts either
    pub closed spec fn winv0(&self) -> bool {
        &&& forall|i: int| 0 <= i < self.write@.len() ==> de_wf(#[trigger] self.write@[i])
        &&& no_adjacent_text(self.write@)
    }
    /// between two skips the held events end with the End (or Eof) of a skipped element, not with a Text: whatever is put in
    /// front of `read` by a replay joins it without making two Texts adjacent
    pub closed spec fn inv(&self) -> bool {
        &&& self.rinv() && self.winv0()
        &&& self.write@.len() > 0 ==> !(self.write@.last() is Text)
    }
    /// in the middle of a skip: the last held event may be a Text, then the next event to be delivered is not one
    pub closed spec fn mid(&self) -> bool {
        &&& self.rinv() && self.winv0()
        &&& self.write@.len() > 0 && self.write@.last() is Text ==> self.after_text()
    }
    pub closed spec fn head(&self) -> Option<DeEvent<'de>> { if self.read@.len() > 0 { Some(self.read@[0]) } else { None } }
//@else
    /// a peeked Text came out of the reader: the reader's look-ahead does not continue it
    pub closed spec fn inv(&self) -> bool {
        &&& self.reader.wf()
        &&& self.peek matches Some(ev) ==> de_wf(ev)
        &&& self.peek matches Some(DeEvent::Text(_)) ==> self.reader.text_done()
    }
    // `head()`: the event that has been looked at but not consumed. The contracts of the accessors speak about it through this function
    // only, so that they are the same for the two builds of the deserializer
    pub closed spec fn head(&self) -> Option<DeEvent<'de>> { self.peek }
//@endif
    /// the next event is not a Text: what has been looked at is not one, or nothing has and the reader's look-ahead does not
    /// continue a text
    pub closed spec fn after_text(&self) -> bool {
        match self.head() { None => self.reader.text_done(), Some(e) => !(e is Text) }
    }
    pub closed spec fn peeked_text(&self) -> bool { self.head() matches Some(DeEvent::Text(_)) }
    pub closed spec fn peeked_start(&self) -> bool { self.head() matches Some(DeEvent::Start(_)) }
    /// the next event is a Text without content (an empty CDATA section)
    pub closed spec fn next_is_empty_text(&self) -> bool { self.head() matches Some(DeEvent::Text(t)) && t.text@.len() == 0 }
//@if overlapped-lists
//@extract de::Deserializer::new | src/de/mod.rs :: impl<'de, R, E> Deserializer<'de, R, E> where R: XmlRead<'de>, E: EntityResolver, :: fn new | serves=C07,C20 features=serialize,overlapped-lists
    /// Create an XML deserializer from one of the possible quick_xml input sources.
    ///
    /// Typically it is more convenient to use one of these methods instead:
    ///
    ///  - [`Deserializer::from_str`]
    ///  - [`Deserializer::from_reader`]
    fn new(reader: R, entity_resolver: E) -> (r: Self)
        ensures r.inv()
    {
        Self {
            reader: XmlReader::new(reader, entity_resolver),

            read: VecDeque::new(),
            write: VecDeque::new(),
            limit: None,

            key_buf: String::new(),
        }
    }
//@end
//@extract de::Deserializer::peek | src/de/mod.rs :: impl<'de, R, E> Deserializer<'de, R, E> where R: XmlRead<'de>, E: EntityResolver, :: fn peek | serves=C07,C20 features=serialize,overlapped-lists
    fn peek(&mut self) -> (r: Result<&DeEvent<'de>, DeError>)
        requires old(self).rinv()
        ensures final(self).rinv(), final(self).write@ == old(self).write@, final(self).limit == old(self).limit,
            old(self).inv() ==> final(self).inv(),
            r matches Ok(e) ==> final(self).head() == Some(*e) && de_wf(*e),
            // peeking twice is peeking once
            old(self).head() is Some ==> r is Ok && *final(self) == *old(self),
    {
        if self.read.is_empty() {
            self.read.push_front(self.reader.next()?);
        }
        if let Some(event) = self.read.front() {
            return Ok(event);
        }
        // SAFETY: `self.read` was filled in the code above.
        // NOTE: Can be replaced with `unsafe { std::hint::unreachable_unchecked() }`
        // if unsafe code will be allowed
        unreachable!()
    }
//@end
//@extract de::Deserializer::next | src/de/mod.rs :: impl<'de, R, E> Deserializer<'de, R, E> where R: XmlRead<'de>, E: EntityResolver, :: fn next | serves=C07,C20 features=serialize,overlapped-lists
    fn next(&mut self) -> (r: Result<DeEvent<'de>, DeError>)
        requires old(self).rinv()
        ensures final(self).rinv(), final(self).write@ == old(self).write@, final(self).limit == old(self).limit,
            old(self).inv() ==> final(self).inv(),
            r matches Ok(ev) ==> de_wf(ev),
            old(self).head() matches Some(ev) ==> r == Result::<DeEvent<'de>, DeError>::Ok(ev) && final(self).reader == old(self).reader,
            // C07 ("two consequent Text events would be merged into one"), now over replayed events too
            r matches Ok(DeEvent::Text(_)) ==> final(self).after_text(),
            old(self).after_text() ==> !(r matches Ok(DeEvent::Text(_))),
    {
        // Replay skipped or peeked events
        if let Some(event) = self.read.pop_front() {
            proof {
                assert(self.read@ =~= old(self).read@.subrange(1, old(self).read@.len() as int));
                assert forall|i: int| 0 <= i < self.read@.len() implies de_wf(#[trigger] self.read@[i]) by { assert(self.read@[i] == old(self).read@[i + 1]); }
                assert forall|i: int| #![trigger self.read@[i]] 0 <= i && i + 1 < self.read@.len() implies !(self.read@[i] is Text && self.read@[i + 1] is Text) by {
                    assert(self.read@[i] == old(self).read@[i + 1] && self.read@[i + 1] == old(self).read@[i + 2]);
                }
                if self.read@.len() > 0 { assert(self.read@.last() == old(self).read@.last()); assert(self.read@[0] == old(self).read@[1]); }
            }
            return Ok(event);
        }
        self.reader.next()
    }
//@end
//@extract de::Deserializer::last_peeked | src/de/mod.rs :: impl<'de, R, E> Deserializer<'de, R, E> where R: XmlRead<'de>, E: EntityResolver, :: fn last_peeked | serves=C07,C20 features=serialize,overlapped-lists
    fn last_peeked(&self) -> (r: &DeEvent<'de>)
        // `peek()` was called before: the queue is not empty
        requires self.head() is Some
        ensures self.head() == Some(*r)
    {
        {
            self.read
                .front()
                .expect("`Deserializer::peek()` should be called")
        }
    }
//@end
//@extract de::Deserializer::skip_checkpoint | src/de/mod.rs :: impl<'de, R, E> Deserializer<'de, R, E> where R: XmlRead<'de>, E: EntityResolver, :: fn skip_checkpoint | serves=C07,C20 features=serialize,overlapped-lists
    fn skip_checkpoint(&self) -> (r: usize)
        ensures r == self.write@.len()
    {
        self.write.len()
    }
//@end
//@extract de::Deserializer::skip_event | src/de/mod.rs :: impl<'de, R, E> Deserializer<'de, R, E> where R: XmlRead<'de>, E: EntityResolver, :: fn skip_event | serves=C07,C20 features=serialize,overlapped-lists
    fn skip_event(&mut self, event: DeEvent<'de>) -> (r: Result<(), DeError>)
        requires old(self).rinv(), old(self).winv0(), de_wf(event),
            // the event comes from the head of the stream: it does not follow a Text as a Text, and is not followed by one
            old(self).write@.len() > 0 && old(self).write@.last() is Text ==> !(event is Text),
            event is Text ==> old(self).after_text(),
        ensures final(self).read@ == old(self).read@, final(self).reader == old(self).reader, final(self).limit == old(self).limit,
            match r {
                Ok(_) => final(self).write@ == old(self).write@.push(event) && final(self).mid(),
                Err(_) => final(self).write@ == old(self).write@,
            }
    {
        if let Some(max) = self.limit {
            if self.write.len() >= max.get() {
                return Err(DeError::TooManyEvents(max));
            }
        }
        self.write.push_back(event);
        proof {
            let w = self.write@; let w0 = old(self).write@;
            assert forall|i: int| 0 <= i < w.len() implies de_wf(#[trigger] w[i]) by { if i < w0.len() { assert(w[i] == w0[i]); } }
            assert forall|i: int| #![trigger w[i]] 0 <= i && i + 1 < w.len() implies !(w[i] is Text && w[i + 1] is Text) by {
                if i + 1 < w0.len() { assert(w[i] == w0[i] && w[i + 1] == w0[i + 1]); } else { assert(w[i] == w0.last()); }
            }
            assert(w.last() == event);
            assert(self.head() == old(self).head());
        }
        Ok(())
    }
//@end
//@extract de::Deserializer::skip | src/de/mod.rs :: impl<'de, R, E> Deserializer<'de, R, E> where R: XmlRead<'de>, E: EntityResolver, :: fn skip | serves=C07,C20 features=serialize,overlapped-lists
    #[verifier::exec_allows_no_decreases_clause]
    #[verifier::loop_isolation(false)]
    fn skip(&mut self) -> (r: Result<(), DeError>)
        // called when the next event is a Start: the held events then end with the End (or Eof) of the skipped element
        requires old(self).inv(), old(self).peeked_start()
        ensures final(self).limit == old(self).limit,
            // C07: skipping keeps the invariant; what was held before stays where it is (checkpoints stay valid)
            r is Ok ==> final(self).inv() && final(self).write@.len() >= old(self).write@.len()
                && final(self).write@.subrange(0, old(self).write@.len() as int) == old(self).write@,
    {
        let ghost w0 = self.write@;
        let event = self.next()?;
        self.skip_event(event)?;
        proof { assert(self.write@.subrange(0, w0.len() as int) =~= w0); }
        match self.write.back() {
            // Skip all subtree, if we skip a start event
            Some(DeEvent::Start(e)) => {
                let end = e.name().as_ref().to_owned();
                let mut depth = 0;
                loop
                    invariant self.mid(), self.limit == old(self).limit, depth >= 0,
                        self.write@.len() >= w0.len(), self.write@.subrange(0, w0.len() as int) == w0,
                {
                    // A-depth (stated assumption): fewer than 2^31 - 1 nested same-name elements
                    assume(depth < 0x7fff_ffff);
                    let ghost w1 = self.write@;
                    let event = self.next()?;
                    match event {
                        DeEvent::Start(ref e) if e.name().as_ref() == end => {
                            self.skip_event(event)?;
                            proof { assert(self.write@.subrange(0, w0.len() as int) =~= w1.subrange(0, w0.len() as int)); }
                            depth += 1;
                        }
                        DeEvent::End(ref e) if e.name().as_ref() == end => {
                            self.skip_event(event)?;
                            proof { assert(self.write@.subrange(0, w0.len() as int) =~= w1.subrange(0, w0.len() as int)); }
                            if depth == 0 {
                                break;
                            }
                            depth -= 1;
                        }
                        DeEvent::Eof => {
                            self.skip_event(event)?;
                            proof { assert(self.write@.subrange(0, w0.len() as int) =~= w1.subrange(0, w0.len() as int)); }
                            break;
                        }
                        _ => { self.skip_event(event)?; proof { assert(self.write@.subrange(0, w0.len() as int) =~= w1.subrange(0, w0.len() as int)); } },
                    }
                }
            }
            _ => (),
        }
        Ok(())
    }
//@end
//@extract de::Deserializer::start_replay | src/de/mod.rs :: impl<'de, R, E> Deserializer<'de, R, E> where R: XmlRead<'de>, E: EntityResolver, :: fn start_replay | serves=C07,C20 features=serialize,overlapped-lists
    fn start_replay(&mut self, checkpoint: usize)
        // the checkpoint was taken between two skips: what lies in front of it does not end with a Text
        requires old(self).inv(), checkpoint <= old(self).write@.len(),
            checkpoint > 0 ==> !(old(self).write@[checkpoint - 1] is Text),
        ensures
            // C07: replaying keeps the invariant -- no two Texts become adjacent where the replayed events meet the pending ones
            final(self).inv(), final(self).limit == old(self).limit,
            final(self).read@ == old(self).write@.subrange(checkpoint as int, old(self).write@.len() as int) + old(self).read@,
            final(self).write@ == old(self).write@.subrange(0, checkpoint as int),
    {
        if checkpoint == 0 {
            self.write.append(&mut self.read);
            std::mem::swap(&mut self.read, &mut self.write);
        } else {
            let mut read = self.write.split_off(checkpoint);
            read.append(&mut self.read);
            self.read = read;
        }
        proof {
            let w0 = old(self).write@; let r0 = old(self).read@; let cp = checkpoint as int;
            let tail = w0.subrange(cp, w0.len() as int);
            assert(self.read@ =~= tail + r0);
            assert(self.write@ =~= w0.subrange(0, cp));
            let rd = self.read@;
            assert forall|i: int| 0 <= i < rd.len() implies de_wf(#[trigger] rd[i]) by {
                if i < tail.len() { assert(rd[i] == w0[cp + i]); } else { assert(rd[i] == r0[i - tail.len()]); }
            }
            assert forall|i: int| #![trigger rd[i]] 0 <= i && i + 1 < rd.len() implies !(rd[i] is Text && rd[i + 1] is Text) by {
                if i + 1 < tail.len() { assert(rd[i] == w0[cp + i] && rd[i + 1] == w0[cp + i + 1]); }
                else if i < tail.len() { assert(rd[i] == w0.last()); }
                else { assert(rd[i] == r0[i - tail.len()] && rd[i + 1] == r0[i + 1 - tail.len()]); }
            }
            if rd.len() > 0 && rd.last() is Text {
                if r0.len() > 0 { assert(rd.last() == r0.last()); } else { assert(rd.last() == w0.last()); }
            }
            let wr = self.write@;
            assert forall|i: int| 0 <= i < wr.len() implies de_wf(#[trigger] wr[i]) by { assert(wr[i] == w0[i]); }
            assert forall|i: int| #![trigger wr[i]] 0 <= i && i + 1 < wr.len() implies !(wr[i] is Text && wr[i + 1] is Text) by {
                assert(wr[i] == w0[i] && wr[i + 1] == w0[i + 1]);
            }
            if wr.len() > 0 { assert(wr.last() == w0[cp - 1]); }
        }
    }
//@end
//@extract de::Deserializer::read_to_end | src/de/mod.rs :: impl<'de, R, E> Deserializer<'de, R, E> where R: XmlRead<'de>, E: EntityResolver, :: fn read_to_end | serves=C07,C20 features=serialize,overlapped-lists
    #[verifier::exec_allows_no_decreases_clause]
    #[verifier::loop_isolation(false)]
    fn read_to_end(&mut self, name: QName) -> (r: Result<(), DeError>)
        requires old(self).inv()
        ensures final(self).inv(), final(self).write@ == old(self).write@, final(self).limit == old(self).limit
    {
        let mut depth = 0;
        loop
            invariant self.inv(), self.write@ == old(self).write@, self.limit == old(self).limit, depth >= 0,
        {
            // A-depth (stated assumption): fewer than 2^31 - 1 nested same-name elements
            assume(depth < 0x7fff_ffff);
            let ghost r1 = self.read@;
            proof {
                if r1.len() > 0 {
                    let t = r1.subrange(1, r1.len() as int);
                    assert forall|i: int| 0 <= i < t.len() implies de_wf(#[trigger] t[i]) by { assert(t[i] == r1[i + 1]); }
                    assert forall|i: int| #![trigger t[i]] 0 <= i && i + 1 < t.len() implies !(t[i] is Text && t[i + 1] is Text) by {
                        assert(t[i] == r1[i + 1] && t[i + 1] == r1[i + 2]);
                    }
                    if t.len() > 0 { assert(t.last() == r1.last()); }
                    assert(de_wf(r1[0]));
                }
            }
            match self.read.pop_front() {
                Some(DeEvent::Start(e)) if e.name() == name => {
                    depth += 1;
                }
                Some(DeEvent::End(e)) if e.name() == name => {
                    if depth == 0 {
                        break;
                    }
                    depth -= 1;
                }

                // Drop all other skipped events
                Some(_) => continue,

                // If we do not have skipped events, use effective reading that will
                // not allocate memory for events
                None => {
                    // We should close all opened tags, because we could buffer
                    // Start events, but not the corresponding End events. So we
                    // keep reading events until we exit all nested tags.
                    // `read_to_end()` will return an error if an Eof was encountered
                    // preliminary (in case of malformed XML).
                    //
                    // <tag><tag></tag></tag>
                    // ^^^^^^^^^^             - buffered in `self.read`, when `self.read_to_end()` is called, depth = 2
                    //           ^^^^^^       - read by the first call of `self.reader.read_to_end()`
                    //                 ^^^^^^ - read by the second call of `self.reader.read_to_end()`
                    loop
                        invariant self.inv(), self.read@.len() == 0, self.write@ == old(self).write@, self.limit == old(self).limit, depth >= 0,
                    {
                        self.reader.read_to_end(name)?;
                        if depth == 0 {
                            break;
                        }
                        depth -= 1;
                    }
                    break;
                }
            }
        }
        Ok(())
    }
//@end
//@else
//@extract de::Deserializer::new | src/de/mod.rs :: impl<'de, R, E> Deserializer<'de, R, E> where R: XmlRead<'de>, E: EntityResolver, :: fn new | serves=C07 features=serialize
    /// Create an XML deserializer from one of the possible quick_xml input sources.
    ///
    /// Typically it is more convenient to use one of these methods instead:
    ///
    ///  - [`Deserializer::from_str`]
    ///  - [`Deserializer::from_reader`]
    fn new(reader: R, entity_resolver: E) -> (r: Self)
        ensures r.inv()
    {
        Self {
            reader: XmlReader::new(reader, entity_resolver),

            peek: None,

            key_buf: String::new(),
        }
    }
//@end
//@extract de::Deserializer::peek | src/de/mod.rs :: impl<'de, R, E> Deserializer<'de, R, E> where R: XmlRead<'de>, E: EntityResolver, :: fn peek | serves=C07 features=serialize
    fn peek(&mut self) -> (r: Result<&DeEvent<'de>, DeError>)
        requires old(self).inv()
        ensures final(self).inv(), r matches Ok(e) ==> final(self).head() == Some(*e) && de_wf(*e),
            // peeking twice is peeking once
            old(self).head() is Some ==> r is Ok && *final(self) == *old(self),
    {
        if self.peek.is_none() {
            self.peek = Some(self.reader.next()?);
        }
        match self.peek.as_ref() {
            Some(v) => Ok(v),
            // SAFETY: a `None` variant for `self.peek` would have been replaced
            // by a `Some` variant in the code above.
            // TODO: Can be replaced with `unsafe { std::hint::unreachable_unchecked() }`
            // if unsafe code will be allowed
            None => unreachable!(),
        }
    }
//@end
//@extract de::Deserializer::next | src/de/mod.rs :: impl<'de, R, E> Deserializer<'de, R, E> where R: XmlRead<'de>, E: EntityResolver, :: fn next | serves=C07 features=serialize
    fn next(&mut self) -> (r: Result<DeEvent<'de>, DeError>)
        requires old(self).inv()
        ensures final(self).inv(), r matches Ok(ev) ==> de_wf(ev), r is Ok ==> final(self).head() is None,
            old(self).head() matches Some(ev) ==> r == Result::<DeEvent<'de>, DeError>::Ok(ev) && final(self).reader == old(self).reader,
            r matches Ok(DeEvent::Text(_)) ==> final(self).after_text(),
            old(self).after_text() ==> !(r matches Ok(DeEvent::Text(_))),
    {
        if let Some(e) = self.peek.take() {
            return Ok(e);
        }
        self.reader.next()
    }
//@end
//@extract de::Deserializer::last_peeked | src/de/mod.rs :: impl<'de, R, E> Deserializer<'de, R, E> where R: XmlRead<'de>, E: EntityResolver, :: fn last_peeked | serves=C07 features=serialize
    fn last_peeked(&self) -> (r: &DeEvent<'de>)
        // `peek()` was called before: the slot is filled
        requires self.head() is Some
        ensures self.head() == Some(*r)
    {
        {
            self.peek
                .as_ref()
                .expect("`Deserializer::peek()` should be called")
        }
    }
//@end
//@extract de::Deserializer::read_to_end | src/de/mod.rs :: impl<'de, R, E> Deserializer<'de, R, E> where R: XmlRead<'de>, E: EntityResolver, :: fn read_to_end | serves=C07 features=serialize
    fn read_to_end(&mut self, name: QName) -> (r: Result<(), DeError>)
        requires old(self).inv()
        ensures final(self).inv()
    {
        // First one might be in self.peek
        match self.next()? {
            DeEvent::Start(e) => self.reader.read_to_end(e.name())?,
            DeEvent::End(e) if e.name() == name => return Ok(()),
            _ => (),
        }
        self.reader.read_to_end(name)
    }
//@end
//@endif
//@extract de::Deserializer::skip_next_tree | src/de/mod.rs :: impl<'de, R, E> Deserializer<'de, R, E> where R: XmlRead<'de>, E: EntityResolver, :: fn skip_next_tree | serves=C07 features=serialize
    fn skip_next_tree(&mut self) -> (r: Result<(), DeError>)
        // only called when the next event -- already peeked -- is a Start: the `unreachable!()` is unreachable
        requires old(self).inv(), old(self).peeked_start()
        ensures final(self).inv()
    {
        let DeEvent::Start(start) = self.next()? else {
            unreachable!()
        };
        let name = start.name();
        self.read_to_end(name)
    }
//@end
//@extract de::Deserializer::read_string_impl | src/de/mod.rs :: impl<'de, R, E> Deserializer<'de, R, E> where R: XmlRead<'de>, E: EntityResolver, :: fn read_string_impl | serves=C07 features=serialize
    /// Consumes consequent [`Text`] and [`CData`] (both a referred below as a _text_)
    /// events, merge them into one string. If there are no such events, returns
    /// an empty string.
    ///
    /// If `allow_start` is `false`, then only text events are consumed, for other
    /// events an error is returned (see table below).
    ///
    /// If `allow_start` is `true`, then two or three events are expected:
    /// - [`DeEvent::Start`];
    /// - _(optional)_ [`DeEvent::Text`] which content is returned;
    /// - [`DeEvent::End`]. If text event was missed, an empty string is returned.
    ///
    /// Corresponding events are consumed.
    ///
    /// # Handling events
    ///
    /// The table below shows how events is handled by this method:
    ///
    /// |Event             |XML                        |Handling
    /// |------------------|---------------------------|----------------------------------------
    /// |[`DeEvent::Start`]|`<tag>...</tag>`           |if `allow_start == true`, result determined by the second table, otherwise emits [`UnexpectedStart("tag")`](DeError::UnexpectedStart)
    /// |[`DeEvent::End`]  |`</any-tag>`               |This is impossible situation, the method will panic if it happens
    /// |[`DeEvent::Text`] |`text content` or `<![CDATA[cdata content]]>` (probably mixed)|Returns event content unchanged
    /// |[`DeEvent::Eof`]  |                           |Emits [`UnexpectedEof`](DeError::UnexpectedEof)
    ///
    /// Second event, consumed if [`DeEvent::Start`] was received and `allow_start == true`:
    ///
    /// |Event             |XML                        |Handling
    /// |------------------|---------------------------|----------------------------------------------------------------------------------
    /// |[`DeEvent::Start`]|`<any-tag>...</any-tag>`   |Emits [`UnexpectedStart("any-tag")`](DeError::UnexpectedStart)
    /// |[`DeEvent::End`]  |`</tag>`                   |Returns an empty slice. The reader guarantee that tag will match the open one
    /// |[`DeEvent::Text`] |`text content` or `<![CDATA[cdata content]]>` (probably mixed)|Returns event content unchanged, expects the `</tag>` after that
    /// |[`DeEvent::Eof`]  |                           |Emits [`InvalidXml(IllFormed(MissingEndTag))`](DeError::InvalidXml)
    ///
    /// [`Text`]: Event::Text
    /// [`CData`]: Event::CData
    fn read_string_impl(&mut self, allow_start: bool) -> (r: Result<Cow<'de, str>, DeError>)
        // "the reader guarantees that we do not have unmatched tags": that is a protocol between the crate and foreign
        // visitors in general; for the callers under contract here it is a fact -- they have PEEKED a Start or a Text
        requires old(self).inv(), old(self).peeked_text() || old(self).peeked_start(),
        ensures final(self).inv()
    {
        match self.next()? {
            DeEvent::Text(e) => Ok(e.text),
            // allow one nested level
            DeEvent::Start(e) if allow_start => self.read_text(e.name()),
            DeEvent::Start(e) => Err(DeError::UnexpectedStart(e.name().as_ref().to_owned())),
            // SAFETY: The reader is guaranteed that we don't have unmatched tags
            // If we here, then out deserializer has a bug
            DeEvent::End(e) => unreachable!(),
            DeEvent::Eof => Err(DeError::UnexpectedEof),
        }
    }
//@end
//@extract de::Deserializer::read_text | src/de/mod.rs :: impl<'de, R, E> Deserializer<'de, R, E> where R: XmlRead<'de>, E: EntityResolver, :: fn read_text | serves=C07 features=serialize
    /// Consumes one [`DeEvent::Text`] event and ensures that it is followed by the
    /// [`DeEvent::End`] event.
    ///
    /// # Parameters
    /// - `name`: name of a tag opened before reading text. The corresponding end tag
    ///   should present in input just after the text
    fn read_text(&mut self, name: QName) -> (r: Result<Cow<'de, str>, DeError>)
        requires old(self).inv()
        ensures final(self).inv()
    {
        match self.next()? {
            DeEvent::Text(e) => match self.next()? {
                // The matching tag name is guaranteed by the reader
                DeEvent::End(_) => Ok(e.text),
                // SAFETY: Cannot be two consequent Text events, they would be merged into one
                DeEvent::Text(_) => unreachable!(),
                DeEvent::Start(e) => Err(DeError::UnexpectedStart(e.name().as_ref().to_owned())),
                DeEvent::Eof => Err(Error::missed_end(name, self.reader.decoder()).into()),
            },
            // We can get End event in case of `<tag></tag>` or `<tag/>` input
            // Return empty text in that case
            // The matching tag name is guaranteed by the reader
            DeEvent::End(_) => Ok("".into()),
            DeEvent::Start(s) => Err(DeError::UnexpectedStart(s.name().as_ref().to_owned())),
            DeEvent::Eof => Err(Error::missed_end(name, self.reader.decoder()).into()),
        }
    }
//@end
}

/// Model of serde::de::Visitor / Deserializer for the one entry point under contract here (A-serde): a visitor may do
/// anything with the deserializer it is handed (`requires`: the deserializer's invariant -- the type-invariant assumption)
pub trait Visitor<'de>: Sized {
    type Value;
    fn visit_none(self) -> Result<Self::Value, DeError>;
    fn visit_unit(self) -> Result<Self::Value, DeError>;
    fn visit_seq<A: SeqModel<'de>>(self, seq: A) -> Result<Self::Value, DeError> requires seq.seq_ok();
    fn visit_map<A: MapModel<'de>>(self, map: A) -> Result<Self::Value, DeError> requires map.map_ok();
    fn visit_enum<A: EnumModel<'de>>(self, data: A) -> Result<Self::Value, DeError> requires data.enum_ok();
    fn visit_borrowed_str(self, v: &'de str) -> Result<Self::Value, DeError>;
    fn visit_str(self, v: &str) -> Result<Self::Value, DeError>;
    fn visit_i8(self, v: i8) -> Result<Self::Value, DeError>;
    fn visit_i16(self, v: i16) -> Result<Self::Value, DeError>;
    fn visit_i32(self, v: i32) -> Result<Self::Value, DeError>;
    fn visit_i64(self, v: i64) -> Result<Self::Value, DeError>;
    fn visit_u8(self, v: u8) -> Result<Self::Value, DeError>;
    fn visit_u16(self, v: u16) -> Result<Self::Value, DeError>;
    fn visit_u32(self, v: u32) -> Result<Self::Value, DeError>;
    fn visit_u64(self, v: u64) -> Result<Self::Value, DeError>;
    fn visit_f32(self, v: f32) -> Result<Self::Value, DeError>;
    fn visit_f64(self, v: f64) -> Result<Self::Value, DeError>;
    fn visit_string(self, v: String) -> Result<Self::Value, DeError>;
    fn visit_some<D: DeModel<'de>>(self, deserializer: D) -> Result<Self::Value, DeError>
        requires deserializer.de_ok();
    fn visit_newtype_struct<D: DeModel<'de>>(self, deserializer: D) -> Result<Self::Value, DeError>
        requires deserializer.de_ok();
}
pub trait DeDeserializer<'de>: Sized {
    spec fn de_ok(&self) -> bool;
    #[verifier::prophetic]
    spec fn opt_post(&self) -> bool;
    fn deserialize_option<V: Visitor<'de>>(self, visitor: V) -> (r: Result<V::Value, DeError>)
        requires self.de_ok() ensures self.opt_post();
}
impl<'de, 'a, R, E> DeDeserializer<'de> for &'a mut Deserializer<'de, R, E>
where
    R: XmlRead<'de>,
    E: EntityResolver,
{
    closed spec fn de_ok(&self) -> bool { (**self).inv() }
    /// C07 (bounded time): an Option that is answered with `None` because the next event is an EMPTY text has consumed that
    /// text -- otherwise a caller that asks again (a sequence of options at the top level) would be answered `None` forever
    #[verifier::prophetic]
    closed spec fn opt_post(&self) -> bool {
        (**self).next_is_empty_text() ==> (*final(*self)).after_text()
    }
//@extract de::Deserializer::deserialize_option | src/de/mod.rs :: impl<'de, 'a, R, E> de::Deserializer<'de> for &'a mut Deserializer<'de, R, E> where R: XmlRead<'de>, E: EntityResolver, :: fn deserialize_option | serves=C07 features=serialize
    fn deserialize_option<V>(self, visitor: V) -> (r: Result<V::Value, DeError>)
    where
        V: Visitor<'de>,
    {
        // We cannot use result of `peek()` directly because of borrow checker
        let _ = self.peek()?;
        match self.last_peeked() {
            DeEvent::Text(t) if t.is_empty() => {
                // Consume the empty text, otherwise the sequence of options
                // at the top level would return `None` forever
                self.next()?;
                visitor.visit_none()
            }
            DeEvent::Eof => visitor.visit_none(),
            // if the `xsi:nil` attribute is set to true we got a none value
            DeEvent::Start(start) if self.reader.reader.has_nil_attr(&start) => {
                self.skip_next_tree()?;
                visitor.visit_none()
            }
            _ => visitor.visit_some(self),
        }
    }
//@end
}

// =============================================================================================
// ---------------------------------------------------------------------------------------------
// (same unit, same module) the map / value / variant / list accessors of
// the serde deserializer (src/de/map.rs) on top of unit dexr. C07 mechanism: their `unreachable!()` are
// justified by comments such as "we set `Text` only when we have seen `Text`" or "we use that deserializer
// only when we peeked `Start`". Each accessor holds the deserializer through an exclusive borrow and is
// consumed by the one call made on it, so these are TYPE INVARIANTS: established where the value is
// constructed (proved: the constructing function must show `ok()` of what it hands to foreign code),
// assumed at entry (`requires ok()`, the model traits), and enough to PROVE every such site unreachable.
// ---------------------------------------------------------------------------------------------

use core::ops::Range;

// ---- A-serde: the foreign traits, as far as these functions use them ----
/// a deserializer handed to foreign code; `de_ok` is its type invariant
pub trait DeModel<'de>: Sized { spec fn de_ok(&self) -> bool; }
pub trait SeqModel<'de>: Sized { spec fn seq_ok(&self) -> bool; }
pub trait MapModel<'de>: Sized { spec fn map_ok(&self) -> bool; }
pub trait EnumModel<'de>: Sized { spec fn enum_ok(&self) -> bool; }
pub trait DeserializeSeed<'de>: Sized {
    type Value;
    fn deserialize<D: DeModel<'de>>(self, deserializer: D) -> Result<Self::Value, DeError>
        requires deserializer.de_ok();
}
/// stand-ins for deserializers that are not under contract here (their own units: dekey, delist; serde's
/// BorrowedStrDeserializer); nothing is required of them
pub struct BorrowedStrDeserializer<'de> { pub value: &'de str }
impl<'de> BorrowedStrDeserializer<'de> {
    #[verifier::external_body]
    pub fn new(value: &'de str) -> (r: Self) { unimplemented!() }
}
impl<'de> DeModel<'de> for BorrowedStrDeserializer<'de> { open spec fn de_ok(&self) -> bool { true } }
pub struct SimpleTypeDeserializer<'de> { pub text: Cow<'de, str> }
impl<'de> SimpleTypeDeserializer<'de> {
    #[verifier::external_body]
    pub fn from_text(text: Cow<'de, str>) -> (r: Self) { unimplemented!() }
    #[verifier::external_body]
    pub fn from_text_content(value: Text<'de>) -> (r: Self) { unimplemented!() }
    #[verifier::external_body]
    pub fn from_part(value: &Cow<'de, [u8]>, range: Range<usize>, escaped: bool, decoder: Decoder) -> (r: Self) { unimplemented!() }
    #[verifier::external_body]
    pub fn deserialize_struct<V: Visitor<'de>>(self, name: &'static str, fields: &'static [&'static str], visitor: V) -> Result<V::Value, DeError> { unimplemented!() }
    #[verifier::external_body]
    pub fn deserialize_tuple<V: Visitor<'de>>(self, len: usize, visitor: V) -> Result<V::Value, DeError> { unimplemented!() }
    #[verifier::external_body]
    pub fn deserialize_seq<V: Visitor<'de>>(self, visitor: V) -> Result<V::Value, DeError> { unimplemented!() }
}
/// the characters a `Cow<str>` holds, however it holds them
pub open spec fn cow_chars(c: Cow<'_, str>) -> Seq<char> { match c { Cow::Borrowed(s) => s@, Cow::Owned(s) => s@ } }
/// OBSERVED hand-over of a string to the visitor (C14: the SAME characters whether the text is borrowed from the input -- from_str -- or
/// owned -- from_reader; declared rewrite of the two calls in `deserialize_str`, which names the text read as a ghost argument)
pub fn visit_borrowed_str_is<'de, V: Visitor<'de>>(expected: Ghost<Seq<char>>, visitor: V, v: &'de str) -> (r: Result<V::Value, DeError>)
    requires v@ == expected@
{ visitor.visit_borrowed_str(v) }
pub fn visit_str_is<'de, V: Visitor<'de>>(expected: Ghost<Seq<char>>, visitor: V, v: &str) -> (r: Result<V::Value, DeError>)
    requires v@ == expected@
{ visitor.visit_str(v) }
pub fn visit_string_is<'de, V: Visitor<'de>>(expected: Ghost<Seq<char>>, visitor: V, v: String) -> (r: Result<V::Value, DeError>)
    requires v@ == expected@
{ visitor.visit_string(v) }
/// `str::parse::<T>()` for the number types (std FromStr, not modelled): a number or not -- nothing else is used (declared rewrite
/// `text.parse()` ==> `parse_(&text)`)
#[verifier::external_body]
pub fn parse_<T>(s: &Cow<'_, str>) -> Result<T, ()> { unimplemented!() }
/// stand-in for utils::CowRef (the real one: unit dekey): only that its `deserialize_bool` returns is used here
pub enum CowRef<'i, 's> { Input(&'i str), Slice(&'s str), Owned(String) }
impl<'i, 's> CowRef<'i, 's> {
    #[verifier::external_body]
    pub fn deserialize_bool<'de, V: Visitor<'de>>(self, visitor: V) -> Result<V::Value, DeError> { unimplemented!() }
}
impl<'de> DeModel<'de> for SimpleTypeDeserializer<'de> { open spec fn de_ok(&self) -> bool { true } }
impl<'de> EnumModel<'de> for SimpleTypeDeserializer<'de> { open spec fn enum_ok(&self) -> bool { true } }

/// stand-ins for the attribute iterator (verified in unit attrs; C11) and the key deserializer (unit dekey): only that they
/// return is used here
pub struct IterState { pub st: u8 }
pub struct Attr { pub key: Range<usize>, pub value: Option<Range<usize>> }
pub struct AttrError { pub e: u8 }
impl IterState {
    #[verifier::external_body]
    pub fn new(offset: usize, html: bool) -> (r: Self) { unimplemented!() }
    #[verifier::external_body]
    pub fn next(&mut self, slice: &[u8]) -> (r: Option<Result<Attr, AttrError>>)
        ensures r matches Some(Ok(a)) ==> a.key.start <= a.key.end <= slice@.len()
    { unimplemented!() }
}
impl vstd::std_specs::convert::FromSpecImpl<Attr> for (Range<usize>, Option<Range<usize>>) {
    open spec fn obeys_from_spec() -> bool { true }
    open spec fn from_spec(a: Attr) -> Self { (a.key, a.value) }
}
impl From<Attr> for (Range<usize>, Option<Range<usize>>) {
    fn from(a: Attr) -> Self { (a.key, a.value) }
}
impl vstd::std_specs::convert::FromSpecImpl<AttrError> for DeError {
    open spec fn obeys_from_spec() -> bool { false }
    open spec fn from_spec(e: AttrError) -> Self { arbitrary() }
}
impl From<AttrError> for DeError {
    #[verifier::external_body]
    fn from(e: AttrError) -> Self { unimplemented!() }
}
pub struct QNameDeserializer<'d> { pub name: &'d str }
impl<'d> QNameDeserializer<'d> {
    #[verifier::external_body]
    pub fn from_attr(name: QName<'d>, decoder: Decoder, key_buf: &'d mut String) -> (r: Result<Self, DeError>) { unimplemented!() }
    #[verifier::external_body]
    pub fn from_elem<'i>(name: &'i [u8], decoder: Decoder) -> (r: Result<QNameDeserializer<'i>, DeError>) { unimplemented!() }
}
impl<'de, 'd> DeModel<'de> for QNameDeserializer<'d> { open spec fn de_ok(&self) -> bool { true } }
/// assumed: whether the tag is one of the fields (`fields.iter().all(..)` is outside the Verus subset)
#[verifier::external_body]
pub fn not_in(fields: &'static [&'static str], start: &BytesStart, decoder: Decoder) -> (r: Result<bool, DeError>) { unimplemented!() }
/// std: `Option<Result<T, E>>::transpose`, `Option::unwrap_or_default`
pub assume_specification<T, E>[ Option::<Result<T, E>>::transpose ](o: Option<Result<T, E>>) -> (r: Result<Option<T>, E>)
    ensures match o { None => r == Result::<Option<T>, E>::Ok(None), Some(Ok(x)) => r == Result::<Option<T>, E>::Ok(Some(x)), Some(Err(e)) => r == Result::<Option<T>, E>::Err(e) };
//@extract de::TEXT_KEY#dexr | src/de/mod.rs :: const TEXT_KEY | serves=C07 features=serialize
 pub exec const TEXT_KEY: &'static str
    ensures TEXT_KEY@ == "$text"@
 { "$text" }
//@end
//@extract de::VALUE_KEY#dexr | src/de/mod.rs :: const VALUE_KEY | serves=C07 features=serialize
 pub exec const VALUE_KEY: &'static str
    ensures VALUE_KEY@ == "$value"@
 { "$value" }
//@end
//@extract de::map::ValueSource | src/de/map.rs :: enum ValueSource | serves=C07 features=serialize
enum ValueSource {
    /// Source are not specified, because [`next_key_seed()`] not yet called.
    /// This is an initial state and state after deserializing value
    /// (after call of [`next_value_seed()`]).
    ///
    /// Attempt to call [`next_value_seed()`] while accessor in this state would
    /// return a [`DeError::KeyNotRead`] error.
    ///
    /// [`next_key_seed()`]: MapAccess::next_key_seed
    /// [`next_value_seed()`]: MapAccess::next_value_seed
    Unknown,
    /// Next value should be deserialized from an attribute value; value is located
    /// at specified span.
    Attribute(Range<usize>),
    /// Value should be deserialized from the text content of the XML node, which
    /// represented or by an ordinary text node, or by a CDATA node:
    ///
    /// ```xml
    /// <any-tag>
    ///     <key>text content</key>
    /// <!--     ^^^^^^^^^^^^ - this will be used to deserialize map value -->
    /// </any-tag>
    /// ```
    /// ```xml
    /// <any-tag>
    ///     <key><![CDATA[cdata content]]></key>
    /// <!--              ^^^^^^^^^^^^^ - this will be used to deserialize a map value -->
    /// </any-tag>
    /// ```
    Text,
    /// Next value should be deserialized from an element with an any name, except
    /// elements with a name matching one of the struct fields. Corresponding tag
    /// name will always be associated with a field with name [`VALUE_KEY`].
    ///
    /// That state is set when call to [`peek()`] returns a [`Start`] event, which
    /// [`name()`] is not listed in the [list of known fields] (which for a struct
    /// is a list of field names, and for a map that is an empty list), _and_
    /// struct has a field with a special name [`VALUE_KEY`].
    ///
    /// When in this state, next event, returned by [`next()`], will be a [`Start`],
    /// which represents both a key, and a value. Value would be deserialized from
    /// the whole element and how is will be done determined by the value deserializer.
    /// The [`ElementMapAccess`] do not consume any events in that state.
    ///
    /// Because in that state any encountered `<tag>` is mapped to the [`VALUE_KEY`]
    /// field, it is possible to use tag name as an enum discriminator, so `enum`s
    /// can be deserialized from that XMLs:
    ///
    /// ```xml
    /// <any-tag>
    ///     <variant1>...</variant1>
    /// <!-- ~~~~~~~~               - this data will determine that this is Enum::variant1 -->
    /// <!--^^^^^^^^^^^^^^^^^^^^^^^ - this data will be used to deserialize a map value -->
    /// </any-tag>
    /// ```
    /// ```xml
    /// <any-tag>
    ///     <variant2>...</variant2>
    /// <!-- ~~~~~~~~               - this data will determine that this is Enum::variant2 -->
    /// <!--^^^^^^^^^^^^^^^^^^^^^^^ - this data will be used to deserialize a map value -->
    /// </any-tag>
    /// ```
    ///
    /// both can be deserialized into
    ///
    /// ```ignore
    /// enum Enum {
    ///   variant1,
    ///   variant2,
    /// }
    /// struct AnyName {
    ///   #[serde(rename = "$value")]
    ///   field: Enum,
    /// }
    /// ```
    ///
    /// That is possible, because value deserializer have access to the full content
    /// of a `<variant1>...</variant1>` or `<variant2>...</variant2>` node, including
    /// the tag name.
    ///
    /// [`Start`]: DeEvent::Start
    /// [`peek()`]: Deserializer::peek()
    /// [`next()`]: Deserializer::next()
    /// [`name()`]: BytesStart::name()
    /// [`Text`]: Self::Text
    /// [list of known fields]: ElementMapAccess::fields
    Content,
    /// Next value should be deserialized from an element with a dedicated name.
    /// If deserialized type is a sequence, then that sequence will collect all
    /// elements with the same name until it will be filled. If not all elements
    /// would be consumed, the rest will be ignored.
    ///
    /// That state is set when call to [`peek()`] returns a [`Start`] event, which
    /// [`name()`] represents a field name. That name will be deserialized as a key.
    ///
    /// When in this state, next event, returned by [`next()`], will be a [`Start`],
    /// which represents both a key, and a value. Value would be deserialized from
    /// the whole element and how is will be done determined by the value deserializer.
    /// The [`ElementMapAccess`] do not consume any events in that state.
    ///
    /// An illustration below shows, what data is used to deserialize key and value:
    /// ```xml
    /// <any-tag>
    ///     <key>...</key>
    /// <!-- ~~~           - this data will be used to deserialize a map key -->
    /// <!--^^^^^^^^^^^^^^ - this data will be used to deserialize a map value -->
    /// </any-tag>
    /// ```
    ///
    /// Although value deserializer will have access to the full content of a `<key>`
    /// node (including the tag name), it will not get much benefits from that,
    /// because tag name will always be fixed for a given map field (equal to a
    /// field name). So, if the field type is an `enum`, it cannot select its
    /// variant based on the tag name. If that is needed, then [`Content`] variant
    /// of this enum should be used. Such usage is enabled by annotating a struct
    /// field as "content" field, which implemented as given the field a special
    /// [`VALUE_KEY`] name.
    ///
    /// [`Start`]: DeEvent::Start
    /// [`peek()`]: Deserializer::peek()
    /// [`next()`]: Deserializer::next()
    /// [`name()`]: BytesStart::name()
    /// [`Content`]: Self::Content
    Nested,
}
//@end
//@extract de::map::ElementMapAccess | src/de/map.rs :: struct ElementMapAccess | serves=C07 features=serialize
 struct ElementMapAccess<'de, 'd, R, E>
where
    R: XmlRead<'de>,
    E: EntityResolver,
{
    /// Tag -- owner of attributes
    start: BytesStart<'de>,
    de: &'d mut Deserializer<'de, R, E>,
    /// State of the iterator over attributes. Contains the next position in the
    /// inner `start` slice, from which next attribute should be parsed.
    iter: IterState,
    /// Current state of the accessor that determines what next call to API
    /// methods should return.
    source: ValueSource,
    /// List of field names of the struct. It is empty for maps
    fields: &'static [&'static str],
    /// If `true`, then the deserialized struct has a field with a special name:
    /// [`VALUE_KEY`]. That field should be deserialized from the whole content
    /// of an XML node, including tag name:
    ///
    /// ```xml
    /// <tag>value for VALUE_KEY field<tag>
    /// ```
    has_value_field: bool,
}
//@end

//@extract de::map::TagFilter | src/de/map.rs :: enum TagFilter | serves=C07 features=serialize
enum TagFilter<'de> {
    /// A `SeqAccess` interested only in tags with specified name to deserialize
    /// an XML like this:
    ///
    /// ```xml
    /// <...>
    ///   <tag/>
    ///   <tag/>
    ///   <tag/>
    ///   ...
    /// </...>
    /// ```
    ///
    /// The tag name is stored inside (`b"tag"` for that example)
    Include(BytesStart<'de>), //TODO: Need to store only name instead of a whole tag
    /// A `SeqAccess` interested in tags with any name, except explicitly listed.
    /// Excluded tags are used as struct field names and therefore should not
    /// fall into a `$value` category
    Exclude(&'static [&'static str]),
}
//@end
//@extract de::map::MapValueDeserializer | src/de/map.rs :: struct MapValueDeserializer | serves=C07 features=serialize
////////////////////////////////////////////////////////////////////////////////////////////////////

/// A deserializer for a value of map or struct. That deserializer slightly
/// differently processes events for a primitive types and sequences than
/// a [`Deserializer`].
///
/// This deserializer used to deserialize two kinds of fields:
/// - usual fields with a dedicated name, such as `field_one` or `field_two`, in
///   that case field [`Self::fixed_name`] is `true`;
/// - the special `$value` field which represents any tag or a textual content
///   in the XML which would be found in the document, in that case field
///   [`Self::fixed_name`] is `false`.
///
/// This deserializer can see two kind of events at the start:
/// - [`DeEvent::Text`]
/// - [`DeEvent::Start`]
///
/// which represents two possible variants of items:
/// ```xml
/// <item>A tag item</item>
/// A text item
/// <yet another="tag item"/>
/// ```
///
/// This deserializer are very similar to a [`ElementDeserializer`]. The only difference
/// in the `deserialize_seq` method. This deserializer will act as an iterator
/// over tags / text within it's parent tag, whereas the [`ElementDeserializer`]
/// will represent sequences as an `xs:list`.
///
/// This deserializer processes items as following:
/// - primitives (numbers, booleans, strings, characters) are deserialized either
///   from a text content, or unwrapped from a one level of a tag. So, `123` and
///   `<int>123</int>` both can be deserialized into an `u32`;
/// - `Option`:
///   - empty text of [`DeEvent::Text`] is deserialized as `None`;
///   - everything else are deserialized as `Some` using the same deserializer,
///     including `<tag/>` or `<tag></tag>`;
/// - units (`()`) and unit structs consumes the whole text or element subtree;
/// - newtype structs are deserialized by forwarding deserialization of inner type
///   with the same deserializer;
/// - sequences, tuples and tuple structs are deserialized by iterating within the
///   parent tag and deserializing each tag or text content using [`ElementDeserializer`];
/// - structs and maps are deserialized using new instance of [`ElementMapAccess`];
/// - enums:
///   - in case of [`DeEvent::Text`] event the text content is deserialized as
///     a `$text` variant. Enum content is deserialized from the text using
///     [`SimpleTypeDeserializer`];
///   - in case of [`DeEvent::Start`] event the tag name is deserialized as
///     an enum tag, and the content inside are deserialized as an enum content.
///     Depending on a variant kind deserialization is performed as:
///     - unit variants: consuming text content or a subtree;
///     - newtype variants: forward deserialization to the inner type using
///       this deserializer;
///     - tuple variants: call [`deserialize_tuple`] of this deserializer;
///     - struct variants: call [`deserialize_struct`] of this deserializer.
///
/// [`deserialize_tuple`]: #method.deserialize_tuple
/// [`deserialize_struct`]: #method.deserialize_struct
struct MapValueDeserializer<'de, 'd, 'm, R, E>
where
    R: XmlRead<'de>,
    E: EntityResolver,
{
    /// Access to the map that created this deserializer. Gives access to the
    /// context, such as list of fields, that current map known about.
    map: &'m mut ElementMapAccess<'de, 'd, R, E>,
    /// Whether this deserializer was created for deserialization from an element
    /// with fixed name, or the elements with different names or even text are allowed.
    ///
    /// If this field is `true`, we process `<tag>` element in the following XML shape:
    ///
    /// ```xml
    /// <any-tag>
    ///   <tag>...</tag>
    /// </any-tag>
    /// ```
    ///
    /// The whole map represented by an `<any-tag>` element, the map key is a `tag`,
    /// and the value starts with is a `Start("tag")` (the value deserializer will
    /// see that event first) and extended to the matching `End("tag")` event.
    /// In order to deserialize primitives (such as `usize`) we need to allow to
    /// look inside the one levels of tags, so the
    ///
    /// ```xml
    /// <tag>42<tag>
    /// ```
    ///
    /// could be deserialized into `42usize` without problems, and at the same time
    ///
    /// ```xml
    /// <tag>
    ///   <key1/>
    ///   <key2/>
    ///   <!--...-->
    /// <tag>
    /// ```
    /// could be deserialized to a struct.
    ///
    /// If this field is `false`, we processes the one of following XML shapes:
    ///
    /// ```xml
    /// <any-tag>
    ///   text value
    /// </any-tag>
    /// ```
    /// ```xml
    /// <any-tag>
    ///   <![CDATA[cdata value]]>
    /// </any-tag>
    /// ```
    /// ```xml
    /// <any-tag>
    ///   <any>...</any>
    /// </any-tag>
    /// ```
    ///
    /// The whole map represented by an `<any-tag>` element, the map key is
    /// implicit and equals to the [`VALUE_KEY`] constant, and the value is
    /// a [`Text`], or a [`Start`] event (the value deserializer will see one of
    /// those events). In the first two cases the value of this field do not matter
    /// (because we already see the textual event and there no reasons to look
    /// "inside" something), but in the last case the primitives should raise
    /// a deserialization error, because that means that you trying to deserialize
    /// the following struct:
    ///
    /// ```ignore
    /// struct AnyName {
    ///   #[serde(rename = "$value")]
    ///   any_name: String,
    /// }
    /// ```
    /// which means that `any_name` should get a content of the `<any-tag>` element.
    ///
    /// Changing this can be valuable for <https://github.com/tafia/quick-xml/issues/383>,
    /// but those fields should be explicitly marked that they want to get any
    /// possible markup as a `String` and that mark is different from marking them
    /// as accepting "text content" which the currently `$text` means.
    ///
    /// [`Text`]: DeEvent::Text
    /// [`Start`]: DeEvent::Start
    fixed_name: bool,
}
//@end
//@extract de::map::MapValueVariantAccess | src/de/map.rs :: struct MapValueVariantAccess | serves=C07 features=serialize
struct MapValueVariantAccess<'de, 'd, 'm, R, E>
where
    R: XmlRead<'de>,
    E: EntityResolver,
{
    /// Access to the map that created this enum accessor. Gives access to the
    /// context, such as list of fields, that current map known about.
    map: &'m mut ElementMapAccess<'de, 'd, R, E>,
    /// `true` if variant should be deserialized from a textual content
    /// and `false` if from tag
    is_text: bool,
}
//@end
//@extract de::map::MapValueSeqAccess | src/de/map.rs :: struct MapValueSeqAccess | serves=C07 features=serialize
////////////////////////////////////////////////////////////////////////////////////////////////////

/// An accessor to sequence elements forming a value for struct field.
/// Technically, this sequence is flattened out into structure and sequence
/// elements are overlapped with other fields of a structure. Each call to
/// [`Self::next_element_seed`] consumes a next sub-tree or consequent list
/// of [`Text`] and [`CData`] events.
///
/// ```xml
/// <>
///   ...
///   <item>The is the one item</item>
///   This is <![CDATA[one another]]> item<!-- even when--> it splitted by comments
///   <tag>...and that is the third!</tag>
///   ...
/// </>
/// ```
///
/// Depending on [`Self::filter`], only some of that possible constructs would be
/// an element.
///
/// [`Text`]: crate::events::Event::Text
/// [`CData`]: crate::events::Event::CData
struct MapValueSeqAccess<'de, 'd, 'm, R, E>
where
    R: XmlRead<'de>,
    E: EntityResolver,
{
    /// Accessor to a map that creates this accessor and to a deserializer for
    /// a sequence items.
    map: &'m mut ElementMapAccess<'de, 'd, R, E>,
    /// Filter that determines whether a tag is a part of this sequence.
    ///
    /// When feature [`overlapped-lists`] is not activated, iteration will stop
    /// when found a tag that does not pass this filter.
    ///
    /// When feature [`overlapped-lists`] is activated, all tags, that not pass
    /// this check, will be skipped.
    ///
    /// [`overlapped-lists`]: ../../index.html#overlapped-lists
    filter: TagFilter<'de>,
}
//@end
//@extract de::map::ElementDeserializer | src/de/map.rs :: struct ElementDeserializer | serves=C07 features=serialize
////////////////////////////////////////////////////////////////////////////////////////////////////

/// A deserializer for a single tag item of a mixed sequence of tags and text.
///
/// This deserializer are very similar to a [`MapValueDeserializer`] (when it
/// processes the [`DeEvent::Start`] event). The only difference in the
/// [`deserialize_seq`] method. This deserializer will perform deserialization
/// from the textual content between start and end events, whereas the
/// [`MapValueDeserializer`] will iterate over tags / text within it's parent tag.
///
/// This deserializer processes items as following:
/// - numbers are parsed from a text content between tags using [`FromStr`]. So,
///   `<int>123</int>` can be deserialized into an `u32`;
/// - booleans converted from a text content between tags according to the XML
///   [specification]:
///   - `"true"` and `"1"` converted to `true`;
///   - `"false"` and `"0"` converted to `false`;
/// - strings returned as a text content between tags;
/// - characters also returned as strings. If string contain more than one character
///   or empty, it is responsibility of a type to return an error;
/// - `Option` are always deserialized as `Some` using the same deserializer,
///   including `<tag/>` or `<tag></tag>`;
/// - units (`()`) and unit structs consumes the whole element subtree;
/// - newtype structs forwards deserialization to the inner type using
///   [`SimpleTypeDeserializer`];
/// - sequences, tuples and tuple structs are deserialized using [`SimpleTypeDeserializer`]
///   (this is the difference): text content between tags is passed to
///   [`SimpleTypeDeserializer`];
/// - structs and maps are deserialized using new instance of [`ElementMapAccess`];
/// - enums:
///   - the variant name is deserialized using [`QNameDeserializer`] from the element name;
///   - the content is deserialized using the same deserializer:
///     - unit variants: consuming a subtree and return `()`;
///     - newtype variants forwards deserialization to the inner type using
///       this deserializer;
///     - tuple variants: call [`deserialize_tuple`] of this deserializer;
///     - struct variants: call [`deserialize_struct`] of this deserializer.
///
/// [`deserialize_seq`]: #method.deserialize_seq
/// [`FromStr`]: std::str::FromStr
/// [specification]: https://www.w3.org/TR/xmlschema11-2/#boolean
/// [`deserialize_tuple`]: #method.deserialize_tuple
/// [`deserialize_struct`]: #method.deserialize_struct
struct ElementDeserializer<'de, 'd, R, E>
where
    R: XmlRead<'de>,
    E: EntityResolver,
{
    start: BytesStart<'de>,
    de: &'d mut Deserializer<'de, R, E>,
}
//@end
//@extract de::text::TextDeserializer | src/de/text.rs :: struct TextDeserializer | serves=C07 features=serialize
 struct TextDeserializer<'de>(pub Text<'de>);
//@end

// ---- the type invariants ----
impl<'de, 'd, R, E> ElementMapAccess<'de, 'd, R, E>
where
    R: XmlRead<'de>,
    E: EntityResolver,
{
    /// "we set `Text` only when we have seen `Text`", ...: the source of the value that next_key_seed announced is what
    /// the deserializer has PEEKED (and therefore what its next() will return)
    pub closed spec fn inv(&self) -> bool {
        &&& self.de.inv() && self.start.name_len <= self.start.buf@.len()
        &&& self.source is Text ==> self.de.peeked_text()
        &&& self.source is Content ==> (self.de.peeked_text() || self.de.peeked_start())
        &&& self.source is Nested ==> self.de.peeked_start()
    }
}
impl<'de, 'd, 'm, R, E> MapValueDeserializer<'de, 'd, 'm, R, E>
where
    R: XmlRead<'de>,
    E: EntityResolver,
{
    /// "we use that deserializer only when we peeked `Start` or `Text`; with `fixed_name == true` only when we peeked `Start`"
    pub closed spec fn ok(&self) -> bool {
        &&& self.map.de.inv() && self.map.start.name_len <= self.map.start.buf@.len()
        &&& self.map.source is Unknown
        &&& self.map.de.peeked_text() || self.map.de.peeked_start()
        &&& self.fixed_name ==> self.map.de.peeked_start()
    }
}
impl<'de, 'd, 'm, R: XmlRead<'de>, E: EntityResolver> DeModel<'de> for MapValueDeserializer<'de, 'd, 'm, R, E> {
    closed spec fn de_ok(&self) -> bool { self.ok() }
}
impl<'de, 'd, 'm, R: XmlRead<'de>, E: EntityResolver> EnumModel<'de> for MapValueDeserializer<'de, 'd, 'm, R, E> {
    closed spec fn enum_ok(&self) -> bool { self.ok() }
}
/// assumed: `fields.contains(&VALUE_KEY)` (slice::contains on &str)
#[verifier::external_body]
pub fn has_value_key(fields: &'static [&'static str]) -> bool { unimplemented!() }
/// `#[derive(Clone)]` of BytesStart (assumed): the copy has the same bytes and the same name length
#[verifier::external_body]
pub fn clone_start<'a>(e: &BytesStart<'a>) -> (r: BytesStart<'a>)
    ensures r.buf@ == e.buf@, r.name_len == e.name_len
{ unimplemented!() }
impl<'de, 'd, 'm, R, E> MapValueVariantAccess<'de, 'd, 'm, R, E>
where
    R: XmlRead<'de>,
    E: EntityResolver,
{
    /// "the other events are filtered in `variant_seed()`": a Start or a Text was peeked, a Text if `is_text`
    pub closed spec fn ok(&self) -> bool {
        &&& self.map.de.inv() && self.map.start.name_len <= self.map.start.buf@.len()
        &&& self.map.source is Unknown
        &&& self.map.de.peeked_text() || self.map.de.peeked_start()
        &&& self.is_text == self.map.de.peeked_text()
    }
}
impl<'de, 'd, 'm, R, E> MapValueSeqAccess<'de, 'd, 'm, R, E>
where
    R: XmlRead<'de>,
    E: EntityResolver,
{
    pub closed spec fn ok(&self) -> bool {
        &&& self.map.de.inv() && self.map.source is Unknown
        &&& self.map.start.name_len <= self.map.start.buf@.len()
        &&& self.filter matches TagFilter::Include(n) ==> n.name_len <= n.buf@.len()
        &&& self.cp_ok()
    }
//@if overlapped-lists
    /// the checkpoint was taken between two skips and what was held then is still held: replaying from it is allowed.
    /// (Established where the accessor is built; kept by `skip`, which only appends; nested lists replay from later checkpoints.)
    pub closed spec fn cp_ok(&self) -> bool {
        &&& self.checkpoint <= self.map.de.write@.len()
        &&& self.checkpoint > 0 ==> !(self.map.de.write@[self.checkpoint - 1] is Text)
    }
//@extract de::map::MapValueSeqAccess::drop | src/de/map.rs :: impl<'de, 'd, 'm, R, E> Drop for MapValueSeqAccess<'de, 'd, 'm, R, E> where R: XmlRead<'de>, E: EntityResolver, :: fn drop | serves=C07,C20 features=serialize,overlapped-lists
    fn drop(&mut self)
        // the compiler calls this when the list accessor goes out of scope (also on error paths, after a skip that failed:
        // there the invariant is not claimed -- A-serde-err)
        requires old(self).ok()
        ensures final(self).map.de.inv(), final(self).map.de.limit == old(self).map.de.limit,
            // C20: the events skipped since the accessor was built are replayed first, in their order; older held events stay
            final(self).map.de.read@ == old(self).map.de.write@.subrange(old(self).checkpoint as int, old(self).map.de.write@.len() as int) + old(self).map.de.read@,
            final(self).map.de.write@ == old(self).map.de.write@.subrange(0, old(self).checkpoint as int),
    {
        self.map.de.start_replay(self.checkpoint);
    }
//@end
//@else
    pub closed spec fn cp_ok(&self) -> bool { true }
//@endif
}
impl<'de, 'd, 'm, R: XmlRead<'de>, E: EntityResolver> SeqModel<'de> for MapValueSeqAccess<'de, 'd, 'm, R, E> {
    closed spec fn seq_ok(&self) -> bool { self.ok() }
}
impl<'de, 'd, R: XmlRead<'de>, E: EntityResolver> MapModel<'de> for ElementMapAccess<'de, 'd, R, E> {
    closed spec fn map_ok(&self) -> bool { self.inv() && self.source is Unknown }
}
impl<'de> DeModel<'de> for TextDeserializer<'de> { open spec fn de_ok(&self) -> bool { true } }
impl<'de> EnumModel<'de> for TextDeserializer<'de> { open spec fn enum_ok(&self) -> bool { true } }
impl<'de, 'd, R: XmlRead<'de>, E: EntityResolver> EnumModel<'de> for ElementDeserializer<'de, 'd, R, E> {
    closed spec fn enum_ok(&self) -> bool { self.de.inv() && self.start.name_len <= self.start.buf@.len() }
}
impl<'de, 'd, R: XmlRead<'de>, E: EntityResolver> DeModel<'de> for ElementDeserializer<'de, 'd, R, E> {
    closed spec fn de_ok(&self) -> bool { self.de.inv() && self.start.name_len <= self.start.buf@.len() }
}
impl<'de, 'd, R, E> ElementMapAccess<'de, 'd, R, E>
where
    R: XmlRead<'de>,
    E: EntityResolver,
{
//@extract de::map::ElementMapAccess::new | src/de/map.rs :: impl<'de, 'd, R, E> ElementMapAccess<'de, 'd, R, E> where R: XmlRead<'de>, E: EntityResolver, :: fn new | serves=C07 features=serialize
//@rewrite fields.contains(&VALUE_KEY) ==> has_value_key(fields)
 fn new(
        de: &'d mut Deserializer<'de, R, E>,
        start: BytesStart<'de>,
        fields: &'static [&'static str],
    ) -> (r: Result<Self, DeError>)
        requires old(de).inv(), start.name_len <= start.buf@.len(),
        // a new map access has announced nothing yet
        ensures r matches Ok(m) ==> m.inv() && m.source is Unknown && m.start == start,
    {
        Ok(Self {
            de,
            iter: IterState::new(start.name().as_ref().len(), false),
            start,
            source: ValueSource::Unknown,
            fields,
            has_value_field: has_value_key(fields),
        })
    }
//@end
//@extract de::map::ElementMapAccess::next_key_seed | src/de/map.rs :: impl<'de, 'd, R, E> MapAccess<'de> for ElementMapAccess<'de, 'd, R, E> where R: XmlRead<'de>, E: EntityResolver, :: fn next_key_seed | serves=C07 features=serialize
//@rewrite Self::Error ==> DeError
//@rewrite assert!(self.source == ValueSource::Unknown); ==> 
//@rewrite assert!(self.start.name() == e.name()); ==> 
//@rewrite-all BorrowedStrDeserializer::<DeError>::new( ==> BorrowedStrDeserializer::new(
//@rewrite-all .map(Some) ==> .map(|v__: K::Value| Some(v__))
//@rewrite e.raw_name() ==> e.name().0
    fn next_key_seed<K: DeserializeSeed<'de>>(
        &mut self,
        seed: K,
    ) -> (r: Result<Option<K::Value>, DeError>)
        requires old(self).inv(),
        // C07: whatever source is announced for the value, it is what the deserializer has peeked (the invariant that
        // next_value_seed and the value deserializers rely on)
        ensures r is Ok ==> final(self).inv(), final(self).de.inv(),
            final(self).start == old(self).start,
    {
        let slice = &self.start.buf;
        let decoder = self.de.reader.decoder();

        if let Some(a) = self.iter.next(slice).transpose()? {
            // try getting map from attributes (key= "value")
            let (key, value) = a.into();
            self.source = ValueSource::Attribute(value.unwrap_or_default());

            let de =
                QNameDeserializer::from_attr(QName(&slice[key]), decoder, &mut self.de.key_buf)?;
            seed.deserialize(de).map(|v__: K::Value| Some(v__))
        } else {
            // try getting from events (<key>value</key>)
            match self.de.peek()? {
                // We shouldn't have both `$value` and `$text` fields in the same
                // struct, so if we have `$value` field, the we should deserialize
                // text content to `$value`
                DeEvent::Text(_) if self.has_value_field => {
                    self.source = ValueSource::Content;
                    // Deserialize `key` from special attribute name which means
                    // that value should be taken from the text content of the
                    // XML node
                    let de = BorrowedStrDeserializer::new(VALUE_KEY);
                    seed.deserialize(de).map(|v__: K::Value| Some(v__))
                }
                DeEvent::Text(_) => {
                    self.source = ValueSource::Text;
                    // Deserialize `key` from special attribute name which means
                    // that value should be taken from the text content of the
                    // XML node
                    let de = BorrowedStrDeserializer::new(TEXT_KEY);
                    seed.deserialize(de).map(|v__: K::Value| Some(v__))
                }
                // Used to deserialize collections of enums, like:
                // <root>
                //   <A/>
                //   <B/>
                //   <C/>
                // </root>
                //
                // into
                //
                // enum Enum { A, B, С }
                // struct Root {
                //     #[serde(rename = "$value")]
                //     items: Vec<Enum>,
                // }
                // TODO: This should be handled by #[serde(flatten)]
                // See https://github.com/serde-rs/serde/issues/1905
                DeEvent::Start(e) if self.has_value_field && not_in(self.fields, e, decoder)? => {
                    self.source = ValueSource::Content;

                    let de = BorrowedStrDeserializer::new(VALUE_KEY);
                    seed.deserialize(de).map(|v__: K::Value| Some(v__))
                }
                DeEvent::Start(e) => {
                    self.source = ValueSource::Nested;

                    let de = QNameDeserializer::from_elem(e.name().0, decoder)?;
                    seed.deserialize(de).map(|v__: K::Value| Some(v__))
                }
                // Stop iteration after reaching a closing tag
                // The matching tag name is guaranteed by the reader if our
                // deserializer implementation is correct
                DeEvent::End(e) => {
                    self.de.next()?;
                    Ok(None)
                }
                // We cannot get `Eof` legally, because we always inside of the
                // opened tag `self.start`
                DeEvent::Eof => Err(Error::missed_end(self.start.name(), decoder).into()),
            }
        }
    }
//@end
//@extract de::map::ElementMapAccess::next_value_seed | src/de/map.rs :: impl<'de, 'd, R, E> MapAccess<'de> for ElementMapAccess<'de, 'd, R, E> where R: XmlRead<'de>, E: EntityResolver, :: fn next_value_seed | serves=C07 features=serialize
//@rewrite Self::Error ==> DeError
    fn next_value_seed<K: DeserializeSeed<'de>>(
        &mut self,
        seed: K,
    ) -> (r: Result<K::Value, DeError>)
        // C07: the announced source is what was peeked: the `unreachable!()` below is unreachable, and the value deserializer
        // handed to the seed satisfies ITS invariant
        requires old(self).inv()
    {
        match std::mem::replace(&mut self.source, ValueSource::Unknown) {
            ValueSource::Attribute(value) => seed.deserialize(SimpleTypeDeserializer::from_part(
                &self.start.buf,
                value,
                true,
                self.de.reader.decoder(),
            )),
            // This arm processes the following XML shape:
            // <any-tag>
            //   text value
            // </any-tag>
            // The whole map represented by an `<any-tag>` element, the map key
            // is implicit and equals to the `TEXT_KEY` constant, and the value
            // is a `Text` event (the value deserializer will see that event)
            // This case are checked by "xml_schema_lists::element" tests in tests/serde-de.rs
            ValueSource::Text => match self.de.next()? {
                DeEvent::Text(e) => seed.deserialize(SimpleTypeDeserializer::from_text_content(e)),
                // SAFETY: We set `Text` only when we seen `Text`
                _ => unreachable!(),
            },
            // This arm processes the following XML shape:
            // <any-tag>
            //   <any>...</any>
            // </any-tag>
            // The whole map represented by an `<any-tag>` element, the map key
            // is implicit and equals to the `VALUE_KEY` constant, and the value
            // is a `Start` event (the value deserializer will see that event)
            ValueSource::Content => seed.deserialize(MapValueDeserializer {
                map: self,
                fixed_name: false,
            }),
            // This arm processes the following XML shape:
            // <any-tag>
            //   <tag>...</tag>
            // </any-tag>
            // The whole map represented by an `<any-tag>` element, the map key
            // is a `tag`, and the value is a `Start` event (the value deserializer
            // will see that event)
            ValueSource::Nested => seed.deserialize(MapValueDeserializer {
                map: self,
                fixed_name: true,
            }),
            ValueSource::Unknown => Err(DeError::KeyNotRead),
        }
    }
//@end
}

impl<'de, 'd, 'm, R, E> MapValueDeserializer<'de, 'd, 'm, R, E>
where
    R: XmlRead<'de>,
    E: EntityResolver,
{
//@extract de::map::MapValueDeserializer::read_string | src/de/map.rs :: impl<'de, 'd, 'm, R, E> MapValueDeserializer<'de, 'd, 'm, R, E> where R: XmlRead<'de>, E: EntityResolver, :: fn read_string | serves=C07 features=serialize
    fn read_string(&mut self) -> (r: Result<Cow<'de, str>, DeError>)
        requires old(self).ok()
    {
        // TODO: Read the whole content to fix https://github.com/tafia/quick-xml/issues/483
        self.map.de.read_string_impl(self.fixed_name)
    }
//@end
//@extract de::map::MapValueDeserializer::deserialize_seq | src/de/map.rs :: impl<'de, 'd, 'm, R, E> de::Deserializer<'de> for MapValueDeserializer<'de, 'd, 'm, R, E> where R: XmlRead<'de>, E: EntityResolver, :: fn deserialize_seq | serves=C07 features=serialize
//@rewrite TagFilter::Include(e.clone()) ==> TagFilter::Include(clone_start(e))
//@rewrite-opt Self::Error ==> DeError
    /// Deserializes each `<tag>` in
    /// ```xml
    /// <any-tag>
    ///   <tag>...</tag>
    ///   <tag>...</tag>
    ///   <tag>...</tag>
    /// </any-tag>
    /// ```
    /// as a sequence item, where `<any-tag>` represents a Map in a [`Self::map`],
    /// and a `<tag>` is a sequential field of that map.
    fn deserialize_seq<V>(self, visitor: V) -> (r: Result<V::Value, DeError>)
    where
        V: Visitor<'de>,
        requires self.ok(),
    {
        let filter = if self.fixed_name {
            match self.map.de.peek()? {
                // Clone is cheap if event borrows from the input
                DeEvent::Start(e) => TagFilter::Include(clone_start(e)),
                // SAFETY: we use that deserializer with `fixed_name == true`
                // only from the `ElementMapAccess::next_value_seed` and only when we
                // peeked `Start` event
                _ => unreachable!(),
            }
        } else {
            TagFilter::Exclude(self.map.fields)
        };
        visitor.visit_seq(MapValueSeqAccess {

            map: self.map,
            filter,
        })
    }
//@end
//@extract de::map::MapValueDeserializer::deserialize_enum | src/de/map.rs :: impl<'de, 'd, 'm, R, E> de::Deserializer<'de> for MapValueDeserializer<'de, 'd, 'm, R, E> where R: XmlRead<'de>, E: EntityResolver, :: fn deserialize_enum | serves=C07 features=serialize
//@rewrite-opt Self::Error ==> DeError
    fn deserialize_enum<V>(
        self,
        _name: &'static str,
        _variants: &'static [&'static str],
        visitor: V,
    ) -> (r: Result<V::Value, DeError>)
    where
        V: Visitor<'de>,
        requires self.ok(),
    {
        if self.fixed_name {
            match self.map.de.next()? {
                // Handles <field>UnitEnumVariant</field>
                DeEvent::Start(e) => {
                    // skip <field>, read text after it and ensure that it is ended by </field>
                    let text = self.map.de.read_text(e.name())?;
                    if text.is_empty() {
                        // Map empty text (<field/>) to a special `$text` variant
                        visitor.visit_enum(SimpleTypeDeserializer::from_text(TEXT_KEY.into()))
                    } else {
                        visitor.visit_enum(SimpleTypeDeserializer::from_text(text))
                    }
                }
                // SAFETY: we use that deserializer with `fixed_name == true`
                // only from the `MapAccess::next_value_seed` and only when we
                // peeked `Start` event
                _ => unreachable!(),
            }
        } else {
            visitor.visit_enum(self)
        }
    }
//@end
//@extract de::map::MapValueDeserializer::variant_seed | src/de/map.rs :: impl<'de, 'd, 'm, R, E> de::EnumAccess<'de> for MapValueDeserializer<'de, 'd, 'm, R, E> where R: XmlRead<'de>, E: EntityResolver, :: fn variant_seed | serves=C07 features=serialize
//@rewrite Self::Variant ==> MapValueVariantAccess<'de, 'd, 'm, R, E>
//@rewrite-all BorrowedStrDeserializer::<DeError>::new( ==> BorrowedStrDeserializer::new(
//@rewrite e.raw_name() ==> e.name().0
//@rewrite-opt Self::Error ==> DeError
    fn variant_seed<V>(self, seed: V) -> (r: Result<(V::Value, MapValueVariantAccess<'de, 'd, 'm, R, E>), DeError>)
    where
        V: DeserializeSeed<'de>,
        requires self.ok(),
        // "the other events are filtered in `variant_seed()`": the variant access knows what was peeked
        ensures r matches Ok(p) ==> p.1.ok(),
    {
        let decoder = self.map.de.reader.decoder();
        let (name, is_text) = match self.map.de.peek()? {
            DeEvent::Start(e) => (
                seed.deserialize(QNameDeserializer::from_elem(e.name().0, decoder)?)?,
                false,
            ),
            DeEvent::Text(_) => (
                seed.deserialize(BorrowedStrDeserializer::new(TEXT_KEY))?,
                true,
            ),
            // SAFETY: we use that deserializer only when we peeked `Start` or `Text` event
            _ => unreachable!(),
        };
        Ok((
            name,
            MapValueVariantAccess {
                map: self.map,
                is_text,
            },
        ))
    }
//@end
}
impl<'de, 'd, 'm, R, E> MapValueVariantAccess<'de, 'd, 'm, R, E>
where
    R: XmlRead<'de>,
    E: EntityResolver,
{
//@extract de::map::MapValueVariantAccess::unit_variant | src/de/map.rs :: impl<'de, 'd, 'm, R, E> de::VariantAccess<'de> for MapValueVariantAccess<'de, 'd, 'm, R, E> where R: XmlRead<'de>, E: EntityResolver, :: fn unit_variant | serves=C07 features=serialize
//@rewrite-opt Self::Error ==> DeError
    fn unit_variant(self) -> (r: Result<(), DeError>)
        requires self.ok(),
    {
        match self.map.de.next()? {
            // Consume subtree
            DeEvent::Start(e) => self.map.de.read_to_end(e.name()),
            // Does not needed to deserialize using SimpleTypeDeserializer, because
            // it returns `()` when `deserialize_unit()` is requested
            DeEvent::Text(_) => Ok(()),
            // SAFETY: the other events are filtered in `variant_seed()`
            _ => unreachable!(),
        }
    }
//@end
//@extract de::map::MapValueVariantAccess::newtype_variant_seed | src/de/map.rs :: impl<'de, 'd, 'm, R, E> de::VariantAccess<'de> for MapValueVariantAccess<'de, 'd, 'm, R, E> where R: XmlRead<'de>, E: EntityResolver, :: fn newtype_variant_seed | serves=C07 features=serialize
//@rewrite-opt Self::Error ==> DeError
    fn newtype_variant_seed<T>(self, seed: T) -> (r: Result<T::Value, DeError>)
    where
        T: DeserializeSeed<'de>,
        requires self.ok(),
    {
        if self.is_text {
            match self.map.de.next()? {
                DeEvent::Text(e) => seed.deserialize(SimpleTypeDeserializer::from_text_content(e)),
                // SAFETY: the other events are filtered in `variant_seed()`
                _ => unreachable!(),
            }
        } else {
            seed.deserialize(MapValueDeserializer {
                map: self.map,
                // Because element name already was either mapped to a field name,
                // or to a variant name, we should not treat it as variable
                fixed_name: true,
            })
        }
    }
//@end
//@extract de::map::MapValueVariantAccess::tuple_variant | src/de/map.rs :: impl<'de, 'd, 'm, R, E> de::VariantAccess<'de> for MapValueVariantAccess<'de, 'd, 'm, R, E> where R: XmlRead<'de>, E: EntityResolver, :: fn tuple_variant | serves=C07 features=serialize
//@rewrite-opt Self::Error ==> DeError
    fn tuple_variant<V>(self, len: usize, visitor: V) -> (r: Result<V::Value, DeError>)
    where
        V: Visitor<'de>,
        requires self.ok(),
    {
        if self.is_text {
            match self.map.de.next()? {
                DeEvent::Text(e) => {
                    SimpleTypeDeserializer::from_text_content(e).deserialize_tuple(len, visitor)
                }
                // SAFETY: the other events are filtered in `variant_seed()`
                _ => unreachable!(),
            }
        } else {
            MapValueDeserializer {
                map: self.map,
                // Because element name already was either mapped to a field name,
                // or to a variant name, we should not treat it as variable
                fixed_name: true,
            }
            .deserialize_tuple(len, visitor)
        }
    }
//@end
//@extract de::map::MapValueVariantAccess::struct_variant | src/de/map.rs :: impl<'de, 'd, 'm, R, E> de::VariantAccess<'de> for MapValueVariantAccess<'de, 'd, 'm, R, E> where R: XmlRead<'de>, E: EntityResolver, :: fn struct_variant | serves=C07 features=serialize
//@rewrite-opt Self::Error ==> DeError
    fn struct_variant<V>(
        self,
        fields: &'static [&'static str],
        visitor: V,
    ) -> (r: Result<V::Value, DeError>)
    where
        V: Visitor<'de>,
        requires self.ok(),
    {
        match self.map.de.next()? {
            DeEvent::Start(e) => visitor.visit_map(ElementMapAccess::new(self.map.de, e, fields)?),
            DeEvent::Text(e) => {
                SimpleTypeDeserializer::from_text_content(e).deserialize_struct("", fields, visitor)
            }
            // SAFETY: the other events are filtered in `variant_seed()`
            _ => unreachable!(),
        }
    }
//@end
}
impl<'de> TagFilter<'de> {
//@extract de::map::TagFilter::is_suitable | src/de/map.rs :: impl<'de> TagFilter<'de> :: fn is_suitable | serves=C07 features=serialize
    fn is_suitable(&self, start: &BytesStart, decoder: Decoder) -> (r: Result<bool, DeError>)
        requires start.name_len <= start.buf@.len(), *self matches TagFilter::Include(n) ==> n.name_len <= n.buf@.len(),
    {
        match self {
            Self::Include(n) => Ok(n.name() == start.name()),
            Self::Exclude(fields) => not_in(fields, start, decoder),
        }
    }
//@end
}
impl<'de, 'd, 'm, R, E> MapValueSeqAccess<'de, 'd, 'm, R, E>
where
    R: XmlRead<'de>,
    E: EntityResolver,
{
//@extract de::map::MapValueSeqAccess::next_element_seed | src/de/map.rs :: impl<'de, 'd, 'm, R, E> SeqAccess<'de> for MapValueSeqAccess<'de, 'd, 'm, R, E> where R: XmlRead<'de>, E: EntityResolver, :: fn next_element_seed | serves=C07 features=serialize
//@rewrite-all .map(Some) ==> .map(|v__: T::Value| Some(v__))
//@rewrite assert!(self.map.start.name() == e.name()); ==> 
//@rewrite-opt Self::Error ==> DeError
    #[verifier::exec_allows_no_decreases_clause]
    #[verifier::loop_isolation(false)]
    fn next_element_seed<T>(&mut self, seed: T) -> (r: Result<Option<T::Value>, DeError>)
    where
        T: DeserializeSeed<'de>,
        requires old(self).ok(),
    {
        let decoder = self.map.de.reader.decoder();
        let __lv1; loop
            invariant self.ok()
        {
            { __lv1 = match self.map.de.peek()? {
                // Stop iteration when list elements ends
                DeEvent::Start(e) if !self.filter.is_suitable(e, decoder)? => Ok(None),

                // Stop iteration after reaching a closing tag
                // The matching tag name is guaranteed by the reader
                DeEvent::End(e) => {
                    Ok(None)
                }
                // We cannot get `Eof` legally, because we always inside of the
                // opened tag `self.map.start`
                DeEvent::Eof => Err(Error::missed_end(self.map.start.name(), decoder).into()),

                DeEvent::Text(_) => match self.map.de.next()? {
                    DeEvent::Text(e) => seed.deserialize(TextDeserializer(e)).map(|v__: T::Value| Some(v__)),
                    // SAFETY: we just checked that the next event is Text
                    _ => unreachable!(),
                },
                DeEvent::Start(_) => match self.map.de.next()? {
                    DeEvent::Start(start) => seed
                        .deserialize(ElementDeserializer {
                            start,
                            de: self.map.de,
                        })
                        .map(|v__: T::Value| Some(v__)),
                    // SAFETY: we just checked that the next event is Start
                    _ => unreachable!(),
                },
            }; break; };
        } __lv1
    }
//@end
}

// ---- "the reader guarantees that we do not have unmatched tags": the End arms of the top-level entry points ----
/// deserialize_struct / deserialize_unit of `&mut Deserializer` contain `DeEvent::End(e) => unreachable!`. In general that is a
/// protocol between the crate and foreign visitors; for the callers under contract here -- the value deserializer of a map,
/// which has PEEKED a Start or a Text -- it is a fact: `val_ok`
pub trait DeDeserializerVal<'de>: Sized {
    spec fn val_ok(&self) -> bool;
    fn deserialize_struct<V: Visitor<'de>>(self, name: &'static str, fields: &'static [&'static str], visitor: V) -> (r: Result<V::Value, DeError>)
        requires self.val_ok();
    fn deserialize_unit<V: Visitor<'de>>(self, visitor: V) -> (r: Result<V::Value, DeError>)
        requires self.val_ok();
}
impl<'de, 'a, R, E> DeDeserializerVal<'de> for &'a mut Deserializer<'de, R, E>
where
    R: XmlRead<'de>,
    E: EntityResolver,
{
    closed spec fn val_ok(&self) -> bool { (**self).inv() && ((**self).peeked_text() || (**self).peeked_start()) }
//@extract de::Deserializer::deserialize_struct | src/de/mod.rs :: impl<'de, 'a, R, E> de::Deserializer<'de> for &'a mut Deserializer<'de, R, E> where R: XmlRead<'de>, E: EntityResolver, :: fn deserialize_struct | serves=C07 features=serialize
    fn deserialize_struct<V>(
        self,
        _name: &'static str,
        fields: &'static [&'static str],
        visitor: V,
    ) -> Result<V::Value, DeError>
    where
        V: Visitor<'de>,
    {
        match self.next()? {
            DeEvent::Start(e) => visitor.visit_map(ElementMapAccess::new(self, e, fields)?),
            // SAFETY: The reader is guaranteed that we don't have unmatched tags
            // If we here, then out deserializer has a bug
            DeEvent::End(e) => unreachable!(),
            // Deserializer methods are only hints, if deserializer could not satisfy
            // request, it should return the data that it has. It is responsibility
            // of a Visitor to return an error if it does not understand the data
            DeEvent::Text(e) => match e.text {
                Cow::Borrowed(s) => visitor.visit_borrowed_str(s),
                Cow::Owned(s) => visitor.visit_string(s),
            },
            DeEvent::Eof => Err(DeError::UnexpectedEof),
        }
    }
//@end
//@extract de::Deserializer::deserialize_unit | src/de/mod.rs :: impl<'de, 'a, R, E> de::Deserializer<'de> for &'a mut Deserializer<'de, R, E> where R: XmlRead<'de>, E: EntityResolver, :: fn deserialize_unit | serves=C07 features=serialize
    /// Unit represented in XML as a `xs:element` or text/CDATA content.
    /// Any content inside `xs:element` is ignored and skipped.
    ///
    /// Produces unit struct from any of following inputs:
    /// - any `<tag ...>...</tag>`
    /// - any `<tag .../>`
    /// - any consequent text / CDATA content (can consist of several parts
    ///   delimited by comments and processing instructions)
    ///
    /// # Events handling
    ///
    /// |Event             |XML                        |Handling
    /// |------------------|---------------------------|-------------------------------------------
    /// |[`DeEvent::Start`]|`<tag>...</tag>`           |Calls `visitor.visit_unit()`, consumes all events up to and including corresponding `End` event
    /// |[`DeEvent::End`]  |`</tag>`                   |This is impossible situation, the method will panic if it happens
    /// |[`DeEvent::Text`] |`text content` or `<![CDATA[cdata content]]>` (probably mixed)|Calls `visitor.visit_unit()`. The content is ignored
    /// |[`DeEvent::Eof`]  |                           |Emits [`UnexpectedEof`](DeError::UnexpectedEof)
    fn deserialize_unit<V>(self, visitor: V) -> Result<V::Value, DeError>
    where
        V: Visitor<'de>,
    {
        match self.next()? {
            DeEvent::Start(s) => {
                self.read_to_end(s.name())?;
                visitor.visit_unit()
            }
            DeEvent::Text(_) => visitor.visit_unit(),
            // SAFETY: The reader is guaranteed that we don't have unmatched tags
            // If we here, then out deserializer has a bug
            DeEvent::End(e) => unreachable!(),
            DeEvent::Eof => Err(DeError::UnexpectedEof),
        }
    }
//@end
}
impl<'de, 'd, 'm, R, E> MapValueDeserializer<'de, 'd, 'm, R, E>
where
    R: XmlRead<'de>,
    E: EntityResolver,
{
//@extract de::map::MapValueDeserializer::deserialize_struct | src/de/map.rs :: impl<'de, 'd, 'm, R, E> de::Deserializer<'de> for MapValueDeserializer<'de, 'd, 'm, R, E> where R: XmlRead<'de>, E: EntityResolver, :: fn deserialize_struct | serves=C07 features=serialize
//@rewrite-opt Self::Error ==> DeError
    fn deserialize_struct<V>(
        self,
        name: &'static str,
        fields: &'static [&'static str],
        visitor: V,
    ) -> (r: Result<V::Value, DeError>)
    where
        V: Visitor<'de>,
        requires self.ok(),
    {
        self.map.de.deserialize_struct(name, fields, visitor)
    }
//@end
//@extract de::map::MapValueDeserializer::deserialize_unit | src/de/map.rs :: impl<'de, 'd, 'm, R, E> de::Deserializer<'de> for MapValueDeserializer<'de, 'd, 'm, R, E> where R: XmlRead<'de>, E: EntityResolver, :: fn deserialize_unit | serves=C07 features=serialize
//@rewrite-opt Self::Error ==> DeError
    fn deserialize_unit<V>(self, visitor: V) -> (r: Result<V::Value, DeError>)
    where
        V: Visitor<'de>,
        requires self.ok(),
    {
        self.map.de.deserialize_unit(visitor)
    }
//@end
}
// ---- enums at the top level (src/de/var.rs): the same invariants ----
//@extract de::var::EnumAccess | src/de/var.rs :: struct EnumAccess | serves=C07 features=serialize
 struct EnumAccess<'de, 'd, R, E>
where
    R: XmlRead<'de>,
    E: EntityResolver,
{
    de: &'d mut Deserializer<'de, R, E>,
}
//@end
//@extract de::var::VariantAccess | src/de/var.rs :: struct VariantAccess | serves=C07 features=serialize
 struct VariantAccess<'de, 'd, R, E>
where
    R: XmlRead<'de>,
    E: EntityResolver,
{
    de: &'d mut Deserializer<'de, R, E>,
    /// `true` if variant should be deserialized from a textual content
    /// and `false` if from tag
    is_text: bool,
}
//@end
impl<'de, 'd, R: XmlRead<'de>, E: EntityResolver> DeModel<'de> for &'d mut Deserializer<'de, R, E> {
    closed spec fn de_ok(&self) -> bool { (**self).inv() }
}
// ---- C07: the forwarding network of the top-level deserializer (src/de/mod.rs, `&mut Deserializer`) ----
impl<'de, R, E> Deserializer<'de, R, E>
where
    R: XmlRead<'de>,
    E: EntityResolver,
{
//@extract de::Deserializer::read_string | src/de/mod.rs :: impl<'de, R, E> Deserializer<'de, R, E> where R: XmlRead<'de>, E: EntityResolver, :: fn read_string | serves=C07 features=serialize
//@rewrite-opt Self::Error ==> DeError
    fn read_string(&mut self) -> Result<Cow<'de, str>, DeError>
        requires old(self).inv(), old(self).peeked_text() || old(self).peeked_start(),
    {
        self.read_string_impl(true)
    }
//@end
}
impl<'de, 'd, R: XmlRead<'de>, E: EntityResolver> SeqModel<'de> for &'d mut Deserializer<'de, R, E> {
    closed spec fn seq_ok(&self) -> bool { (**self).inv() }
}
impl<'de, 'd, R: XmlRead<'de>, E: EntityResolver> EnumModel<'de> for EnumAccess<'de, 'd, R, E> {
    closed spec fn enum_ok(&self) -> bool { self.de.inv() && (self.de.peeked_text() || self.de.peeked_start()) }
}
/// the remaining methods of `impl de::Deserializer for &mut Deserializer`: the same precondition as deserialize_struct /
/// deserialize_unit (`val_ok`: a Start or a Text has been peeked), because they end there
pub trait DeDeserializerFwd<'de>: DeDeserializerVal<'de> {
    fn deserialize_newtype_struct<V: Visitor<'de>>(self, name: &'static str, visitor: V) -> (r: Result<V::Value, DeError>)
        requires self.val_ok();
    fn deserialize_enum<V: Visitor<'de>>(self, name: &'static str, variants: &'static [&'static str], visitor: V) -> (r: Result<V::Value, DeError>)
        requires self.val_ok();
    fn deserialize_seq<V: Visitor<'de>>(self, visitor: V) -> (r: Result<V::Value, DeError>)
        requires self.val_ok();
    fn deserialize_any<V: Visitor<'de>>(self, visitor: V) -> (r: Result<V::Value, DeError>)
        requires self.val_ok();
    fn deserialize_bool<V: Visitor<'de>>(self, visitor: V) -> (r: Result<V::Value, DeError>)
        requires self.val_ok();
    fn deserialize_i8<V: Visitor<'de>>(self, visitor: V) -> (r: Result<V::Value, DeError>)
        requires self.val_ok();
    fn deserialize_i16<V: Visitor<'de>>(self, visitor: V) -> (r: Result<V::Value, DeError>)
        requires self.val_ok();
    fn deserialize_i32<V: Visitor<'de>>(self, visitor: V) -> (r: Result<V::Value, DeError>)
        requires self.val_ok();
    fn deserialize_i64<V: Visitor<'de>>(self, visitor: V) -> (r: Result<V::Value, DeError>)
        requires self.val_ok();
    fn deserialize_u8<V: Visitor<'de>>(self, visitor: V) -> (r: Result<V::Value, DeError>)
        requires self.val_ok();
    fn deserialize_u16<V: Visitor<'de>>(self, visitor: V) -> (r: Result<V::Value, DeError>)
        requires self.val_ok();
    fn deserialize_u32<V: Visitor<'de>>(self, visitor: V) -> (r: Result<V::Value, DeError>)
        requires self.val_ok();
    fn deserialize_u64<V: Visitor<'de>>(self, visitor: V) -> (r: Result<V::Value, DeError>)
        requires self.val_ok();
    fn deserialize_f32<V: Visitor<'de>>(self, visitor: V) -> (r: Result<V::Value, DeError>)
        requires self.val_ok();
    fn deserialize_f64<V: Visitor<'de>>(self, visitor: V) -> (r: Result<V::Value, DeError>)
        requires self.val_ok();
    fn deserialize_char<V: Visitor<'de>>(self, visitor: V) -> (r: Result<V::Value, DeError>)
        requires self.val_ok();
    fn deserialize_str<V: Visitor<'de>>(self, visitor: V) -> (r: Result<V::Value, DeError>)
        requires self.val_ok();
    fn deserialize_string<V: Visitor<'de>>(self, visitor: V) -> (r: Result<V::Value, DeError>)
        requires self.val_ok();
    fn deserialize_bytes<V: Visitor<'de>>(self, visitor: V) -> (r: Result<V::Value, DeError>)
        requires self.val_ok();
    fn deserialize_byte_buf<V: Visitor<'de>>(self, visitor: V) -> (r: Result<V::Value, DeError>)
        requires self.val_ok();
    fn deserialize_unit_struct<V: Visitor<'de>>(self, name: &'static str, visitor: V) -> (r: Result<V::Value, DeError>)
        requires self.val_ok();
    fn deserialize_tuple<V: Visitor<'de>>(self, len: usize, visitor: V) -> (r: Result<V::Value, DeError>)
        requires self.val_ok();
    fn deserialize_tuple_struct<V: Visitor<'de>>(self, name: &'static str, len: usize, visitor: V) -> (r: Result<V::Value, DeError>)
        requires self.val_ok();
    fn deserialize_map<V: Visitor<'de>>(self, visitor: V) -> (r: Result<V::Value, DeError>)
        requires self.val_ok();
    fn deserialize_identifier<V: Visitor<'de>>(self, visitor: V) -> (r: Result<V::Value, DeError>)
        requires self.val_ok();
    fn deserialize_ignored_any<V: Visitor<'de>>(self, visitor: V) -> (r: Result<V::Value, DeError>)
        requires self.val_ok();
}
impl<'de, 'a, R, E> DeDeserializerFwd<'de> for &'a mut Deserializer<'de, R, E>
where
    R: XmlRead<'de>,
    E: EntityResolver,
{
//@extract de::Deserializer::deserialize_newtype_struct | src/de/mod.rs :: impl<'de, 'a, R, E> de::Deserializer<'de> for &'a mut Deserializer<'de, R, E> where R: XmlRead<'de>, E: EntityResolver, :: fn deserialize_newtype_struct | serves=C07 features=serialize
//@rewrite-opt Self::Error ==> DeError
    /// Forwards deserialization of the inner type. Always calls [`Visitor::visit_newtype_struct`]
    /// with the same deserializer.
    fn deserialize_newtype_struct<V>(
        self,
        _name: &'static str,
        visitor: V,
    ) -> Result<V::Value, DeError>
    where
        V: Visitor<'de>,
    {
        visitor.visit_newtype_struct(self)
    }
//@end
//@extract de::Deserializer::deserialize_enum | src/de/mod.rs :: impl<'de, 'a, R, E> de::Deserializer<'de> for &'a mut Deserializer<'de, R, E> where R: XmlRead<'de>, E: EntityResolver, :: fn deserialize_enum | serves=C07 features=serialize
//@rewrite-opt Self::Error ==> DeError
//@rewrite var::EnumAccess::new( ==> EnumAccess::new(
    fn deserialize_enum<V>(
        self,
        _name: &'static str,
        _variants: &'static [&'static str],
        visitor: V,
    ) -> Result<V::Value, DeError>
    where
        V: Visitor<'de>,
    {
        visitor.visit_enum(EnumAccess::new(self))
    }
//@end
//@extract de::Deserializer::deserialize_seq | src/de/mod.rs :: impl<'de, 'a, R, E> de::Deserializer<'de> for &'a mut Deserializer<'de, R, E> where R: XmlRead<'de>, E: EntityResolver, :: fn deserialize_seq | serves=C07 features=serialize
//@rewrite-opt Self::Error ==> DeError
    fn deserialize_seq<V>(self, visitor: V) -> Result<V::Value, DeError>
    where
        V: Visitor<'de>,
    {
        visitor.visit_seq(self)
    }
//@end
//@extract de::Deserializer::deserialize_any | src/de/mod.rs :: impl<'de, 'a, R, E> de::Deserializer<'de> for &'a mut Deserializer<'de, R, E> where R: XmlRead<'de>, E: EntityResolver, :: fn deserialize_any | serves=C07 features=serialize
//@rewrite-opt Self::Error ==> DeError
    fn deserialize_any<V>(self, visitor: V) -> Result<V::Value, DeError>
    where
        V: Visitor<'de>,
    {
        match self.peek()? {
            DeEvent::Text(_) => self.deserialize_str(visitor),
            _ => self.deserialize_map(visitor),
        }
    }
//@end
//@extract de::Deserializer::deserialize_bool | src/de/mod.rs :: impl<'de, 'a, R, E> de::Deserializer<'de> for &'a mut Deserializer<'de, R, E> where R: XmlRead<'de>, E: EntityResolver, :: invoke deserialize_primitives :: fn deserialize_bool | serves=C07 features=serialize
//@rewrite-opt Self::Error ==> DeError
        fn deserialize_bool<V>( self, visitor: V) -> Result<V::Value, DeError>
        where
            V: Visitor<'de>,
        {
            let text = match self.read_string()? {
                Cow::Borrowed(s) => CowRef::Input(s),
                Cow::Owned(s) => CowRef::Owned(s),
            };
            text.deserialize_bool(visitor)
        }
//@end
//@extract de::Deserializer::deserialize_i8 | src/de/mod.rs :: impl<'de, 'a, R, E> de::Deserializer<'de> for &'a mut Deserializer<'de, R, E> where R: XmlRead<'de>, E: EntityResolver, :: invoke deserialize_primitives :: invoke deserialize_num :: fn deserialize_i8 | serves=C07,C14 features=serialize
//@rewrite visitor.visit_str( ==> visit_str_is(Ghost(tv), visitor, 
//@rewrite visitor.visit_string( ==> visit_string_is(Ghost(tv), visitor, 
//@rewrite-opt Self::Error ==> DeError
//@rewrite text.parse() ==> parse_(&text)
        fn deserialize_i8<V>( self, visitor: V) -> Result<V::Value, DeError>
        where
            V: Visitor<'de>,
        {
            // No need to unescape because valid integer representations cannot be escaped
            let text = self.read_string()?;
            let ghost tv = cow_chars(text);
            match parse_(&text) {
                Ok(number) => visitor.visit_i8(number),
                Err(_) => match text {
                    Cow::Borrowed(t) => visit_str_is(Ghost(tv), visitor, t),
                    Cow::Owned(t) => visit_string_is(Ghost(tv), visitor, t),
                }
            }
        }
//@end
//@extract de::Deserializer::deserialize_i16 | src/de/mod.rs :: impl<'de, 'a, R, E> de::Deserializer<'de> for &'a mut Deserializer<'de, R, E> where R: XmlRead<'de>, E: EntityResolver, :: invoke deserialize_primitives :: invoke deserialize_num :: fn deserialize_i16 | serves=C07,C14 features=serialize
//@rewrite visitor.visit_str( ==> visit_str_is(Ghost(tv), visitor, 
//@rewrite visitor.visit_string( ==> visit_string_is(Ghost(tv), visitor, 
//@rewrite-opt Self::Error ==> DeError
//@rewrite text.parse() ==> parse_(&text)
        fn deserialize_i16<V>( self, visitor: V) -> Result<V::Value, DeError>
        where
            V: Visitor<'de>,
        {
            // No need to unescape because valid integer representations cannot be escaped
            let text = self.read_string()?;
            let ghost tv = cow_chars(text);
            match parse_(&text) {
                Ok(number) => visitor.visit_i16(number),
                Err(_) => match text {
                    Cow::Borrowed(t) => visit_str_is(Ghost(tv), visitor, t),
                    Cow::Owned(t) => visit_string_is(Ghost(tv), visitor, t),
                }
            }
        }
//@end
//@extract de::Deserializer::deserialize_i32 | src/de/mod.rs :: impl<'de, 'a, R, E> de::Deserializer<'de> for &'a mut Deserializer<'de, R, E> where R: XmlRead<'de>, E: EntityResolver, :: invoke deserialize_primitives :: invoke deserialize_num :: fn deserialize_i32 | serves=C07,C14 features=serialize
//@rewrite visitor.visit_str( ==> visit_str_is(Ghost(tv), visitor, 
//@rewrite visitor.visit_string( ==> visit_string_is(Ghost(tv), visitor, 
//@rewrite-opt Self::Error ==> DeError
//@rewrite text.parse() ==> parse_(&text)
        fn deserialize_i32<V>( self, visitor: V) -> Result<V::Value, DeError>
        where
            V: Visitor<'de>,
        {
            // No need to unescape because valid integer representations cannot be escaped
            let text = self.read_string()?;
            let ghost tv = cow_chars(text);
            match parse_(&text) {
                Ok(number) => visitor.visit_i32(number),
                Err(_) => match text {
                    Cow::Borrowed(t) => visit_str_is(Ghost(tv), visitor, t),
                    Cow::Owned(t) => visit_string_is(Ghost(tv), visitor, t),
                }
            }
        }
//@end
//@extract de::Deserializer::deserialize_i64 | src/de/mod.rs :: impl<'de, 'a, R, E> de::Deserializer<'de> for &'a mut Deserializer<'de, R, E> where R: XmlRead<'de>, E: EntityResolver, :: invoke deserialize_primitives :: invoke deserialize_num :: fn deserialize_i64 | serves=C07,C14 features=serialize
//@rewrite visitor.visit_str( ==> visit_str_is(Ghost(tv), visitor, 
//@rewrite visitor.visit_string( ==> visit_string_is(Ghost(tv), visitor, 
//@rewrite-opt Self::Error ==> DeError
//@rewrite text.parse() ==> parse_(&text)
        fn deserialize_i64<V>( self, visitor: V) -> Result<V::Value, DeError>
        where
            V: Visitor<'de>,
        {
            // No need to unescape because valid integer representations cannot be escaped
            let text = self.read_string()?;
            let ghost tv = cow_chars(text);
            match parse_(&text) {
                Ok(number) => visitor.visit_i64(number),
                Err(_) => match text {
                    Cow::Borrowed(t) => visit_str_is(Ghost(tv), visitor, t),
                    Cow::Owned(t) => visit_string_is(Ghost(tv), visitor, t),
                }
            }
        }
//@end
//@extract de::Deserializer::deserialize_u8 | src/de/mod.rs :: impl<'de, 'a, R, E> de::Deserializer<'de> for &'a mut Deserializer<'de, R, E> where R: XmlRead<'de>, E: EntityResolver, :: invoke deserialize_primitives :: invoke deserialize_num :: fn deserialize_u8 | serves=C07,C14 features=serialize
//@rewrite visitor.visit_str( ==> visit_str_is(Ghost(tv), visitor, 
//@rewrite visitor.visit_string( ==> visit_string_is(Ghost(tv), visitor, 
//@rewrite-opt Self::Error ==> DeError
//@rewrite text.parse() ==> parse_(&text)
        fn deserialize_u8<V>( self, visitor: V) -> Result<V::Value, DeError>
        where
            V: Visitor<'de>,
        {
            // No need to unescape because valid integer representations cannot be escaped
            let text = self.read_string()?;
            let ghost tv = cow_chars(text);
            match parse_(&text) {
                Ok(number) => visitor.visit_u8(number),
                Err(_) => match text {
                    Cow::Borrowed(t) => visit_str_is(Ghost(tv), visitor, t),
                    Cow::Owned(t) => visit_string_is(Ghost(tv), visitor, t),
                }
            }
        }
//@end
//@extract de::Deserializer::deserialize_u16 | src/de/mod.rs :: impl<'de, 'a, R, E> de::Deserializer<'de> for &'a mut Deserializer<'de, R, E> where R: XmlRead<'de>, E: EntityResolver, :: invoke deserialize_primitives :: invoke deserialize_num :: fn deserialize_u16 | serves=C07,C14 features=serialize
//@rewrite visitor.visit_str( ==> visit_str_is(Ghost(tv), visitor, 
//@rewrite visitor.visit_string( ==> visit_string_is(Ghost(tv), visitor, 
//@rewrite-opt Self::Error ==> DeError
//@rewrite text.parse() ==> parse_(&text)
        fn deserialize_u16<V>( self, visitor: V) -> Result<V::Value, DeError>
        where
            V: Visitor<'de>,
        {
            // No need to unescape because valid integer representations cannot be escaped
            let text = self.read_string()?;
            let ghost tv = cow_chars(text);
            match parse_(&text) {
                Ok(number) => visitor.visit_u16(number),
                Err(_) => match text {
                    Cow::Borrowed(t) => visit_str_is(Ghost(tv), visitor, t),
                    Cow::Owned(t) => visit_string_is(Ghost(tv), visitor, t),
                }
            }
        }
//@end
//@extract de::Deserializer::deserialize_u32 | src/de/mod.rs :: impl<'de, 'a, R, E> de::Deserializer<'de> for &'a mut Deserializer<'de, R, E> where R: XmlRead<'de>, E: EntityResolver, :: invoke deserialize_primitives :: invoke deserialize_num :: fn deserialize_u32 | serves=C07,C14 features=serialize
//@rewrite visitor.visit_str( ==> visit_str_is(Ghost(tv), visitor, 
//@rewrite visitor.visit_string( ==> visit_string_is(Ghost(tv), visitor, 
//@rewrite-opt Self::Error ==> DeError
//@rewrite text.parse() ==> parse_(&text)
        fn deserialize_u32<V>( self, visitor: V) -> Result<V::Value, DeError>
        where
            V: Visitor<'de>,
        {
            // No need to unescape because valid integer representations cannot be escaped
            let text = self.read_string()?;
            let ghost tv = cow_chars(text);
            match parse_(&text) {
                Ok(number) => visitor.visit_u32(number),
                Err(_) => match text {
                    Cow::Borrowed(t) => visit_str_is(Ghost(tv), visitor, t),
                    Cow::Owned(t) => visit_string_is(Ghost(tv), visitor, t),
                }
            }
        }
//@end
//@extract de::Deserializer::deserialize_u64 | src/de/mod.rs :: impl<'de, 'a, R, E> de::Deserializer<'de> for &'a mut Deserializer<'de, R, E> where R: XmlRead<'de>, E: EntityResolver, :: invoke deserialize_primitives :: invoke deserialize_num :: fn deserialize_u64 | serves=C07,C14 features=serialize
//@rewrite visitor.visit_str( ==> visit_str_is(Ghost(tv), visitor, 
//@rewrite visitor.visit_string( ==> visit_string_is(Ghost(tv), visitor, 
//@rewrite-opt Self::Error ==> DeError
//@rewrite text.parse() ==> parse_(&text)
        fn deserialize_u64<V>( self, visitor: V) -> Result<V::Value, DeError>
        where
            V: Visitor<'de>,
        {
            // No need to unescape because valid integer representations cannot be escaped
            let text = self.read_string()?;
            let ghost tv = cow_chars(text);
            match parse_(&text) {
                Ok(number) => visitor.visit_u64(number),
                Err(_) => match text {
                    Cow::Borrowed(t) => visit_str_is(Ghost(tv), visitor, t),
                    Cow::Owned(t) => visit_string_is(Ghost(tv), visitor, t),
                }
            }
        }
//@end
//@extract de::Deserializer::deserialize_f32 | src/de/mod.rs :: impl<'de, 'a, R, E> de::Deserializer<'de> for &'a mut Deserializer<'de, R, E> where R: XmlRead<'de>, E: EntityResolver, :: invoke deserialize_primitives :: invoke deserialize_num :: fn deserialize_f32 | serves=C07,C14 features=serialize
//@rewrite visitor.visit_str( ==> visit_str_is(Ghost(tv), visitor, 
//@rewrite visitor.visit_string( ==> visit_string_is(Ghost(tv), visitor, 
//@rewrite-opt Self::Error ==> DeError
//@rewrite text.parse() ==> parse_(&text)
        fn deserialize_f32<V>( self, visitor: V) -> Result<V::Value, DeError>
        where
            V: Visitor<'de>,
        {
            // No need to unescape because valid integer representations cannot be escaped
            let text = self.read_string()?;
            let ghost tv = cow_chars(text);
            match parse_(&text) {
                Ok(number) => visitor.visit_f32(number),
                Err(_) => match text {
                    Cow::Borrowed(t) => visit_str_is(Ghost(tv), visitor, t),
                    Cow::Owned(t) => visit_string_is(Ghost(tv), visitor, t),
                }
            }
        }
//@end
//@extract de::Deserializer::deserialize_f64 | src/de/mod.rs :: impl<'de, 'a, R, E> de::Deserializer<'de> for &'a mut Deserializer<'de, R, E> where R: XmlRead<'de>, E: EntityResolver, :: invoke deserialize_primitives :: invoke deserialize_num :: fn deserialize_f64 | serves=C07,C14 features=serialize
//@rewrite visitor.visit_str( ==> visit_str_is(Ghost(tv), visitor, 
//@rewrite visitor.visit_string( ==> visit_string_is(Ghost(tv), visitor, 
//@rewrite-opt Self::Error ==> DeError
//@rewrite text.parse() ==> parse_(&text)
        fn deserialize_f64<V>( self, visitor: V) -> Result<V::Value, DeError>
        where
            V: Visitor<'de>,
        {
            // No need to unescape because valid integer representations cannot be escaped
            let text = self.read_string()?;
            let ghost tv = cow_chars(text);
            match parse_(&text) {
                Ok(number) => visitor.visit_f64(number),
                Err(_) => match text {
                    Cow::Borrowed(t) => visit_str_is(Ghost(tv), visitor, t),
                    Cow::Owned(t) => visit_string_is(Ghost(tv), visitor, t),
                }
            }
        }
//@end
//@extract de::Deserializer::deserialize_char | src/de/mod.rs :: impl<'de, 'a, R, E> de::Deserializer<'de> for &'a mut Deserializer<'de, R, E> where R: XmlRead<'de>, E: EntityResolver, :: invoke deserialize_primitives :: fn deserialize_char | serves=C07 features=serialize
//@rewrite-opt Self::Error ==> DeError
        fn deserialize_char<V>(self, visitor: V) -> Result<V::Value, DeError>
        where
            V: Visitor<'de>,
        {
            self.deserialize_str(visitor)
        }
//@end
//@extract de::Deserializer::deserialize_str | src/de/mod.rs :: impl<'de, 'a, R, E> de::Deserializer<'de> for &'a mut Deserializer<'de, R, E> where R: XmlRead<'de>, E: EntityResolver, :: invoke deserialize_primitives :: fn deserialize_str | serves=C07,C14 features=serialize
//@rewrite visitor.visit_borrowed_str( ==> visit_borrowed_str_is(Ghost(tv), visitor, 
//@rewrite visitor.visit_string( ==> visit_string_is(Ghost(tv), visitor, 
//@rewrite-opt Self::Error ==> DeError
        fn deserialize_str<V>( self, visitor: V) -> Result<V::Value, DeError>
        where
            V: Visitor<'de>,
        {
            let text = self.read_string()?;
            let ghost tv = cow_chars(text);
            match text {
                Cow::Borrowed(string) => visit_borrowed_str_is(Ghost(tv), visitor, string),
                Cow::Owned(string) => visit_string_is(Ghost(tv), visitor, string),
            }
        }
//@end
//@extract de::Deserializer::deserialize_string | src/de/mod.rs :: impl<'de, 'a, R, E> de::Deserializer<'de> for &'a mut Deserializer<'de, R, E> where R: XmlRead<'de>, E: EntityResolver, :: invoke deserialize_primitives :: fn deserialize_string | serves=C07 features=serialize
//@rewrite-opt Self::Error ==> DeError
        fn deserialize_string<V>(self, visitor: V) -> Result<V::Value, DeError>
        where
            V: Visitor<'de>,
        {
            self.deserialize_str(visitor)
        }
//@end
//@extract de::Deserializer::deserialize_bytes | src/de/mod.rs :: impl<'de, 'a, R, E> de::Deserializer<'de> for &'a mut Deserializer<'de, R, E> where R: XmlRead<'de>, E: EntityResolver, :: invoke deserialize_primitives :: fn deserialize_bytes | serves=C07 features=serialize
//@rewrite-opt Self::Error ==> DeError
        fn deserialize_bytes<V>(self, visitor: V) -> Result<V::Value, DeError>
        where
            V: Visitor<'de>,
        {
            self.deserialize_any(visitor)
        }
//@end
//@extract de::Deserializer::deserialize_byte_buf | src/de/mod.rs :: impl<'de, 'a, R, E> de::Deserializer<'de> for &'a mut Deserializer<'de, R, E> where R: XmlRead<'de>, E: EntityResolver, :: invoke deserialize_primitives :: fn deserialize_byte_buf | serves=C07 features=serialize
//@rewrite-opt Self::Error ==> DeError
        fn deserialize_byte_buf<V>(self, visitor: V) -> Result<V::Value, DeError>
        where
            V: Visitor<'de>,
        {
            self.deserialize_bytes(visitor)
        }
//@end
//@extract de::Deserializer::deserialize_unit_struct | src/de/mod.rs :: impl<'de, 'a, R, E> de::Deserializer<'de> for &'a mut Deserializer<'de, R, E> where R: XmlRead<'de>, E: EntityResolver, :: invoke deserialize_primitives :: fn deserialize_unit_struct | serves=C07 features=serialize
//@rewrite-opt Self::Error ==> DeError
        fn deserialize_unit_struct<V>(
            self,
            _name: &'static str,
            visitor: V,
        ) -> Result<V::Value, DeError>
        where
            V: Visitor<'de>,
        {
            self.deserialize_unit(visitor)
        }
//@end
//@extract de::Deserializer::deserialize_tuple | src/de/mod.rs :: impl<'de, 'a, R, E> de::Deserializer<'de> for &'a mut Deserializer<'de, R, E> where R: XmlRead<'de>, E: EntityResolver, :: invoke deserialize_primitives :: fn deserialize_tuple | serves=C07 features=serialize
//@rewrite-opt Self::Error ==> DeError
        fn deserialize_tuple<V>(self, _len: usize, visitor: V) -> Result<V::Value, DeError>
        where
            V: Visitor<'de>,
        {
            self.deserialize_seq(visitor)
        }
//@end
//@extract de::Deserializer::deserialize_tuple_struct | src/de/mod.rs :: impl<'de, 'a, R, E> de::Deserializer<'de> for &'a mut Deserializer<'de, R, E> where R: XmlRead<'de>, E: EntityResolver, :: invoke deserialize_primitives :: fn deserialize_tuple_struct | serves=C07 features=serialize
//@rewrite-opt Self::Error ==> DeError
        fn deserialize_tuple_struct<V>(
            self,
            _name: &'static str,
            len: usize,
            visitor: V,
        ) -> Result<V::Value, DeError>
        where
            V: Visitor<'de>,
        {
            self.deserialize_tuple(len, visitor)
        }
//@end
//@extract de::Deserializer::deserialize_map | src/de/mod.rs :: impl<'de, 'a, R, E> de::Deserializer<'de> for &'a mut Deserializer<'de, R, E> where R: XmlRead<'de>, E: EntityResolver, :: invoke deserialize_primitives :: fn deserialize_map | serves=C07 features=serialize
//@rewrite-opt Self::Error ==> DeError
        fn deserialize_map<V>(self, visitor: V) -> Result<V::Value, DeError>
        where
            V: Visitor<'de>,
        {
            self.deserialize_struct("", &[], visitor)
        }
//@end
//@extract de::Deserializer::deserialize_identifier | src/de/mod.rs :: impl<'de, 'a, R, E> de::Deserializer<'de> for &'a mut Deserializer<'de, R, E> where R: XmlRead<'de>, E: EntityResolver, :: invoke deserialize_primitives :: fn deserialize_identifier | serves=C07 features=serialize
//@rewrite-opt Self::Error ==> DeError
        fn deserialize_identifier<V>(self, visitor: V) -> Result<V::Value, DeError>
        where
            V: Visitor<'de>,
        {
            self.deserialize_str(visitor)
        }
//@end
//@extract de::Deserializer::deserialize_ignored_any | src/de/mod.rs :: impl<'de, 'a, R, E> de::Deserializer<'de> for &'a mut Deserializer<'de, R, E> where R: XmlRead<'de>, E: EntityResolver, :: invoke deserialize_primitives :: fn deserialize_ignored_any | serves=C07 features=serialize
//@rewrite-opt Self::Error ==> DeError
        fn deserialize_ignored_any<V>(self, visitor: V) -> Result<V::Value, DeError>
        where
            V: Visitor<'de>,
        {
            self.deserialize_unit(visitor)
        }
//@end
}
/// the top-level sequence: `impl SeqAccess for &mut Deserializer`
pub trait SeqAccessTop<'de>: Sized {
    spec fn sa_ok(&self) -> bool;
    fn next_element_seed<T: DeserializeSeed<'de>>(&mut self, seed: T) -> (r: Result<Option<T::Value>, DeError>)
        requires old(self).sa_ok();
}
impl<'de, 'a, R, E> SeqAccessTop<'de> for &'a mut Deserializer<'de, R, E>
where
    R: XmlRead<'de>,
    E: EntityResolver,
{
    closed spec fn sa_ok(&self) -> bool { (**self).inv() }
//@extract de::Deserializer::next_element_seed | src/de/mod.rs :: impl<'de, 'a, R, E> SeqAccess<'de> for &'a mut Deserializer<'de, R, E> where R: XmlRead<'de>, E: EntityResolver, :: fn next_element_seed | serves=C07 features=serialize
//@rewrite-opt Self::Error ==> DeError
//@rewrite-all .map(Some) ==> .map(|v__: T::Value| Some(v__))
    fn next_element_seed<T>(&mut self, seed: T) -> Result<Option<T::Value>, DeError>
    where
        T: DeserializeSeed<'de>,
    {
        match self.peek()? {
            DeEvent::Eof => {
                // We need to consume event in order to self.is_empty() worked
                self.next()?;
                Ok(None)
            }

            // Start(tag), End(tag), Text
            _ => seed.deserialize(&mut **self).map(|v__: T::Value| Some(v__)),
        }
    }
//@end
}
impl<'de, 'd, R, E> EnumAccess<'de, 'd, R, E>
where
    R: XmlRead<'de>,
    E: EntityResolver,
{
//@extract de::var::EnumAccess::variant_seed | src/de/var.rs :: impl<'de, 'd, R, E> de::EnumAccess<'de> for EnumAccess<'de, 'd, R, E> where R: XmlRead<'de>, E: EntityResolver, :: fn variant_seed | serves=C07 features=serialize
//@rewrite-opt Self::Error ==> DeError
//@rewrite Self::Variant ==> VariantAccess<'de, 'd, R, E>
//@rewrite-all BorrowedStrDeserializer::<DeError>::new( ==> BorrowedStrDeserializer::new(
//@rewrite e.raw_name() ==> e.name().0
    fn variant_seed<V>(self, seed: V) -> (r: Result<(V::Value, VariantAccess<'de, 'd, R, E>), DeError>)
    where
        V: DeserializeSeed<'de>,
        requires self.enum_ok(),
        // established at construction: the accessor handed to foreign code satisfies its type invariant
        ensures r matches Ok(p) ==> p.1.ok(),
    {
        let decoder = self.de.reader.decoder();
        let (name, is_text) = match self.de.peek()? {
            DeEvent::Start(e) => (
                seed.deserialize(QNameDeserializer::from_elem(e.name().0, decoder)?)?,
                false,
            ),
            DeEvent::Text(_) => (
                seed.deserialize(BorrowedStrDeserializer::new(TEXT_KEY))?,
                true,
            ),
            // SAFETY: The reader is guaranteed that we don't have unmatched tags
            // If we here, then out deserializer has a bug
            DeEvent::End(e) => unreachable!(),
            DeEvent::Eof => return Err(DeError::UnexpectedEof),
        };
        Ok((
            name,
            VariantAccess {
                de: self.de,
                is_text,
            },
        ))
    }
//@end
}
impl<'de, 'd, R, E> VariantAccess<'de, 'd, R, E>
where
    R: XmlRead<'de>,
    E: EntityResolver,
{
    /// a Start or a Text was peeked when the variant was identified; a Text if `is_text`
    pub closed spec fn ok(&self) -> bool {
        &&& self.de.inv()
        &&& self.de.peeked_text() || self.de.peeked_start()
        &&& self.is_text == self.de.peeked_text()
    }
//@extract de::var::VariantAccess::unit_variant | src/de/var.rs :: impl<'de, 'd, R, E> de::VariantAccess<'de> for VariantAccess<'de, 'd, R, E> where R: XmlRead<'de>, E: EntityResolver, :: fn unit_variant | serves=C07 features=serialize
//@rewrite-opt Self::Error ==> DeError
    fn unit_variant(self) -> (r: Result<(), DeError>)
        requires self.ok(),
    {
        match self.de.next()? {
            // Consume subtree
            DeEvent::Start(e) => self.de.read_to_end(e.name()),
            // Does not needed to deserialize using SimpleTypeDeserializer, because
            // it returns `()` when `deserialize_unit()` is requested
            DeEvent::Text(_) => Ok(()),
            // SAFETY: the other events are filtered in `variant_seed()`
            _ => unreachable!(),
        }
    }
//@end
//@extract de::var::VariantAccess::newtype_variant_seed | src/de/var.rs :: impl<'de, 'd, R, E> de::VariantAccess<'de> for VariantAccess<'de, 'd, R, E> where R: XmlRead<'de>, E: EntityResolver, :: fn newtype_variant_seed | serves=C07 features=serialize
//@rewrite-opt Self::Error ==> DeError
    fn newtype_variant_seed<T>(self, seed: T) -> (r: Result<T::Value, DeError>)
    where
        T: DeserializeSeed<'de>,
        requires self.ok(),
    {
        if self.is_text {
            match self.de.next()? {
                DeEvent::Text(e) => seed.deserialize(SimpleTypeDeserializer::from_text_content(e)),
                // SAFETY: the other events are filtered in `variant_seed()`
                _ => unreachable!(),
            }
        } else {
            seed.deserialize(self.de)
        }
    }
//@end
//@extract de::var::VariantAccess::tuple_variant | src/de/var.rs :: impl<'de, 'd, R, E> de::VariantAccess<'de> for VariantAccess<'de, 'd, R, E> where R: XmlRead<'de>, E: EntityResolver, :: fn tuple_variant | serves=C07 features=serialize
//@rewrite-opt Self::Error ==> DeError
    fn tuple_variant<V>(self, len: usize, visitor: V) -> (r: Result<V::Value, DeError>)
    where
        V: Visitor<'de>,
        requires self.ok(),
    {
        if self.is_text {
            match self.de.next()? {
                DeEvent::Text(e) => {
                    SimpleTypeDeserializer::from_text_content(e).deserialize_tuple(len, visitor)
                }
                // SAFETY: the other events are filtered in `variant_seed()`
                _ => unreachable!(),
            }
        } else {
            self.de.deserialize_tuple(len, visitor)
        }
    }
//@end
//@extract de::var::VariantAccess::struct_variant | src/de/var.rs :: impl<'de, 'd, R, E> de::VariantAccess<'de> for VariantAccess<'de, 'd, R, E> where R: XmlRead<'de>, E: EntityResolver, :: fn struct_variant | serves=C07 features=serialize
//@rewrite-opt Self::Error ==> DeError
    fn struct_variant<V>(
        self,
        fields: &'static [&'static str],
        visitor: V,
    ) -> (r: Result<V::Value, DeError>)
    where
        V: Visitor<'de>,
        requires self.ok(),
    {
        match self.de.next()? {
            DeEvent::Start(e) => visitor.visit_map(ElementMapAccess::new(self.de, e, fields)?),
            DeEvent::Text(e) => {
                SimpleTypeDeserializer::from_text_content(e).deserialize_struct("", fields, visitor)
            }
            // SAFETY: the other events are filtered in `variant_seed()`
            _ => unreachable!(),
        }
    }
//@end
}
impl<'de, 'd, R, E> EnumAccess<'de, 'd, R, E>
where
    R: XmlRead<'de>,
    E: EntityResolver,
{
//@extract de::var::EnumAccess::new | src/de/var.rs :: impl<'de, 'd, R, E> EnumAccess<'de, 'd, R, E> where R: XmlRead<'de>, E: EntityResolver, :: fn new | serves=C07 features=serialize
 fn new(de: &'d mut Deserializer<'de, R, E>) -> (r: Self)
        ensures *r.de == *old(de), *final(r.de) == *final(de)
 {
        EnumAccess { de }
    }
//@end
}

// ---- C07 (bounded time): the forwarding network of the text deserializer (src/de/text.rs) ----
/// every `deserialize_*` of TextDeserializer either answers from its text or forwards to another one; none of the functions
/// below carries a `decreases` clause, so Verus accepts them only while the calls between them form no cycle: each returns
/// after finitely many forwards and ONE call into foreign code (a visitor, a seed -- A-serde)
impl<'de> TextDeserializer<'de> {
//@extract de::text::TextDeserializer::read_string | src/de/text.rs :: impl<'de> TextDeserializer<'de> :: fn read_string | serves=C07 features=serialize
//@rewrite-opt Self::Error ==> DeError
    fn read_string(self) -> Result<Cow<'de, str>, DeError> {
        Ok(self.0.text)
    }
//@end
//@extract de::text::TextDeserializer::deserialize_unit | src/de/text.rs :: impl<'de> Deserializer<'de> for TextDeserializer<'de> :: fn deserialize_unit | serves=C07 features=serialize
//@rewrite-opt Self::Error ==> DeError
    fn deserialize_unit<V>(self, visitor: V) -> Result<V::Value, DeError>
    where
        V: Visitor<'de>,
    {
        visitor.visit_unit()
    }
//@end
//@extract de::text::TextDeserializer::deserialize_option | src/de/text.rs :: impl<'de> Deserializer<'de> for TextDeserializer<'de> :: fn deserialize_option | serves=C07 features=serialize
//@rewrite-opt Self::Error ==> DeError
    fn deserialize_option<V>(self, visitor: V) -> Result<V::Value, DeError>
    where
        V: Visitor<'de>,
    {
        if self.0.is_empty() {
            visitor.visit_none()
        } else {
            visitor.visit_some(self)
        }
    }
//@end
//@extract de::text::TextDeserializer::deserialize_newtype_struct | src/de/text.rs :: impl<'de> Deserializer<'de> for TextDeserializer<'de> :: fn deserialize_newtype_struct | serves=C07 features=serialize
//@rewrite-opt Self::Error ==> DeError
    /// Forwards deserialization of the inner type. Always calls [`Visitor::visit_newtype_struct`]
    /// with this deserializer.
    fn deserialize_newtype_struct<V>(
        self,
        _name: &'static str,
        visitor: V,
    ) -> Result<V::Value, DeError>
    where
        V: Visitor<'de>,
    {
        visitor.visit_newtype_struct(self)
    }
//@end
//@extract de::text::TextDeserializer::deserialize_seq | src/de/text.rs :: impl<'de> Deserializer<'de> for TextDeserializer<'de> :: fn deserialize_seq | serves=C07 features=serialize
//@rewrite-opt Self::Error ==> DeError
    /// This method deserializes a sequence inside of element that itself is a
    /// sequence element:
    ///
    /// ```xml
    /// <>
    ///   ...
    ///   inner sequence as xs:list
    ///   ...
    /// </>
    /// ```
    fn deserialize_seq<V>(self, visitor: V) -> Result<V::Value, DeError>
    where
        V: Visitor<'de>,
    {
        SimpleTypeDeserializer::from_text_content(self.0).deserialize_seq(visitor)
    }
//@end
//@extract de::text::TextDeserializer::deserialize_struct | src/de/text.rs :: impl<'de> Deserializer<'de> for TextDeserializer<'de> :: fn deserialize_struct | serves=C07 features=serialize
//@rewrite-opt Self::Error ==> DeError
    fn deserialize_struct<V>(
        self,
        _name: &'static str,
        _fields: &'static [&'static str],
        visitor: V,
    ) -> Result<V::Value, DeError>
    where
        V: Visitor<'de>,
    {
        // Deserializer methods are only hints, if deserializer could not satisfy
        // request, it should return the data that it has. It is responsibility
        // of a Visitor to return an error if it does not understand the data
        self.deserialize_str(visitor)
    }
//@end
//@extract de::text::TextDeserializer::deserialize_enum | src/de/text.rs :: impl<'de> Deserializer<'de> for TextDeserializer<'de> :: fn deserialize_enum | serves=C07 features=serialize
//@rewrite-opt Self::Error ==> DeError
    fn deserialize_enum<V>(
        self,
        _name: &'static str,
        _variants: &'static [&'static str],
        visitor: V,
    ) -> Result<V::Value, DeError>
    where
        V: Visitor<'de>,
    {
        visitor.visit_enum(self)
    }
//@end
//@extract de::text::TextDeserializer::deserialize_any | src/de/text.rs :: impl<'de> Deserializer<'de> for TextDeserializer<'de> :: fn deserialize_any | serves=C07 features=serialize
//@rewrite-opt Self::Error ==> DeError
    fn deserialize_any<V>(self, visitor: V) -> Result<V::Value, DeError>
    where
        V: Visitor<'de>,
    {
        self.deserialize_str(visitor)
    }
//@end
//@extract de::text::TextDeserializer::deserialize_bool | src/de/text.rs :: impl<'de> Deserializer<'de> for TextDeserializer<'de> :: invoke deserialize_primitives :: fn deserialize_bool | serves=C07 features=serialize macro_files=src/de/mod.rs
//@rewrite-opt Self::Error ==> DeError
        fn deserialize_bool<V>( self, visitor: V) -> Result<V::Value, DeError>
        where
            V: Visitor<'de>,
        {
            let text = match self.read_string()? {
                Cow::Borrowed(s) => CowRef::Input(s),
                Cow::Owned(s) => CowRef::Owned(s),
            };
            text.deserialize_bool(visitor)
        }
//@end
//@extract de::text::TextDeserializer::deserialize_i8 | src/de/text.rs :: impl<'de> Deserializer<'de> for TextDeserializer<'de> :: invoke deserialize_primitives :: invoke deserialize_num :: fn deserialize_i8 | serves=C07,C14 features=serialize macro_files=src/de/mod.rs
//@rewrite visitor.visit_str( ==> visit_str_is(Ghost(tv), visitor, 
//@rewrite visitor.visit_string( ==> visit_string_is(Ghost(tv), visitor, 
//@rewrite-opt Self::Error ==> DeError
//@rewrite text.parse() ==> parse_(&text)
        fn deserialize_i8<V>( self, visitor: V) -> Result<V::Value, DeError>
        where
            V: Visitor<'de>,
        {
            // No need to unescape because valid integer representations cannot be escaped
            let text = self.read_string()?;
            let ghost tv = cow_chars(text);
            match parse_(&text) {
                Ok(number) => visitor.visit_i8(number),
                Err(_) => match text {
                    Cow::Borrowed(t) => visit_str_is(Ghost(tv), visitor, t),
                    Cow::Owned(t) => visit_string_is(Ghost(tv), visitor, t),
                }
            }
        }
//@end
//@extract de::text::TextDeserializer::deserialize_i16 | src/de/text.rs :: impl<'de> Deserializer<'de> for TextDeserializer<'de> :: invoke deserialize_primitives :: invoke deserialize_num :: fn deserialize_i16 | serves=C07,C14 features=serialize macro_files=src/de/mod.rs
//@rewrite visitor.visit_str( ==> visit_str_is(Ghost(tv), visitor, 
//@rewrite visitor.visit_string( ==> visit_string_is(Ghost(tv), visitor, 
//@rewrite-opt Self::Error ==> DeError
//@rewrite text.parse() ==> parse_(&text)
        fn deserialize_i16<V>( self, visitor: V) -> Result<V::Value, DeError>
        where
            V: Visitor<'de>,
        {
            // No need to unescape because valid integer representations cannot be escaped
            let text = self.read_string()?;
            let ghost tv = cow_chars(text);
            match parse_(&text) {
                Ok(number) => visitor.visit_i16(number),
                Err(_) => match text {
                    Cow::Borrowed(t) => visit_str_is(Ghost(tv), visitor, t),
                    Cow::Owned(t) => visit_string_is(Ghost(tv), visitor, t),
                }
            }
        }
//@end
//@extract de::text::TextDeserializer::deserialize_i32 | src/de/text.rs :: impl<'de> Deserializer<'de> for TextDeserializer<'de> :: invoke deserialize_primitives :: invoke deserialize_num :: fn deserialize_i32 | serves=C07,C14 features=serialize macro_files=src/de/mod.rs
//@rewrite visitor.visit_str( ==> visit_str_is(Ghost(tv), visitor, 
//@rewrite visitor.visit_string( ==> visit_string_is(Ghost(tv), visitor, 
//@rewrite-opt Self::Error ==> DeError
//@rewrite text.parse() ==> parse_(&text)
        fn deserialize_i32<V>( self, visitor: V) -> Result<V::Value, DeError>
        where
            V: Visitor<'de>,
        {
            // No need to unescape because valid integer representations cannot be escaped
            let text = self.read_string()?;
            let ghost tv = cow_chars(text);
            match parse_(&text) {
                Ok(number) => visitor.visit_i32(number),
                Err(_) => match text {
                    Cow::Borrowed(t) => visit_str_is(Ghost(tv), visitor, t),
                    Cow::Owned(t) => visit_string_is(Ghost(tv), visitor, t),
                }
            }
        }
//@end
//@extract de::text::TextDeserializer::deserialize_i64 | src/de/text.rs :: impl<'de> Deserializer<'de> for TextDeserializer<'de> :: invoke deserialize_primitives :: invoke deserialize_num :: fn deserialize_i64 | serves=C07,C14 features=serialize macro_files=src/de/mod.rs
//@rewrite visitor.visit_str( ==> visit_str_is(Ghost(tv), visitor, 
//@rewrite visitor.visit_string( ==> visit_string_is(Ghost(tv), visitor, 
//@rewrite-opt Self::Error ==> DeError
//@rewrite text.parse() ==> parse_(&text)
        fn deserialize_i64<V>( self, visitor: V) -> Result<V::Value, DeError>
        where
            V: Visitor<'de>,
        {
            // No need to unescape because valid integer representations cannot be escaped
            let text = self.read_string()?;
            let ghost tv = cow_chars(text);
            match parse_(&text) {
                Ok(number) => visitor.visit_i64(number),
                Err(_) => match text {
                    Cow::Borrowed(t) => visit_str_is(Ghost(tv), visitor, t),
                    Cow::Owned(t) => visit_string_is(Ghost(tv), visitor, t),
                }
            }
        }
//@end
//@extract de::text::TextDeserializer::deserialize_u8 | src/de/text.rs :: impl<'de> Deserializer<'de> for TextDeserializer<'de> :: invoke deserialize_primitives :: invoke deserialize_num :: fn deserialize_u8 | serves=C07,C14 features=serialize macro_files=src/de/mod.rs
//@rewrite visitor.visit_str( ==> visit_str_is(Ghost(tv), visitor, 
//@rewrite visitor.visit_string( ==> visit_string_is(Ghost(tv), visitor, 
//@rewrite-opt Self::Error ==> DeError
//@rewrite text.parse() ==> parse_(&text)
        fn deserialize_u8<V>( self, visitor: V) -> Result<V::Value, DeError>
        where
            V: Visitor<'de>,
        {
            // No need to unescape because valid integer representations cannot be escaped
            let text = self.read_string()?;
            let ghost tv = cow_chars(text);
            match parse_(&text) {
                Ok(number) => visitor.visit_u8(number),
                Err(_) => match text {
                    Cow::Borrowed(t) => visit_str_is(Ghost(tv), visitor, t),
                    Cow::Owned(t) => visit_string_is(Ghost(tv), visitor, t),
                }
            }
        }
//@end
//@extract de::text::TextDeserializer::deserialize_u16 | src/de/text.rs :: impl<'de> Deserializer<'de> for TextDeserializer<'de> :: invoke deserialize_primitives :: invoke deserialize_num :: fn deserialize_u16 | serves=C07,C14 features=serialize macro_files=src/de/mod.rs
//@rewrite visitor.visit_str( ==> visit_str_is(Ghost(tv), visitor, 
//@rewrite visitor.visit_string( ==> visit_string_is(Ghost(tv), visitor, 
//@rewrite-opt Self::Error ==> DeError
//@rewrite text.parse() ==> parse_(&text)
        fn deserialize_u16<V>( self, visitor: V) -> Result<V::Value, DeError>
        where
            V: Visitor<'de>,
        {
            // No need to unescape because valid integer representations cannot be escaped
            let text = self.read_string()?;
            let ghost tv = cow_chars(text);
            match parse_(&text) {
                Ok(number) => visitor.visit_u16(number),
                Err(_) => match text {
                    Cow::Borrowed(t) => visit_str_is(Ghost(tv), visitor, t),
                    Cow::Owned(t) => visit_string_is(Ghost(tv), visitor, t),
                }
            }
        }
//@end
//@extract de::text::TextDeserializer::deserialize_u32 | src/de/text.rs :: impl<'de> Deserializer<'de> for TextDeserializer<'de> :: invoke deserialize_primitives :: invoke deserialize_num :: fn deserialize_u32 | serves=C07,C14 features=serialize macro_files=src/de/mod.rs
//@rewrite visitor.visit_str( ==> visit_str_is(Ghost(tv), visitor, 
//@rewrite visitor.visit_string( ==> visit_string_is(Ghost(tv), visitor, 
//@rewrite-opt Self::Error ==> DeError
//@rewrite text.parse() ==> parse_(&text)
        fn deserialize_u32<V>( self, visitor: V) -> Result<V::Value, DeError>
        where
            V: Visitor<'de>,
        {
            // No need to unescape because valid integer representations cannot be escaped
            let text = self.read_string()?;
            let ghost tv = cow_chars(text);
            match parse_(&text) {
                Ok(number) => visitor.visit_u32(number),
                Err(_) => match text {
                    Cow::Borrowed(t) => visit_str_is(Ghost(tv), visitor, t),
                    Cow::Owned(t) => visit_string_is(Ghost(tv), visitor, t),
                }
            }
        }
//@end
//@extract de::text::TextDeserializer::deserialize_u64 | src/de/text.rs :: impl<'de> Deserializer<'de> for TextDeserializer<'de> :: invoke deserialize_primitives :: invoke deserialize_num :: fn deserialize_u64 | serves=C07,C14 features=serialize macro_files=src/de/mod.rs
//@rewrite visitor.visit_str( ==> visit_str_is(Ghost(tv), visitor, 
//@rewrite visitor.visit_string( ==> visit_string_is(Ghost(tv), visitor, 
//@rewrite-opt Self::Error ==> DeError
//@rewrite text.parse() ==> parse_(&text)
        fn deserialize_u64<V>( self, visitor: V) -> Result<V::Value, DeError>
        where
            V: Visitor<'de>,
        {
            // No need to unescape because valid integer representations cannot be escaped
            let text = self.read_string()?;
            let ghost tv = cow_chars(text);
            match parse_(&text) {
                Ok(number) => visitor.visit_u64(number),
                Err(_) => match text {
                    Cow::Borrowed(t) => visit_str_is(Ghost(tv), visitor, t),
                    Cow::Owned(t) => visit_string_is(Ghost(tv), visitor, t),
                }
            }
        }
//@end
//@extract de::text::TextDeserializer::deserialize_f32 | src/de/text.rs :: impl<'de> Deserializer<'de> for TextDeserializer<'de> :: invoke deserialize_primitives :: invoke deserialize_num :: fn deserialize_f32 | serves=C07,C14 features=serialize macro_files=src/de/mod.rs
//@rewrite visitor.visit_str( ==> visit_str_is(Ghost(tv), visitor, 
//@rewrite visitor.visit_string( ==> visit_string_is(Ghost(tv), visitor, 
//@rewrite-opt Self::Error ==> DeError
//@rewrite text.parse() ==> parse_(&text)
        fn deserialize_f32<V>( self, visitor: V) -> Result<V::Value, DeError>
        where
            V: Visitor<'de>,
        {
            // No need to unescape because valid integer representations cannot be escaped
            let text = self.read_string()?;
            let ghost tv = cow_chars(text);
            match parse_(&text) {
                Ok(number) => visitor.visit_f32(number),
                Err(_) => match text {
                    Cow::Borrowed(t) => visit_str_is(Ghost(tv), visitor, t),
                    Cow::Owned(t) => visit_string_is(Ghost(tv), visitor, t),
                }
            }
        }
//@end
//@extract de::text::TextDeserializer::deserialize_f64 | src/de/text.rs :: impl<'de> Deserializer<'de> for TextDeserializer<'de> :: invoke deserialize_primitives :: invoke deserialize_num :: fn deserialize_f64 | serves=C07,C14 features=serialize macro_files=src/de/mod.rs
//@rewrite visitor.visit_str( ==> visit_str_is(Ghost(tv), visitor, 
//@rewrite visitor.visit_string( ==> visit_string_is(Ghost(tv), visitor, 
//@rewrite-opt Self::Error ==> DeError
//@rewrite text.parse() ==> parse_(&text)
        fn deserialize_f64<V>( self, visitor: V) -> Result<V::Value, DeError>
        where
            V: Visitor<'de>,
        {
            // No need to unescape because valid integer representations cannot be escaped
            let text = self.read_string()?;
            let ghost tv = cow_chars(text);
            match parse_(&text) {
                Ok(number) => visitor.visit_f64(number),
                Err(_) => match text {
                    Cow::Borrowed(t) => visit_str_is(Ghost(tv), visitor, t),
                    Cow::Owned(t) => visit_string_is(Ghost(tv), visitor, t),
                }
            }
        }
//@end
//@extract de::text::TextDeserializer::deserialize_char | src/de/text.rs :: impl<'de> Deserializer<'de> for TextDeserializer<'de> :: invoke deserialize_primitives :: fn deserialize_char | serves=C07 features=serialize macro_files=src/de/mod.rs
//@rewrite-opt Self::Error ==> DeError
        fn deserialize_char<V>(self, visitor: V) -> Result<V::Value, DeError>
        where
            V: Visitor<'de>,
        {
            self.deserialize_str(visitor)
        }
//@end
//@extract de::text::TextDeserializer::deserialize_str | src/de/text.rs :: impl<'de> Deserializer<'de> for TextDeserializer<'de> :: invoke deserialize_primitives :: fn deserialize_str | serves=C07,C14 features=serialize macro_files=src/de/mod.rs
//@rewrite visitor.visit_borrowed_str( ==> visit_borrowed_str_is(Ghost(tv), visitor, 
//@rewrite visitor.visit_string( ==> visit_string_is(Ghost(tv), visitor, 
//@rewrite-opt Self::Error ==> DeError
        fn deserialize_str<V>( self, visitor: V) -> Result<V::Value, DeError>
        where
            V: Visitor<'de>,
        {
            let text = self.read_string()?;
            let ghost tv = cow_chars(text);
            match text {
                Cow::Borrowed(string) => visit_borrowed_str_is(Ghost(tv), visitor, string),
                Cow::Owned(string) => visit_string_is(Ghost(tv), visitor, string),
            }
        }
//@end
//@extract de::text::TextDeserializer::deserialize_string | src/de/text.rs :: impl<'de> Deserializer<'de> for TextDeserializer<'de> :: invoke deserialize_primitives :: fn deserialize_string | serves=C07 features=serialize macro_files=src/de/mod.rs
//@rewrite-opt Self::Error ==> DeError
        fn deserialize_string<V>(self, visitor: V) -> Result<V::Value, DeError>
        where
            V: Visitor<'de>,
        {
            self.deserialize_str(visitor)
        }
//@end
//@extract de::text::TextDeserializer::deserialize_bytes | src/de/text.rs :: impl<'de> Deserializer<'de> for TextDeserializer<'de> :: invoke deserialize_primitives :: fn deserialize_bytes | serves=C07 features=serialize macro_files=src/de/mod.rs
//@rewrite-opt Self::Error ==> DeError
        fn deserialize_bytes<V>(self, visitor: V) -> Result<V::Value, DeError>
        where
            V: Visitor<'de>,
        {
            self.deserialize_any(visitor)
        }
//@end
//@extract de::text::TextDeserializer::deserialize_byte_buf | src/de/text.rs :: impl<'de> Deserializer<'de> for TextDeserializer<'de> :: invoke deserialize_primitives :: fn deserialize_byte_buf | serves=C07 features=serialize macro_files=src/de/mod.rs
//@rewrite-opt Self::Error ==> DeError
        fn deserialize_byte_buf<V>(self, visitor: V) -> Result<V::Value, DeError>
        where
            V: Visitor<'de>,
        {
            self.deserialize_bytes(visitor)
        }
//@end
//@extract de::text::TextDeserializer::deserialize_unit_struct | src/de/text.rs :: impl<'de> Deserializer<'de> for TextDeserializer<'de> :: invoke deserialize_primitives :: fn deserialize_unit_struct | serves=C07 features=serialize macro_files=src/de/mod.rs
//@rewrite-opt Self::Error ==> DeError
        fn deserialize_unit_struct<V>(
            self,
            _name: &'static str,
            visitor: V,
        ) -> Result<V::Value, DeError>
        where
            V: Visitor<'de>,
        {
            self.deserialize_unit(visitor)
        }
//@end
//@extract de::text::TextDeserializer::deserialize_tuple | src/de/text.rs :: impl<'de> Deserializer<'de> for TextDeserializer<'de> :: invoke deserialize_primitives :: fn deserialize_tuple | serves=C07 features=serialize macro_files=src/de/mod.rs
//@rewrite-opt Self::Error ==> DeError
        fn deserialize_tuple<V>(self, _len: usize, visitor: V) -> Result<V::Value, DeError>
        where
            V: Visitor<'de>,
        {
            self.deserialize_seq(visitor)
        }
//@end
//@extract de::text::TextDeserializer::deserialize_tuple_struct | src/de/text.rs :: impl<'de> Deserializer<'de> for TextDeserializer<'de> :: invoke deserialize_primitives :: fn deserialize_tuple_struct | serves=C07 features=serialize macro_files=src/de/mod.rs
//@rewrite-opt Self::Error ==> DeError
        fn deserialize_tuple_struct<V>(
            self,
            _name: &'static str,
            len: usize,
            visitor: V,
        ) -> Result<V::Value, DeError>
        where
            V: Visitor<'de>,
        {
            self.deserialize_tuple(len, visitor)
        }
//@end
//@extract de::text::TextDeserializer::deserialize_map | src/de/text.rs :: impl<'de> Deserializer<'de> for TextDeserializer<'de> :: invoke deserialize_primitives :: fn deserialize_map | serves=C07 features=serialize macro_files=src/de/mod.rs
//@rewrite-opt Self::Error ==> DeError
        fn deserialize_map<V>(self, visitor: V) -> Result<V::Value, DeError>
        where
            V: Visitor<'de>,
        {
            self.deserialize_struct("", &[], visitor)
        }
//@end
//@extract de::text::TextDeserializer::deserialize_identifier | src/de/text.rs :: impl<'de> Deserializer<'de> for TextDeserializer<'de> :: invoke deserialize_primitives :: fn deserialize_identifier | serves=C07 features=serialize macro_files=src/de/mod.rs
//@rewrite-opt Self::Error ==> DeError
        fn deserialize_identifier<V>(self, visitor: V) -> Result<V::Value, DeError>
        where
            V: Visitor<'de>,
        {
            self.deserialize_str(visitor)
        }
//@end
//@extract de::text::TextDeserializer::deserialize_ignored_any | src/de/text.rs :: impl<'de> Deserializer<'de> for TextDeserializer<'de> :: invoke deserialize_primitives :: fn deserialize_ignored_any | serves=C07 features=serialize macro_files=src/de/mod.rs
//@rewrite-opt Self::Error ==> DeError
        fn deserialize_ignored_any<V>(self, visitor: V) -> Result<V::Value, DeError>
        where
            V: Visitor<'de>,
        {
            self.deserialize_unit(visitor)
        }
//@end
//@extract de::text::TextDeserializer::variant_seed | src/de/text.rs :: impl<'de> EnumAccess<'de> for TextDeserializer<'de> :: fn variant_seed | serves=C07 features=serialize
//@rewrite-opt Self::Error ==> DeError
//@rewrite-opt Self::Variant ==> Self
//@rewrite-all BorrowedStrDeserializer::<DeError>::new( ==> BorrowedStrDeserializer::new(
    fn variant_seed<V>(self, seed: V) -> Result<(V::Value, Self), DeError>
    where
        V: DeserializeSeed<'de>,
    {
        let name = seed.deserialize(BorrowedStrDeserializer::new(TEXT_KEY))?;
        Ok((name, self))
    }
//@end
//@extract de::text::TextDeserializer::unit_variant | src/de/text.rs :: impl<'de> VariantAccess<'de> for TextDeserializer<'de> :: fn unit_variant | serves=C07 features=serialize
//@rewrite-opt Self::Error ==> DeError
    fn unit_variant(self) -> Result<(), DeError> {
        Ok(())
    }
//@end
//@extract de::text::TextDeserializer::newtype_variant_seed | src/de/text.rs :: impl<'de> VariantAccess<'de> for TextDeserializer<'de> :: fn newtype_variant_seed | serves=C07 features=serialize
//@rewrite-opt Self::Error ==> DeError
    fn newtype_variant_seed<T>(self, seed: T) -> Result<T::Value, DeError>
    where
        T: DeserializeSeed<'de>,
    {
        seed.deserialize(self)
    }
//@end
//@extract de::text::TextDeserializer::tuple_variant | src/de/text.rs :: impl<'de> VariantAccess<'de> for TextDeserializer<'de> :: fn tuple_variant | serves=C07 features=serialize
//@rewrite-opt Self::Error ==> DeError
    fn tuple_variant<V>(self, len: usize, visitor: V) -> Result<V::Value, DeError>
    where
        V: Visitor<'de>,
    {
        self.deserialize_tuple(len, visitor)
    }
//@end
//@extract de::text::TextDeserializer::struct_variant | src/de/text.rs :: impl<'de> VariantAccess<'de> for TextDeserializer<'de> :: fn struct_variant | serves=C07 features=serialize
//@rewrite-opt Self::Error ==> DeError
    fn struct_variant<V>(
        self,
        fields: &'static [&'static str],
        visitor: V,
    ) -> Result<V::Value, DeError>
    where
        V: Visitor<'de>,
    {
        self.deserialize_struct("", fields, visitor)
    }
//@end
}

// ---- C07: the forwarding network of the value deserializer of a map (src/de/map.rs, MapValueDeserializer) ----
impl<'de, 'd, R, E> ElementMapAccess<'de, 'd, R, E>
where
    R: XmlRead<'de>,
    E: EntityResolver,
{
//@extract de::map::ElementMapAccess::should_skip_subtree | src/de/map.rs :: impl<'de, 'd, R, E> ElementMapAccess<'de, 'd, R, E> where R: XmlRead<'de>, E: EntityResolver, :: fn should_skip_subtree | serves=C07 features=serialize
//@rewrite-opt Self::Error ==> DeError
    /// Determines if subtree started with the specified event shoould be skipped.
    ///
    /// Used to map elements with `xsi:nil` attribute set to true to `None` in optional contexts.
    ///
    /// We need to handle two attributes:
    /// - on parent element: <map xsi:nil="true"><foo/></map>
    /// - on this element:   <map><foo xsi:nil="true"/></map>
    ///
    /// We check parent element too because `xsi:nil` affects only nested elements of the
    /// tag where it is defined. We can map structure with fields mapped to attributes to
    /// the `<map>` element and set to `None` all its optional elements.
    fn should_skip_subtree(&self, start: &BytesStart) -> bool {
        self.de.reader.reader.has_nil_attr(&self.start) || self.de.reader.reader.has_nil_attr(start)
    }
//@end
}
impl<'de, 'd, 'm, R, E> MapValueDeserializer<'de, 'd, 'm, R, E>
where
    R: XmlRead<'de>,
    E: EntityResolver,
{
//@extract de::map::MapValueDeserializer::deserialize_option | src/de/map.rs :: impl<'de, 'd, 'm, R, E> de::Deserializer<'de> for MapValueDeserializer<'de, 'd, 'm, R, E> where R: XmlRead<'de>, E: EntityResolver, :: fn deserialize_option | serves=C07 features=serialize
//@rewrite-opt Self::Error ==> DeError
    fn deserialize_option<V>(self, visitor: V) -> Result<V::Value, DeError>
    where
        V: Visitor<'de>,
        requires self.ok(),
    {
        // We cannot use result of `peek()` directly because of borrow checker
        let _ = self.map.de.peek()?;
        match self.map.de.last_peeked() {
            DeEvent::Text(t) if t.is_empty() => visitor.visit_none(),
            DeEvent::Start(start) if self.map.should_skip_subtree(start) => {
                self.map.de.skip_next_tree()?;
                visitor.visit_none()
            }
            _ => visitor.visit_some(self),
        }
    }
//@end
//@extract de::map::MapValueDeserializer::deserialize_newtype_struct | src/de/map.rs :: impl<'de, 'd, 'm, R, E> de::Deserializer<'de> for MapValueDeserializer<'de, 'd, 'm, R, E> where R: XmlRead<'de>, E: EntityResolver, :: fn deserialize_newtype_struct | serves=C07 features=serialize
//@rewrite-opt Self::Error ==> DeError
    /// Forwards deserialization of the inner type. Always calls [`Visitor::visit_newtype_struct`]
    /// with the same deserializer.
    fn deserialize_newtype_struct<V>(
        self,
        _name: &'static str,
        visitor: V,
    ) -> Result<V::Value, DeError>
    where
        V: Visitor<'de>,
        requires self.ok(),
    {
        visitor.visit_newtype_struct(self)
    }
//@end
//@extract de::map::MapValueDeserializer::deserialize_any | src/de/map.rs :: impl<'de, 'd, 'm, R, E> de::Deserializer<'de> for MapValueDeserializer<'de, 'd, 'm, R, E> where R: XmlRead<'de>, E: EntityResolver, :: fn deserialize_any | serves=C07 features=serialize
//@rewrite-opt Self::Error ==> DeError
    fn deserialize_any<V>(self, visitor: V) -> Result<V::Value, DeError>
    where
        V: Visitor<'de>,
        requires self.ok(),
    {
        match self.map.de.peek()? {
            DeEvent::Text(_) => self.deserialize_str(visitor),
            _ => self.deserialize_map(visitor),
        }
    }
//@end
//@extract de::map::MapValueDeserializer::deserialize_bool | src/de/map.rs :: impl<'de, 'd, 'm, R, E> de::Deserializer<'de> for MapValueDeserializer<'de, 'd, 'm, R, E> where R: XmlRead<'de>, E: EntityResolver, :: invoke deserialize_primitives :: fn deserialize_bool | serves=C07 features=serialize macro_files=src/de/mod.rs
//@rewrite-opt Self::Error ==> DeError
        fn deserialize_bool<V>(self, visitor: V) -> Result<V::Value, DeError>
        where
            V: Visitor<'de>,
            requires self.ok(),
        { let mut self__ = self;
            let text = match self__.read_string()? {
                Cow::Borrowed(s) => CowRef::Input(s),
                Cow::Owned(s) => CowRef::Owned(s),
            };
            text.deserialize_bool(visitor)
        }
//@end
//@extract de::map::MapValueDeserializer::deserialize_i8 | src/de/map.rs :: impl<'de, 'd, 'm, R, E> de::Deserializer<'de> for MapValueDeserializer<'de, 'd, 'm, R, E> where R: XmlRead<'de>, E: EntityResolver, :: invoke deserialize_primitives :: invoke deserialize_num :: fn deserialize_i8 | serves=C07,C14 features=serialize macro_files=src/de/mod.rs
//@rewrite visitor.visit_str( ==> visit_str_is(Ghost(tv), visitor, 
//@rewrite visitor.visit_string( ==> visit_string_is(Ghost(tv), visitor, 
//@rewrite-opt Self::Error ==> DeError
//@rewrite text.parse() ==> parse_(&text)
        fn deserialize_i8<V>(self, visitor: V) -> Result<V::Value, DeError>
        where
            V: Visitor<'de>,
            requires self.ok(),
        { let mut self__ = self;
            // No need to unescape because valid integer representations cannot be escaped
            let text = self__.read_string()?;
            let ghost tv = cow_chars(text);
            match parse_(&text) {
                Ok(number) => visitor.visit_i8(number),
                Err(_) => match text {
                    Cow::Borrowed(t) => visit_str_is(Ghost(tv), visitor, t),
                    Cow::Owned(t) => visit_string_is(Ghost(tv), visitor, t),
                }
            }
        }
//@end
//@extract de::map::MapValueDeserializer::deserialize_i16 | src/de/map.rs :: impl<'de, 'd, 'm, R, E> de::Deserializer<'de> for MapValueDeserializer<'de, 'd, 'm, R, E> where R: XmlRead<'de>, E: EntityResolver, :: invoke deserialize_primitives :: invoke deserialize_num :: fn deserialize_i16 | serves=C07,C14 features=serialize macro_files=src/de/mod.rs
//@rewrite visitor.visit_str( ==> visit_str_is(Ghost(tv), visitor, 
//@rewrite visitor.visit_string( ==> visit_string_is(Ghost(tv), visitor, 
//@rewrite-opt Self::Error ==> DeError
//@rewrite text.parse() ==> parse_(&text)
        fn deserialize_i16<V>(self, visitor: V) -> Result<V::Value, DeError>
        where
            V: Visitor<'de>,
            requires self.ok(),
        { let mut self__ = self;
            // No need to unescape because valid integer representations cannot be escaped
            let text = self__.read_string()?;
            let ghost tv = cow_chars(text);
            match parse_(&text) {
                Ok(number) => visitor.visit_i16(number),
                Err(_) => match text {
                    Cow::Borrowed(t) => visit_str_is(Ghost(tv), visitor, t),
                    Cow::Owned(t) => visit_string_is(Ghost(tv), visitor, t),
                }
            }
        }
//@end
//@extract de::map::MapValueDeserializer::deserialize_i32 | src/de/map.rs :: impl<'de, 'd, 'm, R, E> de::Deserializer<'de> for MapValueDeserializer<'de, 'd, 'm, R, E> where R: XmlRead<'de>, E: EntityResolver, :: invoke deserialize_primitives :: invoke deserialize_num :: fn deserialize_i32 | serves=C07,C14 features=serialize macro_files=src/de/mod.rs
//@rewrite visitor.visit_str( ==> visit_str_is(Ghost(tv), visitor, 
//@rewrite visitor.visit_string( ==> visit_string_is(Ghost(tv), visitor, 
//@rewrite-opt Self::Error ==> DeError
//@rewrite text.parse() ==> parse_(&text)
        fn deserialize_i32<V>(self, visitor: V) -> Result<V::Value, DeError>
        where
            V: Visitor<'de>,
            requires self.ok(),
        { let mut self__ = self;
            // No need to unescape because valid integer representations cannot be escaped
            let text = self__.read_string()?;
            let ghost tv = cow_chars(text);
            match parse_(&text) {
                Ok(number) => visitor.visit_i32(number),
                Err(_) => match text {
                    Cow::Borrowed(t) => visit_str_is(Ghost(tv), visitor, t),
                    Cow::Owned(t) => visit_string_is(Ghost(tv), visitor, t),
                }
            }
        }
//@end
//@extract de::map::MapValueDeserializer::deserialize_i64 | src/de/map.rs :: impl<'de, 'd, 'm, R, E> de::Deserializer<'de> for MapValueDeserializer<'de, 'd, 'm, R, E> where R: XmlRead<'de>, E: EntityResolver, :: invoke deserialize_primitives :: invoke deserialize_num :: fn deserialize_i64 | serves=C07,C14 features=serialize macro_files=src/de/mod.rs
//@rewrite visitor.visit_str( ==> visit_str_is(Ghost(tv), visitor, 
//@rewrite visitor.visit_string( ==> visit_string_is(Ghost(tv), visitor, 
//@rewrite-opt Self::Error ==> DeError
//@rewrite text.parse() ==> parse_(&text)
        fn deserialize_i64<V>(self, visitor: V) -> Result<V::Value, DeError>
        where
            V: Visitor<'de>,
            requires self.ok(),
        { let mut self__ = self;
            // No need to unescape because valid integer representations cannot be escaped
            let text = self__.read_string()?;
            let ghost tv = cow_chars(text);
            match parse_(&text) {
                Ok(number) => visitor.visit_i64(number),
                Err(_) => match text {
                    Cow::Borrowed(t) => visit_str_is(Ghost(tv), visitor, t),
                    Cow::Owned(t) => visit_string_is(Ghost(tv), visitor, t),
                }
            }
        }
//@end
//@extract de::map::MapValueDeserializer::deserialize_u8 | src/de/map.rs :: impl<'de, 'd, 'm, R, E> de::Deserializer<'de> for MapValueDeserializer<'de, 'd, 'm, R, E> where R: XmlRead<'de>, E: EntityResolver, :: invoke deserialize_primitives :: invoke deserialize_num :: fn deserialize_u8 | serves=C07,C14 features=serialize macro_files=src/de/mod.rs
//@rewrite visitor.visit_str( ==> visit_str_is(Ghost(tv), visitor, 
//@rewrite visitor.visit_string( ==> visit_string_is(Ghost(tv), visitor, 
//@rewrite-opt Self::Error ==> DeError
//@rewrite text.parse() ==> parse_(&text)
        fn deserialize_u8<V>(self, visitor: V) -> Result<V::Value, DeError>
        where
            V: Visitor<'de>,
            requires self.ok(),
        { let mut self__ = self;
            // No need to unescape because valid integer representations cannot be escaped
            let text = self__.read_string()?;
            let ghost tv = cow_chars(text);
            match parse_(&text) {
                Ok(number) => visitor.visit_u8(number),
                Err(_) => match text {
                    Cow::Borrowed(t) => visit_str_is(Ghost(tv), visitor, t),
                    Cow::Owned(t) => visit_string_is(Ghost(tv), visitor, t),
                }
            }
        }
//@end
//@extract de::map::MapValueDeserializer::deserialize_u16 | src/de/map.rs :: impl<'de, 'd, 'm, R, E> de::Deserializer<'de> for MapValueDeserializer<'de, 'd, 'm, R, E> where R: XmlRead<'de>, E: EntityResolver, :: invoke deserialize_primitives :: invoke deserialize_num :: fn deserialize_u16 | serves=C07,C14 features=serialize macro_files=src/de/mod.rs
//@rewrite visitor.visit_str( ==> visit_str_is(Ghost(tv), visitor, 
//@rewrite visitor.visit_string( ==> visit_string_is(Ghost(tv), visitor, 
//@rewrite-opt Self::Error ==> DeError
//@rewrite text.parse() ==> parse_(&text)
        fn deserialize_u16<V>(self, visitor: V) -> Result<V::Value, DeError>
        where
            V: Visitor<'de>,
            requires self.ok(),
        { let mut self__ = self;
            // No need to unescape because valid integer representations cannot be escaped
            let text = self__.read_string()?;
            let ghost tv = cow_chars(text);
            match parse_(&text) {
                Ok(number) => visitor.visit_u16(number),
                Err(_) => match text {
                    Cow::Borrowed(t) => visit_str_is(Ghost(tv), visitor, t),
                    Cow::Owned(t) => visit_string_is(Ghost(tv), visitor, t),
                }
            }
        }
//@end
//@extract de::map::MapValueDeserializer::deserialize_u32 | src/de/map.rs :: impl<'de, 'd, 'm, R, E> de::Deserializer<'de> for MapValueDeserializer<'de, 'd, 'm, R, E> where R: XmlRead<'de>, E: EntityResolver, :: invoke deserialize_primitives :: invoke deserialize_num :: fn deserialize_u32 | serves=C07,C14 features=serialize macro_files=src/de/mod.rs
//@rewrite visitor.visit_str( ==> visit_str_is(Ghost(tv), visitor, 
//@rewrite visitor.visit_string( ==> visit_string_is(Ghost(tv), visitor, 
//@rewrite-opt Self::Error ==> DeError
//@rewrite text.parse() ==> parse_(&text)
        fn deserialize_u32<V>(self, visitor: V) -> Result<V::Value, DeError>
        where
            V: Visitor<'de>,
            requires self.ok(),
        { let mut self__ = self;
            // No need to unescape because valid integer representations cannot be escaped
            let text = self__.read_string()?;
            let ghost tv = cow_chars(text);
            match parse_(&text) {
                Ok(number) => visitor.visit_u32(number),
                Err(_) => match text {
                    Cow::Borrowed(t) => visit_str_is(Ghost(tv), visitor, t),
                    Cow::Owned(t) => visit_string_is(Ghost(tv), visitor, t),
                }
            }
        }
//@end
//@extract de::map::MapValueDeserializer::deserialize_u64 | src/de/map.rs :: impl<'de, 'd, 'm, R, E> de::Deserializer<'de> for MapValueDeserializer<'de, 'd, 'm, R, E> where R: XmlRead<'de>, E: EntityResolver, :: invoke deserialize_primitives :: invoke deserialize_num :: fn deserialize_u64 | serves=C07,C14 features=serialize macro_files=src/de/mod.rs
//@rewrite visitor.visit_str( ==> visit_str_is(Ghost(tv), visitor, 
//@rewrite visitor.visit_string( ==> visit_string_is(Ghost(tv), visitor, 
//@rewrite-opt Self::Error ==> DeError
//@rewrite text.parse() ==> parse_(&text)
        fn deserialize_u64<V>(self, visitor: V) -> Result<V::Value, DeError>
        where
            V: Visitor<'de>,
            requires self.ok(),
        { let mut self__ = self;
            // No need to unescape because valid integer representations cannot be escaped
            let text = self__.read_string()?;
            let ghost tv = cow_chars(text);
            match parse_(&text) {
                Ok(number) => visitor.visit_u64(number),
                Err(_) => match text {
                    Cow::Borrowed(t) => visit_str_is(Ghost(tv), visitor, t),
                    Cow::Owned(t) => visit_string_is(Ghost(tv), visitor, t),
                }
            }
        }
//@end
//@extract de::map::MapValueDeserializer::deserialize_f32 | src/de/map.rs :: impl<'de, 'd, 'm, R, E> de::Deserializer<'de> for MapValueDeserializer<'de, 'd, 'm, R, E> where R: XmlRead<'de>, E: EntityResolver, :: invoke deserialize_primitives :: invoke deserialize_num :: fn deserialize_f32 | serves=C07,C14 features=serialize macro_files=src/de/mod.rs
//@rewrite visitor.visit_str( ==> visit_str_is(Ghost(tv), visitor, 
//@rewrite visitor.visit_string( ==> visit_string_is(Ghost(tv), visitor, 
//@rewrite-opt Self::Error ==> DeError
//@rewrite text.parse() ==> parse_(&text)
        fn deserialize_f32<V>(self, visitor: V) -> Result<V::Value, DeError>
        where
            V: Visitor<'de>,
            requires self.ok(),
        { let mut self__ = self;
            // No need to unescape because valid integer representations cannot be escaped
            let text = self__.read_string()?;
            let ghost tv = cow_chars(text);
            match parse_(&text) {
                Ok(number) => visitor.visit_f32(number),
                Err(_) => match text {
                    Cow::Borrowed(t) => visit_str_is(Ghost(tv), visitor, t),
                    Cow::Owned(t) => visit_string_is(Ghost(tv), visitor, t),
                }
            }
        }
//@end
//@extract de::map::MapValueDeserializer::deserialize_f64 | src/de/map.rs :: impl<'de, 'd, 'm, R, E> de::Deserializer<'de> for MapValueDeserializer<'de, 'd, 'm, R, E> where R: XmlRead<'de>, E: EntityResolver, :: invoke deserialize_primitives :: invoke deserialize_num :: fn deserialize_f64 | serves=C07,C14 features=serialize macro_files=src/de/mod.rs
//@rewrite visitor.visit_str( ==> visit_str_is(Ghost(tv), visitor, 
//@rewrite visitor.visit_string( ==> visit_string_is(Ghost(tv), visitor, 
//@rewrite-opt Self::Error ==> DeError
//@rewrite text.parse() ==> parse_(&text)
        fn deserialize_f64<V>(self, visitor: V) -> Result<V::Value, DeError>
        where
            V: Visitor<'de>,
            requires self.ok(),
        { let mut self__ = self;
            // No need to unescape because valid integer representations cannot be escaped
            let text = self__.read_string()?;
            let ghost tv = cow_chars(text);
            match parse_(&text) {
                Ok(number) => visitor.visit_f64(number),
                Err(_) => match text {
                    Cow::Borrowed(t) => visit_str_is(Ghost(tv), visitor, t),
                    Cow::Owned(t) => visit_string_is(Ghost(tv), visitor, t),
                }
            }
        }
//@end
//@extract de::map::MapValueDeserializer::deserialize_char | src/de/map.rs :: impl<'de, 'd, 'm, R, E> de::Deserializer<'de> for MapValueDeserializer<'de, 'd, 'm, R, E> where R: XmlRead<'de>, E: EntityResolver, :: invoke deserialize_primitives :: fn deserialize_char | serves=C07 features=serialize macro_files=src/de/mod.rs
//@rewrite-opt Self::Error ==> DeError
        fn deserialize_char<V>(self, visitor: V) -> Result<V::Value, DeError>
        where
            V: Visitor<'de>,
            requires self.ok(),
        {
            self.deserialize_str(visitor)
        }
//@end
//@extract de::map::MapValueDeserializer::deserialize_str | src/de/map.rs :: impl<'de, 'd, 'm, R, E> de::Deserializer<'de> for MapValueDeserializer<'de, 'd, 'm, R, E> where R: XmlRead<'de>, E: EntityResolver, :: invoke deserialize_primitives :: fn deserialize_str | serves=C07,C14 features=serialize macro_files=src/de/mod.rs
//@rewrite visitor.visit_borrowed_str( ==> visit_borrowed_str_is(Ghost(tv), visitor, 
//@rewrite visitor.visit_string( ==> visit_string_is(Ghost(tv), visitor, 
//@rewrite-opt Self::Error ==> DeError
        fn deserialize_str<V>(self, visitor: V) -> Result<V::Value, DeError>
        where
            V: Visitor<'de>,
            requires self.ok(),
        { let mut self__ = self;
            let text = self__.read_string()?;
            let ghost tv = cow_chars(text);
            match text {
                Cow::Borrowed(string) => visit_borrowed_str_is(Ghost(tv), visitor, string),
                Cow::Owned(string) => visit_string_is(Ghost(tv), visitor, string),
            }
        }
//@end
//@extract de::map::MapValueDeserializer::deserialize_string | src/de/map.rs :: impl<'de, 'd, 'm, R, E> de::Deserializer<'de> for MapValueDeserializer<'de, 'd, 'm, R, E> where R: XmlRead<'de>, E: EntityResolver, :: invoke deserialize_primitives :: fn deserialize_string | serves=C07 features=serialize macro_files=src/de/mod.rs
//@rewrite-opt Self::Error ==> DeError
        fn deserialize_string<V>(self, visitor: V) -> Result<V::Value, DeError>
        where
            V: Visitor<'de>,
            requires self.ok(),
        {
            self.deserialize_str(visitor)
        }
//@end
//@extract de::map::MapValueDeserializer::deserialize_bytes | src/de/map.rs :: impl<'de, 'd, 'm, R, E> de::Deserializer<'de> for MapValueDeserializer<'de, 'd, 'm, R, E> where R: XmlRead<'de>, E: EntityResolver, :: invoke deserialize_primitives :: fn deserialize_bytes | serves=C07 features=serialize macro_files=src/de/mod.rs
//@rewrite-opt Self::Error ==> DeError
        fn deserialize_bytes<V>(self, visitor: V) -> Result<V::Value, DeError>
        where
            V: Visitor<'de>,
            requires self.ok(),
        {
            self.deserialize_any(visitor)
        }
//@end
//@extract de::map::MapValueDeserializer::deserialize_byte_buf | src/de/map.rs :: impl<'de, 'd, 'm, R, E> de::Deserializer<'de> for MapValueDeserializer<'de, 'd, 'm, R, E> where R: XmlRead<'de>, E: EntityResolver, :: invoke deserialize_primitives :: fn deserialize_byte_buf | serves=C07 features=serialize macro_files=src/de/mod.rs
//@rewrite-opt Self::Error ==> DeError
        fn deserialize_byte_buf<V>(self, visitor: V) -> Result<V::Value, DeError>
        where
            V: Visitor<'de>,
            requires self.ok(),
        {
            self.deserialize_bytes(visitor)
        }
//@end
//@extract de::map::MapValueDeserializer::deserialize_unit_struct | src/de/map.rs :: impl<'de, 'd, 'm, R, E> de::Deserializer<'de> for MapValueDeserializer<'de, 'd, 'm, R, E> where R: XmlRead<'de>, E: EntityResolver, :: invoke deserialize_primitives :: fn deserialize_unit_struct | serves=C07 features=serialize macro_files=src/de/mod.rs
//@rewrite-opt Self::Error ==> DeError
        fn deserialize_unit_struct<V>(
            self,
            _name: &'static str,
            visitor: V,
        ) -> Result<V::Value, DeError>
        where
            V: Visitor<'de>,
            requires self.ok(),
        {
            self.deserialize_unit(visitor)
        }
//@end
//@extract de::map::MapValueDeserializer::deserialize_tuple | src/de/map.rs :: impl<'de, 'd, 'm, R, E> de::Deserializer<'de> for MapValueDeserializer<'de, 'd, 'm, R, E> where R: XmlRead<'de>, E: EntityResolver, :: invoke deserialize_primitives :: fn deserialize_tuple | serves=C07 features=serialize macro_files=src/de/mod.rs
//@rewrite-opt Self::Error ==> DeError
        fn deserialize_tuple<V>(self, _len: usize, visitor: V) -> Result<V::Value, DeError>
        where
            V: Visitor<'de>,
            requires self.ok(),
        {
            self.deserialize_seq(visitor)
        }
//@end
//@extract de::map::MapValueDeserializer::deserialize_tuple_struct | src/de/map.rs :: impl<'de, 'd, 'm, R, E> de::Deserializer<'de> for MapValueDeserializer<'de, 'd, 'm, R, E> where R: XmlRead<'de>, E: EntityResolver, :: invoke deserialize_primitives :: fn deserialize_tuple_struct | serves=C07 features=serialize macro_files=src/de/mod.rs
//@rewrite-opt Self::Error ==> DeError
        fn deserialize_tuple_struct<V>(
            self,
            _name: &'static str,
            len: usize,
            visitor: V,
        ) -> Result<V::Value, DeError>
        where
            V: Visitor<'de>,
            requires self.ok(),
        {
            self.deserialize_tuple(len, visitor)
        }
//@end
//@extract de::map::MapValueDeserializer::deserialize_map | src/de/map.rs :: impl<'de, 'd, 'm, R, E> de::Deserializer<'de> for MapValueDeserializer<'de, 'd, 'm, R, E> where R: XmlRead<'de>, E: EntityResolver, :: invoke deserialize_primitives :: fn deserialize_map | serves=C07 features=serialize macro_files=src/de/mod.rs
//@rewrite-opt Self::Error ==> DeError
        fn deserialize_map<V>(self, visitor: V) -> Result<V::Value, DeError>
        where
            V: Visitor<'de>,
            requires self.ok(),
        {
            self.deserialize_struct("", &[], visitor)
        }
//@end
//@extract de::map::MapValueDeserializer::deserialize_identifier | src/de/map.rs :: impl<'de, 'd, 'm, R, E> de::Deserializer<'de> for MapValueDeserializer<'de, 'd, 'm, R, E> where R: XmlRead<'de>, E: EntityResolver, :: invoke deserialize_primitives :: fn deserialize_identifier | serves=C07 features=serialize macro_files=src/de/mod.rs
//@rewrite-opt Self::Error ==> DeError
        fn deserialize_identifier<V>(self, visitor: V) -> Result<V::Value, DeError>
        where
            V: Visitor<'de>,
            requires self.ok(),
        {
            self.deserialize_str(visitor)
        }
//@end
//@extract de::map::MapValueDeserializer::deserialize_ignored_any | src/de/map.rs :: impl<'de, 'd, 'm, R, E> de::Deserializer<'de> for MapValueDeserializer<'de, 'd, 'm, R, E> where R: XmlRead<'de>, E: EntityResolver, :: invoke deserialize_primitives :: fn deserialize_ignored_any | serves=C07 features=serialize macro_files=src/de/mod.rs
//@rewrite-opt Self::Error ==> DeError
        fn deserialize_ignored_any<V>(self, visitor: V) -> Result<V::Value, DeError>
        where
            V: Visitor<'de>,
            requires self.ok(),
        {
            self.deserialize_unit(visitor)
        }
//@end
}
// ---- C07: the forwarding network of the deserializer of one element of a mixed sequence (src/de/map.rs, ElementDeserializer) ----
impl<'de, 'd, R, E> ElementDeserializer<'de, 'd, R, E>
where
    R: XmlRead<'de>,
    E: EntityResolver,
{
//@extract de::map::ElementDeserializer::read_string | src/de/map.rs :: impl<'de, 'd, R, E> ElementDeserializer<'de, 'd, R, E> where R: XmlRead<'de>, E: EntityResolver, :: fn read_string | serves=C07 features=serialize
//@rewrite-opt Self::Error ==> DeError
    fn read_string(&mut self) -> Result<Cow<'de, str>, DeError>
        requires old(self).de_ok(),
    {
        self.de.read_text(self.start.name())
    }
//@end
//@extract de::map::ElementDeserializer::deserialize_unit | src/de/map.rs :: impl<'de, 'd, R, E> de::Deserializer<'de> for ElementDeserializer<'de, 'd, R, E> where R: XmlRead<'de>, E: EntityResolver, :: fn deserialize_unit | serves=C07 features=serialize
//@rewrite-opt Self::Error ==> DeError
    fn deserialize_unit<V>(self, visitor: V) -> Result<V::Value, DeError>
    where
        V: Visitor<'de>,
        requires self.de_ok(),
    {
        // Consume subtree
        self.de.read_to_end(self.start.name())?;
        visitor.visit_unit()
    }
//@end
//@extract de::map::ElementDeserializer::deserialize_option | src/de/map.rs :: impl<'de, 'd, R, E> de::Deserializer<'de> for ElementDeserializer<'de, 'd, R, E> where R: XmlRead<'de>, E: EntityResolver, :: fn deserialize_option | serves=C07 features=serialize
//@rewrite-opt Self::Error ==> DeError
    fn deserialize_option<V>(self, visitor: V) -> Result<V::Value, DeError>
    where
        V: Visitor<'de>,
        requires self.de_ok(),
    {
        visitor.visit_some(self)
    }
//@end
//@extract de::map::ElementDeserializer::deserialize_newtype_struct | src/de/map.rs :: impl<'de, 'd, R, E> de::Deserializer<'de> for ElementDeserializer<'de, 'd, R, E> where R: XmlRead<'de>, E: EntityResolver, :: fn deserialize_newtype_struct | serves=C07 features=serialize
//@rewrite-opt Self::Error ==> DeError
    /// Forwards deserialization of the inner type. Always calls [`Visitor::visit_newtype_struct`]
    /// with this deserializer.
    fn deserialize_newtype_struct<V>(
        self,
        _name: &'static str,
        visitor: V,
    ) -> Result<V::Value, DeError>
    where
        V: Visitor<'de>,
        requires self.de_ok(),
    {
        visitor.visit_newtype_struct(self)
    }
//@end
//@extract de::map::ElementDeserializer::deserialize_seq | src/de/map.rs :: impl<'de, 'd, R, E> de::Deserializer<'de> for ElementDeserializer<'de, 'd, R, E> where R: XmlRead<'de>, E: EntityResolver, :: fn deserialize_seq | serves=C07 features=serialize
//@rewrite-opt Self::Error ==> DeError
    /// This method deserializes a sequence inside of element that itself is a
    /// sequence element:
    ///
    /// ```xml
    /// <>
    ///   ...
    ///   <self>inner sequence</self>
    ///   <self>inner sequence</self>
    ///   <self>inner sequence</self>
    ///   ...
    /// </>
    /// ```
    fn deserialize_seq<V>(self, visitor: V) -> Result<V::Value, DeError>
    where
        V: Visitor<'de>,
        requires self.de_ok(),
    { let mut self__ = self;
        let text = self__.read_string()?;
        SimpleTypeDeserializer::from_text(text).deserialize_seq(visitor)
    }
//@end
//@extract de::map::ElementDeserializer::deserialize_struct | src/de/map.rs :: impl<'de, 'd, R, E> de::Deserializer<'de> for ElementDeserializer<'de, 'd, R, E> where R: XmlRead<'de>, E: EntityResolver, :: fn deserialize_struct | serves=C07 features=serialize
//@rewrite-opt Self::Error ==> DeError
    fn deserialize_struct<V>(
        self,
        _name: &'static str,
        fields: &'static [&'static str],
        visitor: V,
    ) -> Result<V::Value, DeError>
    where
        V: Visitor<'de>,
        requires self.de_ok(),
    {
        visitor.visit_map(ElementMapAccess::new(self.de, self.start, fields)?)
    }
//@end
//@extract de::map::ElementDeserializer::deserialize_enum | src/de/map.rs :: impl<'de, 'd, R, E> de::Deserializer<'de> for ElementDeserializer<'de, 'd, R, E> where R: XmlRead<'de>, E: EntityResolver, :: fn deserialize_enum | serves=C07 features=serialize
//@rewrite-opt Self::Error ==> DeError
    fn deserialize_enum<V>(
        self,
        _name: &'static str,
        _variants: &'static [&'static str],
        visitor: V,
    ) -> Result<V::Value, DeError>
    where
        V: Visitor<'de>,
        requires self.de_ok(),
    {
        visitor.visit_enum(self)
    }
//@end
//@extract de::map::ElementDeserializer::deserialize_any | src/de/map.rs :: impl<'de, 'd, R, E> de::Deserializer<'de> for ElementDeserializer<'de, 'd, R, E> where R: XmlRead<'de>, E: EntityResolver, :: fn deserialize_any | serves=C07 features=serialize
//@rewrite-opt Self::Error ==> DeError
    fn deserialize_any<V>(self, visitor: V) -> Result<V::Value, DeError>
    where
        V: Visitor<'de>,
        requires self.de_ok(),
    {
        self.deserialize_map(visitor)
    }
//@end
//@extract de::map::ElementDeserializer::deserialize_bool | src/de/map.rs :: impl<'de, 'd, R, E> de::Deserializer<'de> for ElementDeserializer<'de, 'd, R, E> where R: XmlRead<'de>, E: EntityResolver, :: invoke deserialize_primitives :: fn deserialize_bool | serves=C07 features=serialize macro_files=src/de/mod.rs
//@rewrite-opt Self::Error ==> DeError
        fn deserialize_bool<V>(self, visitor: V) -> Result<V::Value, DeError>
        where
            V: Visitor<'de>,
            requires self.de_ok(),
        { let mut self__ = self;
            let text = match self__.read_string()? {
                Cow::Borrowed(s) => CowRef::Input(s),
                Cow::Owned(s) => CowRef::Owned(s),
            };
            text.deserialize_bool(visitor)
        }
//@end
//@extract de::map::ElementDeserializer::deserialize_i8 | src/de/map.rs :: impl<'de, 'd, R, E> de::Deserializer<'de> for ElementDeserializer<'de, 'd, R, E> where R: XmlRead<'de>, E: EntityResolver, :: invoke deserialize_primitives :: invoke deserialize_num :: fn deserialize_i8 | serves=C07,C14 features=serialize macro_files=src/de/mod.rs
//@rewrite visitor.visit_str( ==> visit_str_is(Ghost(tv), visitor, 
//@rewrite visitor.visit_string( ==> visit_string_is(Ghost(tv), visitor, 
//@rewrite-opt Self::Error ==> DeError
//@rewrite text.parse() ==> parse_(&text)
        fn deserialize_i8<V>(self, visitor: V) -> Result<V::Value, DeError>
        where
            V: Visitor<'de>,
            requires self.de_ok(),
        { let mut self__ = self;
            // No need to unescape because valid integer representations cannot be escaped
            let text = self__.read_string()?;
            let ghost tv = cow_chars(text);
            match parse_(&text) {
                Ok(number) => visitor.visit_i8(number),
                Err(_) => match text {
                    Cow::Borrowed(t) => visit_str_is(Ghost(tv), visitor, t),
                    Cow::Owned(t) => visit_string_is(Ghost(tv), visitor, t),
                }
            }
        }
//@end
//@extract de::map::ElementDeserializer::deserialize_i16 | src/de/map.rs :: impl<'de, 'd, R, E> de::Deserializer<'de> for ElementDeserializer<'de, 'd, R, E> where R: XmlRead<'de>, E: EntityResolver, :: invoke deserialize_primitives :: invoke deserialize_num :: fn deserialize_i16 | serves=C07,C14 features=serialize macro_files=src/de/mod.rs
//@rewrite visitor.visit_str( ==> visit_str_is(Ghost(tv), visitor, 
//@rewrite visitor.visit_string( ==> visit_string_is(Ghost(tv), visitor, 
//@rewrite-opt Self::Error ==> DeError
//@rewrite text.parse() ==> parse_(&text)
        fn deserialize_i16<V>(self, visitor: V) -> Result<V::Value, DeError>
        where
            V: Visitor<'de>,
            requires self.de_ok(),
        { let mut self__ = self;
            // No need to unescape because valid integer representations cannot be escaped
            let text = self__.read_string()?;
            let ghost tv = cow_chars(text);
            match parse_(&text) {
                Ok(number) => visitor.visit_i16(number),
                Err(_) => match text {
                    Cow::Borrowed(t) => visit_str_is(Ghost(tv), visitor, t),
                    Cow::Owned(t) => visit_string_is(Ghost(tv), visitor, t),
                }
            }
        }
//@end
//@extract de::map::ElementDeserializer::deserialize_i32 | src/de/map.rs :: impl<'de, 'd, R, E> de::Deserializer<'de> for ElementDeserializer<'de, 'd, R, E> where R: XmlRead<'de>, E: EntityResolver, :: invoke deserialize_primitives :: invoke deserialize_num :: fn deserialize_i32 | serves=C07,C14 features=serialize macro_files=src/de/mod.rs
//@rewrite visitor.visit_str( ==> visit_str_is(Ghost(tv), visitor, 
//@rewrite visitor.visit_string( ==> visit_string_is(Ghost(tv), visitor, 
//@rewrite-opt Self::Error ==> DeError
//@rewrite text.parse() ==> parse_(&text)
        fn deserialize_i32<V>(self, visitor: V) -> Result<V::Value, DeError>
        where
            V: Visitor<'de>,
            requires self.de_ok(),
        { let mut self__ = self;
            // No need to unescape because valid integer representations cannot be escaped
            let text = self__.read_string()?;
            let ghost tv = cow_chars(text);
            match parse_(&text) {
                Ok(number) => visitor.visit_i32(number),
                Err(_) => match text {
                    Cow::Borrowed(t) => visit_str_is(Ghost(tv), visitor, t),
                    Cow::Owned(t) => visit_string_is(Ghost(tv), visitor, t),
                }
            }
        }
//@end
//@extract de::map::ElementDeserializer::deserialize_i64 | src/de/map.rs :: impl<'de, 'd, R, E> de::Deserializer<'de> for ElementDeserializer<'de, 'd, R, E> where R: XmlRead<'de>, E: EntityResolver, :: invoke deserialize_primitives :: invoke deserialize_num :: fn deserialize_i64 | serves=C07,C14 features=serialize macro_files=src/de/mod.rs
//@rewrite visitor.visit_str( ==> visit_str_is(Ghost(tv), visitor, 
//@rewrite visitor.visit_string( ==> visit_string_is(Ghost(tv), visitor, 
//@rewrite-opt Self::Error ==> DeError
//@rewrite text.parse() ==> parse_(&text)
        fn deserialize_i64<V>(self, visitor: V) -> Result<V::Value, DeError>
        where
            V: Visitor<'de>,
            requires self.de_ok(),
        { let mut self__ = self;
            // No need to unescape because valid integer representations cannot be escaped
            let text = self__.read_string()?;
            let ghost tv = cow_chars(text);
            match parse_(&text) {
                Ok(number) => visitor.visit_i64(number),
                Err(_) => match text {
                    Cow::Borrowed(t) => visit_str_is(Ghost(tv), visitor, t),
                    Cow::Owned(t) => visit_string_is(Ghost(tv), visitor, t),
                }
            }
        }
//@end
//@extract de::map::ElementDeserializer::deserialize_u8 | src/de/map.rs :: impl<'de, 'd, R, E> de::Deserializer<'de> for ElementDeserializer<'de, 'd, R, E> where R: XmlRead<'de>, E: EntityResolver, :: invoke deserialize_primitives :: invoke deserialize_num :: fn deserialize_u8 | serves=C07,C14 features=serialize macro_files=src/de/mod.rs
//@rewrite visitor.visit_str( ==> visit_str_is(Ghost(tv), visitor, 
//@rewrite visitor.visit_string( ==> visit_string_is(Ghost(tv), visitor, 
//@rewrite-opt Self::Error ==> DeError
//@rewrite text.parse() ==> parse_(&text)
        fn deserialize_u8<V>(self, visitor: V) -> Result<V::Value, DeError>
        where
            V: Visitor<'de>,
            requires self.de_ok(),
        { let mut self__ = self;
            // No need to unescape because valid integer representations cannot be escaped
            let text = self__.read_string()?;
            let ghost tv = cow_chars(text);
            match parse_(&text) {
                Ok(number) => visitor.visit_u8(number),
                Err(_) => match text {
                    Cow::Borrowed(t) => visit_str_is(Ghost(tv), visitor, t),
                    Cow::Owned(t) => visit_string_is(Ghost(tv), visitor, t),
                }
            }
        }
//@end
//@extract de::map::ElementDeserializer::deserialize_u16 | src/de/map.rs :: impl<'de, 'd, R, E> de::Deserializer<'de> for ElementDeserializer<'de, 'd, R, E> where R: XmlRead<'de>, E: EntityResolver, :: invoke deserialize_primitives :: invoke deserialize_num :: fn deserialize_u16 | serves=C07,C14 features=serialize macro_files=src/de/mod.rs
//@rewrite visitor.visit_str( ==> visit_str_is(Ghost(tv), visitor, 
//@rewrite visitor.visit_string( ==> visit_string_is(Ghost(tv), visitor, 
//@rewrite-opt Self::Error ==> DeError
//@rewrite text.parse() ==> parse_(&text)
        fn deserialize_u16<V>(self, visitor: V) -> Result<V::Value, DeError>
        where
            V: Visitor<'de>,
            requires self.de_ok(),
        { let mut self__ = self;
            // No need to unescape because valid integer representations cannot be escaped
            let text = self__.read_string()?;
            let ghost tv = cow_chars(text);
            match parse_(&text) {
                Ok(number) => visitor.visit_u16(number),
                Err(_) => match text {
                    Cow::Borrowed(t) => visit_str_is(Ghost(tv), visitor, t),
                    Cow::Owned(t) => visit_string_is(Ghost(tv), visitor, t),
                }
            }
        }
//@end
//@extract de::map::ElementDeserializer::deserialize_u32 | src/de/map.rs :: impl<'de, 'd, R, E> de::Deserializer<'de> for ElementDeserializer<'de, 'd, R, E> where R: XmlRead<'de>, E: EntityResolver, :: invoke deserialize_primitives :: invoke deserialize_num :: fn deserialize_u32 | serves=C07,C14 features=serialize macro_files=src/de/mod.rs
//@rewrite visitor.visit_str( ==> visit_str_is(Ghost(tv), visitor, 
//@rewrite visitor.visit_string( ==> visit_string_is(Ghost(tv), visitor, 
//@rewrite-opt Self::Error ==> DeError
//@rewrite text.parse() ==> parse_(&text)
        fn deserialize_u32<V>(self, visitor: V) -> Result<V::Value, DeError>
        where
            V: Visitor<'de>,
            requires self.de_ok(),
        { let mut self__ = self;
            // No need to unescape because valid integer representations cannot be escaped
            let text = self__.read_string()?;
            let ghost tv = cow_chars(text);
            match parse_(&text) {
                Ok(number) => visitor.visit_u32(number),
                Err(_) => match text {
                    Cow::Borrowed(t) => visit_str_is(Ghost(tv), visitor, t),
                    Cow::Owned(t) => visit_string_is(Ghost(tv), visitor, t),
                }
            }
        }
//@end
//@extract de::map::ElementDeserializer::deserialize_u64 | src/de/map.rs :: impl<'de, 'd, R, E> de::Deserializer<'de> for ElementDeserializer<'de, 'd, R, E> where R: XmlRead<'de>, E: EntityResolver, :: invoke deserialize_primitives :: invoke deserialize_num :: fn deserialize_u64 | serves=C07,C14 features=serialize macro_files=src/de/mod.rs
//@rewrite visitor.visit_str( ==> visit_str_is(Ghost(tv), visitor, 
//@rewrite visitor.visit_string( ==> visit_string_is(Ghost(tv), visitor, 
//@rewrite-opt Self::Error ==> DeError
//@rewrite text.parse() ==> parse_(&text)
        fn deserialize_u64<V>(self, visitor: V) -> Result<V::Value, DeError>
        where
            V: Visitor<'de>,
            requires self.de_ok(),
        { let mut self__ = self;
            // No need to unescape because valid integer representations cannot be escaped
            let text = self__.read_string()?;
            let ghost tv = cow_chars(text);
            match parse_(&text) {
                Ok(number) => visitor.visit_u64(number),
                Err(_) => match text {
                    Cow::Borrowed(t) => visit_str_is(Ghost(tv), visitor, t),
                    Cow::Owned(t) => visit_string_is(Ghost(tv), visitor, t),
                }
            }
        }
//@end
//@extract de::map::ElementDeserializer::deserialize_f32 | src/de/map.rs :: impl<'de, 'd, R, E> de::Deserializer<'de> for ElementDeserializer<'de, 'd, R, E> where R: XmlRead<'de>, E: EntityResolver, :: invoke deserialize_primitives :: invoke deserialize_num :: fn deserialize_f32 | serves=C07,C14 features=serialize macro_files=src/de/mod.rs
//@rewrite visitor.visit_str( ==> visit_str_is(Ghost(tv), visitor, 
//@rewrite visitor.visit_string( ==> visit_string_is(Ghost(tv), visitor, 
//@rewrite-opt Self::Error ==> DeError
//@rewrite text.parse() ==> parse_(&text)
        fn deserialize_f32<V>(self, visitor: V) -> Result<V::Value, DeError>
        where
            V: Visitor<'de>,
            requires self.de_ok(),
        { let mut self__ = self;
            // No need to unescape because valid integer representations cannot be escaped
            let text = self__.read_string()?;
            let ghost tv = cow_chars(text);
            match parse_(&text) {
                Ok(number) => visitor.visit_f32(number),
                Err(_) => match text {
                    Cow::Borrowed(t) => visit_str_is(Ghost(tv), visitor, t),
                    Cow::Owned(t) => visit_string_is(Ghost(tv), visitor, t),
                }
            }
        }
//@end
//@extract de::map::ElementDeserializer::deserialize_f64 | src/de/map.rs :: impl<'de, 'd, R, E> de::Deserializer<'de> for ElementDeserializer<'de, 'd, R, E> where R: XmlRead<'de>, E: EntityResolver, :: invoke deserialize_primitives :: invoke deserialize_num :: fn deserialize_f64 | serves=C07,C14 features=serialize macro_files=src/de/mod.rs
//@rewrite visitor.visit_str( ==> visit_str_is(Ghost(tv), visitor, 
//@rewrite visitor.visit_string( ==> visit_string_is(Ghost(tv), visitor, 
//@rewrite-opt Self::Error ==> DeError
//@rewrite text.parse() ==> parse_(&text)
        fn deserialize_f64<V>(self, visitor: V) -> Result<V::Value, DeError>
        where
            V: Visitor<'de>,
            requires self.de_ok(),
        { let mut self__ = self;
            // No need to unescape because valid integer representations cannot be escaped
            let text = self__.read_string()?;
            let ghost tv = cow_chars(text);
            match parse_(&text) {
                Ok(number) => visitor.visit_f64(number),
                Err(_) => match text {
                    Cow::Borrowed(t) => visit_str_is(Ghost(tv), visitor, t),
                    Cow::Owned(t) => visit_string_is(Ghost(tv), visitor, t),
                }
            }
        }
//@end
//@extract de::map::ElementDeserializer::deserialize_char | src/de/map.rs :: impl<'de, 'd, R, E> de::Deserializer<'de> for ElementDeserializer<'de, 'd, R, E> where R: XmlRead<'de>, E: EntityResolver, :: invoke deserialize_primitives :: fn deserialize_char | serves=C07 features=serialize macro_files=src/de/mod.rs
//@rewrite-opt Self::Error ==> DeError
        fn deserialize_char<V>(self, visitor: V) -> Result<V::Value, DeError>
        where
            V: Visitor<'de>,
            requires self.de_ok(),
        {
            self.deserialize_str(visitor)
        }
//@end
//@extract de::map::ElementDeserializer::deserialize_str | src/de/map.rs :: impl<'de, 'd, R, E> de::Deserializer<'de> for ElementDeserializer<'de, 'd, R, E> where R: XmlRead<'de>, E: EntityResolver, :: invoke deserialize_primitives :: fn deserialize_str | serves=C07,C14 features=serialize macro_files=src/de/mod.rs
//@rewrite visitor.visit_borrowed_str( ==> visit_borrowed_str_is(Ghost(tv), visitor, 
//@rewrite visitor.visit_string( ==> visit_string_is(Ghost(tv), visitor, 
//@rewrite-opt Self::Error ==> DeError
        fn deserialize_str<V>(self, visitor: V) -> Result<V::Value, DeError>
        where
            V: Visitor<'de>,
            requires self.de_ok(),
        { let mut self__ = self;
            let text = self__.read_string()?;
            let ghost tv = cow_chars(text);
            match text {
                Cow::Borrowed(string) => visit_borrowed_str_is(Ghost(tv), visitor, string),
                Cow::Owned(string) => visit_string_is(Ghost(tv), visitor, string),
            }
        }
//@end
//@extract de::map::ElementDeserializer::deserialize_string | src/de/map.rs :: impl<'de, 'd, R, E> de::Deserializer<'de> for ElementDeserializer<'de, 'd, R, E> where R: XmlRead<'de>, E: EntityResolver, :: invoke deserialize_primitives :: fn deserialize_string | serves=C07 features=serialize macro_files=src/de/mod.rs
//@rewrite-opt Self::Error ==> DeError
        fn deserialize_string<V>(self, visitor: V) -> Result<V::Value, DeError>
        where
            V: Visitor<'de>,
            requires self.de_ok(),
        {
            self.deserialize_str(visitor)
        }
//@end
//@extract de::map::ElementDeserializer::deserialize_bytes | src/de/map.rs :: impl<'de, 'd, R, E> de::Deserializer<'de> for ElementDeserializer<'de, 'd, R, E> where R: XmlRead<'de>, E: EntityResolver, :: invoke deserialize_primitives :: fn deserialize_bytes | serves=C07 features=serialize macro_files=src/de/mod.rs
//@rewrite-opt Self::Error ==> DeError
        fn deserialize_bytes<V>(self, visitor: V) -> Result<V::Value, DeError>
        where
            V: Visitor<'de>,
            requires self.de_ok(),
        {
            self.deserialize_any(visitor)
        }
//@end
//@extract de::map::ElementDeserializer::deserialize_byte_buf | src/de/map.rs :: impl<'de, 'd, R, E> de::Deserializer<'de> for ElementDeserializer<'de, 'd, R, E> where R: XmlRead<'de>, E: EntityResolver, :: invoke deserialize_primitives :: fn deserialize_byte_buf | serves=C07 features=serialize macro_files=src/de/mod.rs
//@rewrite-opt Self::Error ==> DeError
        fn deserialize_byte_buf<V>(self, visitor: V) -> Result<V::Value, DeError>
        where
            V: Visitor<'de>,
            requires self.de_ok(),
        {
            self.deserialize_bytes(visitor)
        }
//@end
//@extract de::map::ElementDeserializer::deserialize_unit_struct | src/de/map.rs :: impl<'de, 'd, R, E> de::Deserializer<'de> for ElementDeserializer<'de, 'd, R, E> where R: XmlRead<'de>, E: EntityResolver, :: invoke deserialize_primitives :: fn deserialize_unit_struct | serves=C07 features=serialize macro_files=src/de/mod.rs
//@rewrite-opt Self::Error ==> DeError
        fn deserialize_unit_struct<V>(
            self,
            _name: &'static str,
            visitor: V,
        ) -> Result<V::Value, DeError>
        where
            V: Visitor<'de>,
            requires self.de_ok(),
        {
            self.deserialize_unit(visitor)
        }
//@end
//@extract de::map::ElementDeserializer::deserialize_tuple | src/de/map.rs :: impl<'de, 'd, R, E> de::Deserializer<'de> for ElementDeserializer<'de, 'd, R, E> where R: XmlRead<'de>, E: EntityResolver, :: invoke deserialize_primitives :: fn deserialize_tuple | serves=C07 features=serialize macro_files=src/de/mod.rs
//@rewrite-opt Self::Error ==> DeError
        fn deserialize_tuple<V>(self, _len: usize, visitor: V) -> Result<V::Value, DeError>
        where
            V: Visitor<'de>,
            requires self.de_ok(),
        {
            self.deserialize_seq(visitor)
        }
//@end
//@extract de::map::ElementDeserializer::deserialize_tuple_struct | src/de/map.rs :: impl<'de, 'd, R, E> de::Deserializer<'de> for ElementDeserializer<'de, 'd, R, E> where R: XmlRead<'de>, E: EntityResolver, :: invoke deserialize_primitives :: fn deserialize_tuple_struct | serves=C07 features=serialize macro_files=src/de/mod.rs
//@rewrite-opt Self::Error ==> DeError
        fn deserialize_tuple_struct<V>(
            self,
            _name: &'static str,
            len: usize,
            visitor: V,
        ) -> Result<V::Value, DeError>
        where
            V: Visitor<'de>,
            requires self.de_ok(),
        {
            self.deserialize_tuple(len, visitor)
        }
//@end
//@extract de::map::ElementDeserializer::deserialize_map | src/de/map.rs :: impl<'de, 'd, R, E> de::Deserializer<'de> for ElementDeserializer<'de, 'd, R, E> where R: XmlRead<'de>, E: EntityResolver, :: invoke deserialize_primitives :: fn deserialize_map | serves=C07 features=serialize macro_files=src/de/mod.rs
//@rewrite-opt Self::Error ==> DeError
        fn deserialize_map<V>(self, visitor: V) -> Result<V::Value, DeError>
        where
            V: Visitor<'de>,
            requires self.de_ok(),
        {
            self.deserialize_struct("", &[], visitor)
        }
//@end
//@extract de::map::ElementDeserializer::deserialize_identifier | src/de/map.rs :: impl<'de, 'd, R, E> de::Deserializer<'de> for ElementDeserializer<'de, 'd, R, E> where R: XmlRead<'de>, E: EntityResolver, :: invoke deserialize_primitives :: fn deserialize_identifier | serves=C07 features=serialize macro_files=src/de/mod.rs
//@rewrite-opt Self::Error ==> DeError
        fn deserialize_identifier<V>(self, visitor: V) -> Result<V::Value, DeError>
        where
            V: Visitor<'de>,
            requires self.de_ok(),
        {
            self.deserialize_str(visitor)
        }
//@end
//@extract de::map::ElementDeserializer::deserialize_ignored_any | src/de/map.rs :: impl<'de, 'd, R, E> de::Deserializer<'de> for ElementDeserializer<'de, 'd, R, E> where R: XmlRead<'de>, E: EntityResolver, :: invoke deserialize_primitives :: fn deserialize_ignored_any | serves=C07 features=serialize macro_files=src/de/mod.rs
//@rewrite-opt Self::Error ==> DeError
        fn deserialize_ignored_any<V>(self, visitor: V) -> Result<V::Value, DeError>
        where
            V: Visitor<'de>,
            requires self.de_ok(),
        {
            self.deserialize_unit(visitor)
        }
//@end
//@extract de::map::ElementDeserializer::variant_seed | src/de/map.rs :: impl<'de, 'd, R, E> de::EnumAccess<'de> for ElementDeserializer<'de, 'd, R, E> where R: XmlRead<'de>, E: EntityResolver, :: fn variant_seed | serves=C07 features=serialize
//@rewrite-opt Self::Error ==> DeError
//@rewrite-opt Self::Variant ==> Self
//@rewrite self.start.raw_name() ==> self.start.name().0
    fn variant_seed<V>(self, seed: V) -> (r: Result<(V::Value, Self), DeError>)
    where
        V: DeserializeSeed<'de>,
        requires self.de_ok(),
        ensures r matches Ok(p) ==> p.1.de_ok(),
    {
        let name = seed.deserialize(QNameDeserializer::from_elem(
            self.start.name().0,
            self.de.reader.decoder(),
        )?)?;
        Ok((name, self))
    }
//@end
//@extract de::map::ElementDeserializer::unit_variant | src/de/map.rs :: impl<'de, 'd, R, E> de::VariantAccess<'de> for ElementDeserializer<'de, 'd, R, E> where R: XmlRead<'de>, E: EntityResolver, :: fn unit_variant | serves=C07 features=serialize
//@rewrite-opt Self::Error ==> DeError
    fn unit_variant(self) -> Result<(), DeError>
        requires self.de_ok(),
    {
        // Consume subtree
        self.de.read_to_end(self.start.name())
    }
//@end
//@extract de::map::ElementDeserializer::newtype_variant_seed | src/de/map.rs :: impl<'de, 'd, R, E> de::VariantAccess<'de> for ElementDeserializer<'de, 'd, R, E> where R: XmlRead<'de>, E: EntityResolver, :: fn newtype_variant_seed | serves=C07 features=serialize
//@rewrite-opt Self::Error ==> DeError
    fn newtype_variant_seed<T>(self, seed: T) -> Result<T::Value, DeError>
    where
        T: DeserializeSeed<'de>,
        requires self.de_ok(),
    {
        seed.deserialize(self)
    }
//@end
//@extract de::map::ElementDeserializer::tuple_variant | src/de/map.rs :: impl<'de, 'd, R, E> de::VariantAccess<'de> for ElementDeserializer<'de, 'd, R, E> where R: XmlRead<'de>, E: EntityResolver, :: fn tuple_variant | serves=C07 features=serialize
//@rewrite-opt Self::Error ==> DeError
    fn tuple_variant<V>(self, len: usize, visitor: V) -> Result<V::Value, DeError>
    where
        V: Visitor<'de>,
        requires self.de_ok(),
    {
        self.deserialize_tuple(len, visitor)
    }
//@end
//@extract de::map::ElementDeserializer::struct_variant | src/de/map.rs :: impl<'de, 'd, R, E> de::VariantAccess<'de> for ElementDeserializer<'de, 'd, R, E> where R: XmlRead<'de>, E: EntityResolver, :: fn struct_variant | serves=C07 features=serialize
//@rewrite-opt Self::Error ==> DeError
    fn struct_variant<V>(
        self,
        fields: &'static [&'static str],
        visitor: V,
    ) -> Result<V::Value, DeError>
    where
        V: Visitor<'de>,
        requires self.de_ok(),
    {
        self.deserialize_struct("", fields, visitor)
    }
//@end
}
}
