// ---------------------------------------------------------------------------------------------
// U-dequeue (feature `overlapped-lists`): the replay queue of the serde Deserializer (src/de/mod.rs).
// C20 mechanism: events are never lost, duplicated or re-ordered by skipping and replaying, and the
// buffer limit is consulted in exactly one place.
//   pending = read ++ (what the underlying reader will still deliver)   -- still to be delivered, in document order
//   held    = write                                                     -- skipped, kept for replay
// ---------------------------------------------------------------------------------------------
pub mod de_ {
use super::*;
use vstd::prelude::*;
use std::collections::VecDeque;
use core::num::NonZeroUsize;

/// hand transcription of src/de/mod.rs DeEvent (Text payload abstracted)
pub struct Text<'a> { pub text: Cow<'a, str> }
pub enum DeEvent<'a> {
    Start(BytesStart<'a>),
    End(BytesEnd<'a>),
    Text(Text<'a>),
    Eof,
}
/// hand transcription of the variants of src/errors.rs serialize::DeError that these functions construct
pub enum DeError {
    InvalidXml(Error),
    UnexpectedStart(Vec<u8>),
    TooManyEvents(NonZeroUsize),
    Other,
}
impl vstd::std_specs::convert::FromSpecImpl<Error> for DeError {
    open spec fn obeys_from_spec() -> bool { true }
    open spec fn from_spec(e: Error) -> Self { DeError::InvalidXml(e) }
}
impl From<Error> for DeError {
//@extract errors::DeError::from_error#dq | src/errors.rs :: mod serialize :: impl From<Error> for DeError :: fn from | serves=C20 features=serialize,overlapped-lists
        fn from(e: Error) -> Self {
            Self::InvalidXml(e)
        }
//@end
}
/// the events produced by the reader are well-formed values (C03: name_len <= buf.len())
pub open spec fn de_wf<'a>(e: DeEvent<'a>) -> bool {
    match e { DeEvent::Start(s) => s.name_len <= s.buf@.len(), _ => true }
}
pub open spec fn all_wf<'a>(s: Seq<DeEvent<'a>>) -> bool { forall|i: int| 0 <= i < s.len() ==> de_wf(#[trigger] s[i]) }
/// Start(name) / End(name) classification of an event with respect to `name`
pub open spec fn is_start_of<'a>(e: DeEvent<'a>, name: Seq<u8>) -> bool {
    e matches DeEvent::Start(s) && s.buf@.subrange(0, s.name_len as int) == name
}
pub open spec fn is_end_of<'a>(e: DeEvent<'a>, name: Seq<u8>) -> bool {
    e matches DeEvent::End(x) && x.name@ == name
}
pub open spec fn shift(o: Option<int>, n: int) -> Option<int> { match o { Some(k) => Some(k + n), None => None } }
/// index of the End event that closes the element `name` when `d` more elements of that name are open:
/// nested elements of the same name are counted (C12/C20: skipping a whole element)
pub open spec fn close_idx<'a>(s: Seq<DeEvent<'a>>, name: Seq<u8>, d: nat) -> Option<int> decreases s.len() {
    if s.len() == 0 { None }
    else if is_start_of(s[0], name) { shift(close_idx(s.subrange(1, s.len() as int), name, d + 1), 1) }
    else if is_end_of(s[0], name) { if d == 0 { Some(0int) } else { shift(close_idx(s.subrange(1, s.len() as int), name, (d - 1) as nat), 1) } }
    else { shift(close_idx(s.subrange(1, s.len() as int), name, d), 1) }
}
/// how far `skip` goes in the pending events `p`: one event, or -- for a Start event -- its whole element
pub open spec fn skip_extent<'a>(p: Seq<DeEvent<'a>>, n: int) -> bool {
    1 <= n <= p.len() && match p[0] {
        DeEvent::Start(s) => {
            let name = s.buf@.subrange(0, s.name_len as int);
            let tail = p.subrange(1, p.len() as int);
            // no Eof is skipped over, and the skip ends at the matching End or at the Eof
            &&& forall|j: int| 1 <= j < n - 1 ==> !(#[trigger] p[j] is Eof)
            &&& (p[n - 1] is Eof && n >= 2) || close_idx(tail, name, 0) == Some(n - 2)
        },
        _ => n == 1,
    }
}
/// closing e+1+d levels = closing e+1 levels... stated for one level: first the element at depth e, then d more
pub proof fn lemma_close_split<'a>(s: Seq<DeEvent<'a>>, name: Seq<u8>, e: nat, d: nat)
    ensures close_idx(s, name, e + 1 + d) == (match close_idx(s, name, e) {
        Some(k) => shift(close_idx(s.subrange(k + 1, s.len() as int), name, d), k + 1),
        None => None,
    }),
    close_idx(s, name, e) matches Some(k) ==> 0 <= k < s.len(),
    decreases s.len()
{
    if s.len() > 0 {
        let s1 = s.subrange(1, s.len() as int);
        if is_start_of(s[0], name) {
            lemma_close_split(s1, name, e + 1, d);
            if let Some(k1) = close_idx(s1, name, e + 1) { assert(s1.subrange(k1 + 1, s1.len() as int) =~= s.subrange(k1 + 2, s.len() as int)); }
        } else if is_end_of(s[0], name) {
            if e == 0 {
                assert(s.subrange(1, s.len() as int) =~= s1);
            } else {
                lemma_close_split(s1, name, (e - 1) as nat, d);
                if let Some(k1) = close_idx(s1, name, (e - 1) as nat) { assert(s1.subrange(k1 + 1, s1.len() as int) =~= s.subrange(k1 + 2, s.len() as int)); }
            }
        } else {
            lemma_close_split(s1, name, e, d);
            if let Some(k1) = close_idx(s1, name, e) { assert(s1.subrange(k1 + 1, s1.len() as int) =~= s.subrange(k1 + 2, s.len() as int)); }
        }
    }
}
pub trait XmlRead<'de> {}
pub trait EntityResolver {}
/// model of XmlReader (assumed): `future` is the sequence of events it will still deliver
pub struct XmlReader<'de, R, E> { pub future: Ghost<Seq<DeEvent<'de>>>, pub r: R, pub e: E }
impl<'de, R: XmlRead<'de>, E: EntityResolver> XmlReader<'de, R, E> {
    #[verifier::external_body]
    pub fn next(&mut self) -> (r: Result<DeEvent<'de>, DeError>)
        ensures all_wf(old(self).future@) ==> all_wf(final(self).future@), match r {
            Ok(e) => old(self).future@.len() > 0 && e == old(self).future@[0] && final(self).future@ == old(self).future@.subrange(1, old(self).future@.len() as int),
            Err(_) => final(self).future@ == old(self).future@,
        }
    { unimplemented!() }
    /// model of XmlReader::decoder
    #[verifier::external_body]
    pub fn decoder(&self) -> Decoder { unimplemented!() }
    /// model of XmlReader::read_to_end (assumed; for the plain reader this is C12): consumes the events up to and
    /// including the End that closes `name`, counting nested elements of the same name
    #[verifier::external_body]
    pub fn read_to_end(&mut self, name: QName) -> (r: Result<(), DeError>)
        ensures all_wf(old(self).future@) ==> all_wf(final(self).future@),
            r is Ok ==> (close_idx(old(self).future@, name.0@, 0) matches Some(k)
                && final(self).future@ == old(self).future@.subrange(k + 1, old(self).future@.len() as int)),
    { unimplemented!() }
}

pub struct Deserializer<'de, R, E>
where
    R: XmlRead<'de>,
    E: EntityResolver,
{
    pub reader: XmlReader<'de, R, E>,
    pub read: VecDeque<DeEvent<'de>>,
    pub write: VecDeque<DeEvent<'de>>,
    pub limit: Option<NonZeroUsize>,
}

impl<'de, R, E> Deserializer<'de, R, E>
where
    R: XmlRead<'de>,
    E: EntityResolver,
{
    /// events still to be delivered, in document order
    pub open spec fn pending(&self) -> Seq<DeEvent<'de>> { self.read@ + self.reader.future@ }
    /// events skipped and held for replay
    pub open spec fn held(&self) -> Seq<DeEvent<'de>> { self.write@ }
    /// every event in flight is a well-formed value
    pub open spec fn qwf(&self) -> bool { all_wf(self.read@) && all_wf(self.write@) && all_wf(self.reader.future@) }

//@extract de::Deserializer::next | src/de/mod.rs :: impl<'de, R, E> Deserializer<'de, R, E> where R: XmlRead<'de>, E: EntityResolver, :: fn next | serves=C20 features=serialize,overlapped-lists
    fn next(&mut self) -> (r: Result<DeEvent<'de>, DeError>)
        requires old(self).qwf()
        ensures final(self).qwf(), r matches Ok(e) ==> de_wf(e),
            final(self).held() == old(self).held(), final(self).limit == old(self).limit,
            match r {
                // the head of the pending events is delivered: replayed events first, then the reader's
                Ok(e) => old(self).pending().len() > 0 && e == old(self).pending()[0]
                    && final(self).pending() == old(self).pending().subrange(1, old(self).pending().len() as int),
                Err(_) => final(self).pending() == old(self).pending(),
            }
    {
        // Replay skipped or peeked events
        if let Some(event) = self.read.pop_front() {
            proof { assert(self.pending() =~= old(self).pending().subrange(1, old(self).pending().len() as int)); }
            return Ok(event);
        }
        let ghost p0 = self.pending();
        proof { assert(p0 =~= self.reader.future@); }
        self.reader.next()
    }
//@end

//@extract de::Deserializer::skip_checkpoint | src/de/mod.rs :: impl<'de, R, E> Deserializer<'de, R, E> where R: XmlRead<'de>, E: EntityResolver, :: fn skip_checkpoint | serves=C20 features=serialize,overlapped-lists
    fn skip_checkpoint(&self) -> (r: usize)
        ensures r == self.held().len()
    {
        self.write.len()
    }
//@end

//@extract de::Deserializer::skip_event | src/de/mod.rs :: impl<'de, R, E> Deserializer<'de, R, E> where R: XmlRead<'de>, E: EntityResolver, :: fn skip_event | serves=C20 features=serialize,overlapped-lists
    fn skip_event(&mut self, event: DeEvent<'de>) -> (r: Result<(), DeError>)
        requires old(self).qwf(), de_wf(event)
        ensures final(self).qwf(), final(self).pending() == old(self).pending(), final(self).limit == old(self).limit,
            match r {
                Ok(_) => final(self).held() == old(self).held().push(event)
                    && (old(self).limit matches Some(max) ==> old(self).held().len() < max.get()),
                // the only place where the limit is consulted: fails iff the buffer already holds `max` events
                Err(e) => final(self).held() == old(self).held()
                    && (old(self).limit matches Some(max) && old(self).held().len() >= max.get() && e == DeError::TooManyEvents(max)),
            }
    {
        if let Some(max) = self.limit {
            if self.write.len() >= max.get() {
                return Err(DeError::TooManyEvents(max));
            }
        }
        self.write.push_back(event);
        Ok(())
    }
//@end

//@extract de::Deserializer::start_replay | src/de/mod.rs :: impl<'de, R, E> Deserializer<'de, R, E> where R: XmlRead<'de>, E: EntityResolver, :: fn start_replay | serves=C20 features=serialize,overlapped-lists
    fn start_replay(&mut self, checkpoint: usize)
        requires checkpoint <= old(self).held().len(), old(self).qwf()
        ensures
            final(self).qwf(),
            // the events skipped since the checkpoint are replayed first, in their original order
            final(self).pending() == old(self).held().subrange(checkpoint as int, old(self).held().len() as int) + old(self).pending(),
            final(self).held() == old(self).held().subrange(0, checkpoint as int),
            final(self).limit == old(self).limit,
    {
        if checkpoint == 0 {
            self.write.append(&mut self.read);
            std::mem::swap(&mut self.read, &mut self.write);
        } else {
            let mut read = self.write.split_off(checkpoint);
            read.append(&mut self.read);
            self.read = read;
        }
        proof {
            assert(self.pending() =~= old(self).held().subrange(checkpoint as int, old(self).held().len() as int) + old(self).pending());
            assert(self.held() =~= old(self).held().subrange(0, checkpoint as int));
        }
    }
//@end

//@extract de::Deserializer::read_to_end | src/de/mod.rs :: impl<'de, R, E> Deserializer<'de, R, E> where R: XmlRead<'de>, E: EntityResolver, :: fn read_to_end | serves=C20 features=serialize,overlapped-lists
    #[verifier::loop_isolation(false)]
    fn read_to_end(&mut self, name: QName) -> (r: Result<(), DeError>)
        requires old(self).qwf()
        ensures final(self).qwf(), final(self).held() == old(self).held(), final(self).limit == old(self).limit,
            // discards exactly the rest of the element `name`: everything up to and including the End that
            // closes it (replayed events first), counting nested elements of the same name
            r is Ok ==> (close_idx(old(self).pending(), name.0@, 0) matches Some(k)
                && final(self).pending() == old(self).pending().subrange(k + 1, old(self).pending().len() as int)),
    {
        let ghost p0 = self.pending();
        let ghost r0 = self.read@;
        let ghost f0 = self.reader.future@;
        let ghost nm = name.0@;
        let ghost mut c: int = 0;
        proof { assert(p0.subrange(0, p0.len() as int) =~= p0); }
        let mut depth = 0;
        loop
            invariant
                depth >= 0, 0 <= c <= r0.len(), self.qwf(),
                self.read@ == r0.subrange(c, r0.len() as int), self.reader.future@ == f0,
                self.held() == old(self).held(), self.limit == old(self).limit,
                close_idx(p0, nm, 0) == shift(close_idx(p0.subrange(c, p0.len() as int), nm, depth as nat), c),
            decreases self.read@.len()
        {
            // A-depth (stated assumption): fewer than 2^31 - 1 nested same-name elements
            assume(depth < 0x7fff_ffff);
            let ghost cur = p0.subrange(c, p0.len() as int);
            proof {
                if c < r0.len() {
                    assert(cur[0] == r0[c]);
                    assert(cur.subrange(1, cur.len() as int) =~= p0.subrange(c + 1, p0.len() as int));
                    assert(self.read@[0] == r0[c]);
                }
            }
            match self.read.pop_front() {
                Some(DeEvent::Start(e)) if e.name() == name => {
                    proof {
                        assert(is_start_of(cur[0], nm));
                        assert(self.read@ =~= r0.subrange(c + 1, r0.len() as int));
                        c = c + 1;
                    }
                    depth += 1;
                }
                Some(DeEvent::End(e)) if e.name() == name => {
                    proof {
                        assert(is_end_of(cur[0], nm) && !is_start_of(cur[0], nm));
                        assert(self.read@ =~= r0.subrange(c + 1, r0.len() as int));
                        assert(self.pending() =~= p0.subrange(c + 1, p0.len() as int));
                        c = c + 1;
                    }
                    if depth == 0 {
                        break;
                    }
                    depth -= 1;
                }

                // Drop all other skipped events
                Some(_) => { proof {
                        assert(!is_start_of(cur[0], nm) && !is_end_of(cur[0], nm));
                        assert(self.read@ =~= r0.subrange(c + 1, r0.len() as int));
                        c = c + 1;
                    } continue },

                // If we do not have skipped events, use effective reading that will
                // not allocate memory for events
                None => {
                    // We should close all opened tags, because we could buffer
                    // Start events, but not the corresponding End events. So we
                    // keep reading events until we exit all nested tags.
                    // `read_to_end()` will return an error if an Eof was encountered
                    // preliminary (in case of malformed XML).
                    //
                    // <tag><tag></tag></tag>
                    // ^^^^^^^^^^             - buffered in `self.read`, when `self.read_to_end()` is called, depth = 2
                    //           ^^^^^^       - read by the first call of `self.reader.read_to_end()`
                    //                 ^^^^^^ - read by the second call of `self.reader.read_to_end()`
                    let ghost mut m: int = 0;
                    proof {
                        assert(c == r0.len());
                        assert(p0.subrange(c, p0.len() as int) =~= f0);
                        assert(f0.subrange(0, f0.len() as int) =~= f0);
                    }
                    loop
                        invariant
                            depth >= 0, 0 <= m <= f0.len(), c == r0.len(), self.qwf(), self.read@.len() == 0,
                            self.reader.future@ == f0.subrange(m, f0.len() as int),
                            self.held() == old(self).held(), self.limit == old(self).limit,
                            close_idx(p0, nm, 0) == shift(close_idx(f0.subrange(m, f0.len() as int), nm, depth as nat), c + m),
                        decreases depth
                    {
                        let ghost curf = self.reader.future@;
                        proof { if depth > 0 { lemma_close_split(curf, nm, 0, (depth - 1) as nat); } else { lemma_close_split(curf, nm, 0, 0); } }
                        self.reader.read_to_end(name)?;
                        proof {
                            let k = close_idx(curf, nm, 0)->Some_0;
                            assert(curf.subrange(k + 1, curf.len() as int) =~= f0.subrange(m + k + 1, f0.len() as int));
                            assert(self.pending() =~= p0.subrange(c + m + k + 1, p0.len() as int));
                            m = m + k + 1;
                        }
                        if depth == 0 {
                            break;
                        }
                        depth -= 1;
                    }
                    break;
                }
            }
        }
        Ok(())
    }
//@end

//@extract de::Deserializer::skip_next_tree#ol | src/de/mod.rs :: impl<'de, R, E> Deserializer<'de, R, E> where R: XmlRead<'de>, E: EntityResolver, :: fn skip_next_tree | serves=C20,C07 features=serialize,overlapped-lists
    fn skip_next_tree(&mut self) -> (r: Result<(), DeError>)
        // only called when the next event is a Start
        requires old(self).qwf(), old(self).pending().len() > 0 ==> old(self).pending()[0] is Start
        ensures final(self).qwf(), final(self).held() == old(self).held(), final(self).limit == old(self).limit,
            // C20: an element that is dropped (`xsi:nil`) is dropped from the events still to be delivered -- replayed events
            // first, then the reader's -- whatever part of it had been buffered by an earlier skip
            r is Ok ==> old(self).pending().len() > 0,
            r is Ok ==> (old(self).pending()[0] matches DeEvent::Start(s)
                && close_idx(old(self).pending().subrange(1, old(self).pending().len() as int), s.buf@.subrange(0, s.name_len as int), 0) matches Some(k)
                && final(self).pending() == old(self).pending().subrange(k + 2, old(self).pending().len() as int)),
    {
        let DeEvent::Start(start) = self.next()? else {
            unreachable!()
        };
        let name = start.name();
        proof {
            let p = old(self).pending();
            let t = p.subrange(1, p.len() as int);
            assert(p[0] == DeEvent::Start(start));
            assert(self.pending() == t);
            lemma_close_split(t, name.0@, 0, 0);
            assert forall|j: int| 1 <= j <= t.len() implies #[trigger] t.subrange(j, t.len() as int) == p.subrange(j + 1, p.len() as int) by {
                assert(t.subrange(j, t.len() as int) =~= p.subrange(j + 1, p.len() as int));
            }
        }
        self.read_to_end(name)
    }
//@end

//@extract de::Deserializer::skip | src/de/mod.rs :: impl<'de, R, E> Deserializer<'de, R, E> where R: XmlRead<'de>, E: EntityResolver, :: fn skip | serves=C20 features=serialize,overlapped-lists
    #[verifier::loop_isolation(false)]
    fn skip(&mut self) -> (r: Result<(), DeError>)
        requires old(self).qwf()
        ensures final(self).limit == old(self).limit, final(self).qwf(),
            // one event or one whole subtree moves from the head of `pending` to the tail of `held`:
            // nothing is lost, duplicated or re-ordered
            r is Ok ==> exists|n: int| 1 <= n <= old(self).pending().len()
                && final(self).pending() == old(self).pending().subrange(n, old(self).pending().len() as int)
                && #[trigger] final(self).held() == old(self).held() + old(self).pending().subrange(0, n)
                // ... exactly one: a Start event takes its whole element with it, up to and including the End that
                // closes it (nested elements of the same name counted), or everything up to Eof if it is never closed
                && skip_extent(old(self).pending(), n),
            // C20: the buffer never grows beyond the configured limit -- every event held went through the limit check
            r is Ok ==> (old(self).limit matches Some(max) ==> final(self).held().len() <= max.get()),
    {
        let ghost p0 = self.pending();
        let ghost h0 = self.held();
        let ghost mut n: int = 1;
        proof { axiom_seq_eq_u8(); }
        let event = self.next()?;
        self.skip_event(event)?;
        proof {
            assert(self.pending() =~= p0.subrange(1, p0.len() as int));
            assert(self.held() =~= h0 + p0.subrange(0, 1));
        }
        let ghost tail = p0.subrange(1, p0.len() as int);
        match self.write.back() {
            // Skip all subtree, if we skip a start event
            Some(DeEvent::Start(e)) => {
                let end = e.name().as_ref().to_owned();
                let ghost nm = end@;
                proof {
                    assert(tail.subrange(0, tail.len() as int) =~= tail);
                    assert(p0[0] == DeEvent::Start(*e));
                    assert(nm =~= e.buf@.subrange(0, e.name_len as int));
                }
                let mut depth = 0;
                loop
                    invariant
                        1 <= n <= p0.len(), self.limit == old(self).limit, depth >= 0, self.qwf(),
                        self.pending() == p0.subrange(n, p0.len() as int),
                        self.held() == h0 + p0.subrange(0, n),
                        self.limit matches Some(max) ==> self.held().len() <= max.get(),
                        is_start_of(p0[0], nm),
                        forall|j: int| 1 <= j < n ==> !(#[trigger] p0[j] is Eof),
                        close_idx(tail, nm, 0) == shift(close_idx(tail.subrange(n - 1, tail.len() as int), nm, depth as nat), n - 1),
                    decreases self.pending().len()
                {
                    let ghost cur = tail.subrange(n - 1, tail.len() as int);
                    proof {
                        if n < p0.len() {
                            assert(cur[0] == p0[n]);
                            assert(cur.subrange(1, cur.len() as int) =~= tail.subrange(n, tail.len() as int));
                        }
                    }
                    // A-depth (stated assumption): fewer than 2^31 - 1 nested same-name elements
                    assume(depth < 0x7fff_ffff);
                    let event = self.next()?;
                    match event {
                        DeEvent::Start(ref e) if e.name().as_ref() == end => {
                            self.skip_event(event)?;
                            proof {
                                assert(is_start_of(cur[0], nm));
                                assert(self.pending() =~= p0.subrange(n + 1, p0.len() as int));
                                assert(self.held() =~= h0 + p0.subrange(0, n + 1));
                                n = n + 1;
                            }
                            depth += 1;
                        }
                        DeEvent::End(ref e) if e.name().as_ref() == end => {
                            self.skip_event(event)?;
                            proof {
                                assert(is_end_of(cur[0], nm) && !is_start_of(cur[0], nm));
                                assert(self.pending() =~= p0.subrange(n + 1, p0.len() as int));
                                assert(self.held() =~= h0 + p0.subrange(0, n + 1));
                                n = n + 1;
                            }
                            if depth == 0 {
                                break;
                            }
                            depth -= 1;
                        }
                        DeEvent::Eof => {
                            self.skip_event(event)?;
                            proof {
                                assert(self.pending() =~= p0.subrange(n + 1, p0.len() as int));
                                assert(self.held() =~= h0 + p0.subrange(0, n + 1));
                                n = n + 1;
                            }
                            break;
                        }
                        _ => { self.skip_event(event)?; proof {
                                assert(!is_start_of(cur[0], nm) && !is_end_of(cur[0], nm) && !(cur[0] is Eof));
                                assert(self.pending() =~= p0.subrange(n + 1, p0.len() as int));
                                assert(self.held() =~= h0 + p0.subrange(0, n + 1));
                                n = n + 1;
                            } },
                    }
                }
            }
            _ => (),
        }
        proof { assert(skip_extent(p0, n)); }
        Ok(())
    }
//@end
//@extract de::Deserializer::peek#ol | src/de/mod.rs :: impl<'de, R, E> Deserializer<'de, R, E> where R: XmlRead<'de>, E: EntityResolver, :: fn peek | serves=C20,C07 features=serialize,overlapped-lists
    fn peek(&mut self) -> (r: Result<&DeEvent<'de>, DeError>)
        requires old(self).qwf()
        ensures final(self).qwf(), final(self).held() == old(self).held(), final(self).limit == old(self).limit,
            // looking does not consume: the pending events are the same, and the one shown is their head
            final(self).pending() == old(self).pending(),
            r matches Ok(e) ==> old(self).pending().len() > 0 && *e == old(self).pending()[0] && de_wf(*e),
    {
        let ghost p0 = self.pending();
        if self.read.is_empty() {
            proof { assert(p0 =~= self.reader.future@); }
            self.read.push_front(self.reader.next()?);
        }
        proof { assert(self.pending() =~= p0); }
        if let Some(event) = self.read.front() {
            return Ok(event);
        }
        // SAFETY: `self.read` was filled in the code above.
        // NOTE: Can be replaced with `unsafe { std::hint::unreachable_unchecked() }`
        // if unsafe code will be allowed
        unreachable!()
    }
//@end
}

// ---------------------------------------------------------------------------------------------
// Which events a list skips (src/de/map.rs, MapValueSeqAccess::next_element_seed, overlapped-lists build):
// C20 mechanism "skips non-matching tags": a list looks at the next event; an element whose tag does not belong to
// the list is moved -- whole -- to the held queue (Deserializer::skip, above) and the list looks again; it stops at
// the first event that is NOT such an element and hands the seed that event (Text or a suitable Start), or ends
// (End), or fails (Eof). Nothing else is ever skipped, nothing is dropped.
// ---------------------------------------------------------------------------------------------
use core::ops::Range;
/// whether the tag belongs to the fields of the struct: here an uninterpreted FUNCTION of the arguments; the real `not_in` is verified
/// in unit dekey against `not_in_spec` (the decoded local name differs from every field name)
pub uninterp spec fn spec_not_in(fields: &'static [&'static str], start: Seq<u8>, d: Decoder) -> Result<bool, DeError>;
#[verifier::external_body]
pub fn not_in(fields: &'static [&'static str], start: &BytesStart, decoder: Decoder) -> (r: Result<bool, DeError>)
    requires start.name_len <= start.buf@.len()
    ensures r == spec_not_in(fields, start.buf@.subrange(0, start.name_len as int), decoder)
{ unimplemented!() }

//@extract de::map::TagFilter | src/de/map.rs :: enum TagFilter | serves=C20 features=serialize,overlapped-lists
pub enum TagFilter<'de> {
    /// A `SeqAccess` interested only in tags with specified name to deserialize
    /// an XML like this:
    ///
    /// ```xml
    /// <...>
    ///   <tag/>
    ///   <tag/>
    ///   <tag/>
    ///   ...
    /// </...>
    /// ```
    ///
    /// The tag name is stored inside (`b"tag"` for that example)
    Include(BytesStart<'de>), //TODO: Need to store only name instead of a whole tag
    /// A `SeqAccess` interested in tags with any name, except explicitly listed.
    /// Excluded tags are used as struct field names and therefore should not
    /// fall into a `$value` category
    Exclude(&'static [&'static str]),
}
//@end
/// C20: does an element with this tag belong to the list? Include: the same qualified name as the first element of the
/// list; Exclude: no field of the struct has this (local) name
pub open spec fn suit<'de>(f: TagFilter<'de>, start: BytesStart, d: Decoder) -> Result<bool, DeError> {
    match f {
        TagFilter::Include(n) => Ok(n.buf@.subrange(0, n.name_len as int) == start.buf@.subrange(0, start.name_len as int)),
        TagFilter::Exclude(fields) => spec_not_in(fields, start.buf@.subrange(0, start.name_len as int), d),
    }
}
impl<'de> TagFilter<'de> {
//@extract de::map::TagFilter::is_suitable | src/de/map.rs :: impl<'de> TagFilter<'de> :: fn is_suitable | serves=C20 features=serialize,overlapped-lists
    fn is_suitable(&self, start: &BytesStart, decoder: Decoder) -> (r: Result<bool, DeError>)
        requires start.name_len <= start.buf@.len(), *self matches TagFilter::Include(n) ==> n.name_len <= n.buf@.len(),
        ensures r == suit(*self, *start, decoder)
    {
        proof { axiom_seq_eq_u8(); }
        match self {
            Self::Include(n) => Ok(n.name() == start.name()),
            Self::Exclude(fields) => not_in(fields, start, decoder),
        }
    }
//@end
}
//@extract de::map::ValueSource | src/de/map.rs :: enum ValueSource | serves=C20 features=serialize,overlapped-lists
enum ValueSource {
    /// Source are not specified, because [`next_key_seed()`] not yet called.
    /// This is an initial state and state after deserializing value
    /// (after call of [`next_value_seed()`]).
    ///
    /// Attempt to call [`next_value_seed()`] while accessor in this state would
    /// return a [`DeError::KeyNotRead`] error.
    ///
    /// [`next_key_seed()`]: MapAccess::next_key_seed
    /// [`next_value_seed()`]: MapAccess::next_value_seed
    Unknown,
    /// Next value should be deserialized from an attribute value; value is located
    /// at specified span.
    Attribute(Range<usize>),
    /// Value should be deserialized from the text content of the XML node, which
    /// represented or by an ordinary text node, or by a CDATA node:
    ///
    /// ```xml
    /// <any-tag>
    ///     <key>text content</key>
    /// <!--     ^^^^^^^^^^^^ - this will be used to deserialize map value -->
    /// </any-tag>
    /// ```
    /// ```xml
    /// <any-tag>
    ///     <key><![CDATA[cdata content]]></key>
    /// <!--              ^^^^^^^^^^^^^ - this will be used to deserialize a map value -->
    /// </any-tag>
    /// ```
    Text,
    /// Next value should be deserialized from an element with an any name, except
    /// elements with a name matching one of the struct fields. Corresponding tag
    /// name will always be associated with a field with name [`VALUE_KEY`].
    ///
    /// That state is set when call to [`peek()`] returns a [`Start`] event, which
    /// [`name()`] is not listed in the [list of known fields] (which for a struct
    /// is a list of field names, and for a map that is an empty list), _and_
    /// struct has a field with a special name [`VALUE_KEY`].
    ///
    /// When in this state, next event, returned by [`next()`], will be a [`Start`],
    /// which represents both a key, and a value. Value would be deserialized from
    /// the whole element and how is will be done determined by the value deserializer.
    /// The [`ElementMapAccess`] do not consume any events in that state.
    ///
    /// Because in that state any encountered `<tag>` is mapped to the [`VALUE_KEY`]
    /// field, it is possible to use tag name as an enum discriminator, so `enum`s
    /// can be deserialized from that XMLs:
    ///
    /// ```xml
    /// <any-tag>
    ///     <variant1>...</variant1>
    /// <!-- ~~~~~~~~               - this data will determine that this is Enum::variant1 -->
    /// <!--^^^^^^^^^^^^^^^^^^^^^^^ - this data will be used to deserialize a map value -->
    /// </any-tag>
    /// ```
    /// ```xml
    /// <any-tag>
    ///     <variant2>...</variant2>
    /// <!-- ~~~~~~~~               - this data will determine that this is Enum::variant2 -->
    /// <!--^^^^^^^^^^^^^^^^^^^^^^^ - this data will be used to deserialize a map value -->
    /// </any-tag>
    /// ```
    ///
    /// both can be deserialized into
    ///
    /// ```ignore
    /// enum Enum {
    ///   variant1,
    ///   variant2,
    /// }
    /// struct AnyName {
    ///   #[serde(rename = "$value")]
    ///   field: Enum,
    /// }
    /// ```
    ///
    /// That is possible, because value deserializer have access to the full content
    /// of a `<variant1>...</variant1>` or `<variant2>...</variant2>` node, including
    /// the tag name.
    ///
    /// [`Start`]: DeEvent::Start
    /// [`peek()`]: Deserializer::peek()
    /// [`next()`]: Deserializer::next()
    /// [`name()`]: BytesStart::name()
    /// [`Text`]: Self::Text
    /// [list of known fields]: ElementMapAccess::fields
    Content,
    /// Next value should be deserialized from an element with a dedicated name.
    /// If deserialized type is a sequence, then that sequence will collect all
    /// elements with the same name until it will be filled. If not all elements
    /// would be consumed, the rest will be ignored.
    ///
    /// That state is set when call to [`peek()`] returns a [`Start`] event, which
    /// [`name()`] represents a field name. That name will be deserialized as a key.
    ///
    /// When in this state, next event, returned by [`next()`], will be a [`Start`],
    /// which represents both a key, and a value. Value would be deserialized from
    /// the whole element and how is will be done determined by the value deserializer.
    /// The [`ElementMapAccess`] do not consume any events in that state.
    ///
    /// An illustration below shows, what data is used to deserialize key and value:
    /// ```xml
    /// <any-tag>
    ///     <key>...</key>
    /// <!-- ~~~           - this data will be used to deserialize a map key -->
    /// <!--^^^^^^^^^^^^^^ - this data will be used to deserialize a map value -->
    /// </any-tag>
    /// ```
    ///
    /// Although value deserializer will have access to the full content of a `<key>`
    /// node (including the tag name), it will not get much benefits from that,
    /// because tag name will always be fixed for a given map field (equal to a
    /// field name). So, if the field type is an `enum`, it cannot select its
    /// variant based on the tag name. If that is needed, then [`Content`] variant
    /// of this enum should be used. Such usage is enabled by annotating a struct
    /// field as "content" field, which implemented as given the field a special
    /// [`VALUE_KEY`] name.
    ///
    /// [`Start`]: DeEvent::Start
    /// [`peek()`]: Deserializer::peek()
    /// [`next()`]: Deserializer::next()
    /// [`name()`]: BytesStart::name()
    /// [`Content`]: Self::Content
    Nested,
}
//@end
//@extract de::map::ElementMapAccess | src/de/map.rs :: struct ElementMapAccess | serves=C20 features=serialize,overlapped-lists
//@rewrite iter: IterState, ==> 
 struct ElementMapAccess<'de, 'd, R, E>
where
    R: XmlRead<'de>,
    E: EntityResolver,
{
    /// Tag -- owner of attributes
    start: BytesStart<'de>,
    de: &'d mut Deserializer<'de, R, E>,
    /// State of the iterator over attributes. Contains the next position in the
    /// inner `start` slice, from which next attribute should be parsed.
    source: ValueSource,
    /// List of field names of the struct. It is empty for maps
    fields: &'static [&'static str],
    /// If `true`, then the deserialized struct has a field with a special name:
    /// [`VALUE_KEY`]. That field should be deserialized from the whole content
    /// of an XML node, including tag name:
    ///
    /// ```xml
    /// <tag>value for VALUE_KEY field<tag>
    /// ```
    has_value_field: bool,
}
//@end
//@extract de::map::MapValueSeqAccess | src/de/map.rs :: struct MapValueSeqAccess | serves=C20 features=serialize,overlapped-lists
////////////////////////////////////////////////////////////////////////////////////////////////////

/// An accessor to sequence elements forming a value for struct field.
/// Technically, this sequence is flattened out into structure and sequence
/// elements are overlapped with other fields of a structure. Each call to
/// [`Self::next_element_seed`] consumes a next sub-tree or consequent list
/// of [`Text`] and [`CData`] events.
///
/// ```xml
/// <>
///   ...
///   <item>The is the one item</item>
///   This is <![CDATA[one another]]> item<!-- even when--> it splitted by comments
///   <tag>...and that is the third!</tag>
///   ...
/// </>
/// ```
///
/// Depending on [`Self::filter`], only some of that possible constructs would be
/// an element.
///
/// [`Text`]: crate::events::Event::Text
/// [`CData`]: crate::events::Event::CData
struct MapValueSeqAccess<'de, 'd, 'm, R, E>
where
    R: XmlRead<'de>,
    E: EntityResolver,
{
    /// Accessor to a map that creates this accessor and to a deserializer for
    /// a sequence items.
    map: &'m mut ElementMapAccess<'de, 'd, R, E>,
    /// Filter that determines whether a tag is a part of this sequence.
    ///
    /// When feature [`overlapped-lists`] is not activated, iteration will stop
    /// when found a tag that does not pass this filter.
    ///
    /// When feature [`overlapped-lists`] is activated, all tags, that not pass
    /// this check, will be skipped.
    ///
    /// [`overlapped-lists`]: ../../index.html#overlapped-lists
    filter: TagFilter<'de>,

    /// Checkpoint after which all skipped events should be returned. All events,
    /// that was skipped before creating this checkpoint, will still stay buffered
    /// and will not be returned
    checkpoint: usize,
}
//@end
//@extract de::map::ElementDeserializer | src/de/map.rs :: struct ElementDeserializer | serves=C20 features=serialize,overlapped-lists
////////////////////////////////////////////////////////////////////////////////////////////////////

/// A deserializer for a single tag item of a mixed sequence of tags and text.
///
/// This deserializer are very similar to a [`MapValueDeserializer`] (when it
/// processes the [`DeEvent::Start`] event). The only difference in the
/// [`deserialize_seq`] method. This deserializer will perform deserialization
/// from the textual content between start and end events, whereas the
/// [`MapValueDeserializer`] will iterate over tags / text within it's parent tag.
///
/// This deserializer processes items as following:
/// - numbers are parsed from a text content between tags using [`FromStr`]. So,
///   `<int>123</int>` can be deserialized into an `u32`;
/// - booleans converted from a text content between tags according to the XML
///   [specification]:
///   - `"true"` and `"1"` converted to `true`;
///   - `"false"` and `"0"` converted to `false`;
/// - strings returned as a text content between tags;
/// - characters also returned as strings. If string contain more than one character
///   or empty, it is responsibility of a type to return an error;
/// - `Option` are always deserialized as `Some` using the same deserializer,
///   including `<tag/>` or `<tag></tag>`;
/// - units (`()`) and unit structs consumes the whole element subtree;
/// - newtype structs forwards deserialization to the inner type using
///   [`SimpleTypeDeserializer`];
/// - sequences, tuples and tuple structs are deserialized using [`SimpleTypeDeserializer`]
///   (this is the difference): text content between tags is passed to
///   [`SimpleTypeDeserializer`];
/// - structs and maps are deserialized using new instance of [`ElementMapAccess`];
/// - enums:
///   - the variant name is deserialized using [`QNameDeserializer`] from the element name;
///   - the content is deserialized using the same deserializer:
///     - unit variants: consuming a subtree and return `()`;
///     - newtype variants forwards deserialization to the inner type using
///       this deserializer;
///     - tuple variants: call [`deserialize_tuple`] of this deserializer;
///     - struct variants: call [`deserialize_struct`] of this deserializer.
///
/// [`deserialize_seq`]: #method.deserialize_seq
/// [`FromStr`]: std::str::FromStr
/// [specification]: https://www.w3.org/TR/xmlschema11-2/#boolean
/// [`deserialize_tuple`]: #method.deserialize_tuple
/// [`deserialize_struct`]: #method.deserialize_struct
struct ElementDeserializer<'de, 'd, R, E>
where
    R: XmlRead<'de>,
    E: EntityResolver,
{
    start: BytesStart<'de>,
    de: &'d mut Deserializer<'de, R, E>,
}
//@end
//@extract de::text::TextDeserializer | src/de/text.rs :: struct TextDeserializer | serves=C20 features=serialize,overlapped-lists
 struct TextDeserializer<'de>(pub Text<'de>);
//@end
/// Model of serde::de::DeserializeSeed (A-serde): what a seed does with the deserializer it is handed is not constrained;
/// the two deserializers a list hands out are marked
pub trait DeModel {}
impl<'de> DeModel for TextDeserializer<'de> {}
impl<'de, 'd, R: XmlRead<'de>, E: EntityResolver> DeModel for ElementDeserializer<'de, 'd, R, E> {}
pub trait DeserializeSeed<'de>: Sized {
    type Value;
    fn deserialize<D: DeModel>(self, deserializer: D) -> Result<Self::Value, DeError>;
}
impl<'de, 'd, 'm, R, E> MapValueSeqAccess<'de, 'd, 'm, R, E>
where
    R: XmlRead<'de>,
    E: EntityResolver,
{
//@extract de::map::MapValueSeqAccess::next_element_seed | src/de/map.rs :: impl<'de, 'd, 'm, R, E> SeqAccess<'de> for MapValueSeqAccess<'de, 'd, 'm, R, E> where R: XmlRead<'de>, E: EntityResolver, :: fn next_element_seed | serves=C20,C07 features=serialize,overlapped-lists
//@rewrite-all .map(Some) ==> .map(|v__: T::Value| Some(v__))
//@rewrite assert!(self.map.start.name() == e.name()); ==> 
    #[verifier::loop_isolation(false)]
    fn next_element_seed<T>(&mut self, seed: T) -> (r: Result<Option<T::Value>, DeError>)
    where
        T: DeserializeSeed<'de>,
        requires old(self).map.de.qwf(), old(self).map.start.name_len <= old(self).map.start.buf@.len(),
            old(self).filter matches TagFilter::Include(n) ==> n.name_len <= n.buf@.len(),
    {
        let decoder = self.map.de.reader.decoder();
        let ghost p0 = self.map.de.pending();
        let ghost h0 = self.map.de.held();
        let ghost flt = self.filter;
        // m: how many of the pending events have been moved to the held queue; starts: where each skipped element began
        let ghost mut m: int = 0;
        let ghost mut starts: Seq<int> = Seq::empty();
        proof { assert(p0.subrange(0, p0.len() as int) =~= p0); assert(h0 + p0.subrange(0, 0) =~= h0); }
        let __lv1; loop
            invariant
                self.map.de.qwf(), self.filter == flt, self.map.start == old(self).map.start, self.map.de.limit == old(self).map.de.limit,
                0 <= m <= p0.len(),
                // C20: nothing is lost, duplicated or re-ordered ...
                self.map.de.pending() == p0.subrange(m, p0.len() as int),
                self.map.de.held() == h0 + p0.subrange(0, m),
                // ... and only WHOLE elements whose tag does not belong to the list were skipped
                forall|i: int| 0 <= i < starts.len() ==> 0 <= #[trigger] starts[i] < m
                    && (p0[starts[i]] matches DeEvent::Start(e) && suit(flt, e, decoder) == Result::<bool, DeError>::Ok(false)),
            decreases p0.len() - m
        {
            { __lv1 = match self.map.de.peek()? {
                // If we see a tag that we not interested, skip it
                DeEvent::Start(e) if !self.filter.is_suitable(e, decoder)? => {
                    let ghost cur = self.map.de.pending();
                    let ghost hcur = self.map.de.held();
                    self.map.de.skip()?;
                    proof {
                        let n = choose|n: int| 1 <= n <= cur.len()
                            && self.map.de.pending() == cur.subrange(n, cur.len() as int)
                            && #[trigger] self.map.de.held() == hcur + cur.subrange(0, n)
                            && skip_extent(cur, n);
                        assert(cur[0] == p0[m]);
                        assert(cur.subrange(n, cur.len() as int) =~= p0.subrange(m + n, p0.len() as int));
                        assert(hcur + cur.subrange(0, n) =~= h0 + p0.subrange(0, m + n));
                        starts = starts.push(m);
                        m = m + n;
                    }
                    continue;
                }

                // Stop iteration after reaching a closing tag
                // The matching tag name is guaranteed by the reader
                DeEvent::End(e) => {
                    // the list ends at the End of the enclosing element: p0[m]
                    proof { assert(p0[m] is End); }
                    Ok(None)
                }
                // We cannot get `Eof` legally, because we always inside of the
                // opened tag `self.map.start`
                DeEvent::Eof => Err(Error::missed_end(self.map.start.name(), decoder).into()),

                DeEvent::Text(_) => match self.map.de.next()? {
                    // C20: the seed gets the first pending event that is not an element foreign to the list: here a text
                    DeEvent::Text(e) => seed.deserialize(TextDeserializer(e)).map(|v__: T::Value| Some(v__)),
                    // SAFETY: we just checked that the next event is Text
                    _ => unreachable!(),
                },
                DeEvent::Start(_) => match self.map.de.next()? {
                    // ... here an element that belongs to the list (`suit` is Ok(true): the guard above did not take it)
                    DeEvent::Start(start) => { proof { assert(p0[m] == DeEvent::Start(start)); assert(suit(flt, start, decoder) == Result::<bool, DeError>::Ok(true)); } seed
                        .deserialize(ElementDeserializer {
                            start,
                            de: self.map.de,
                        })
                        .map(|v__: T::Value| Some(v__)) },
                    // SAFETY: we just checked that the next event is Start
                    _ => unreachable!(),
                },
            }; break; };
        } __lv1
    }
//@end
}
}
