// ---------------------------------------------------------------------------------------------
// U-dequeue (feature `overlapped-lists`): the replay queue of the serde Deserializer (src/de/mod.rs).
// C20 mechanism: events are never lost, duplicated or re-ordered by skipping and replaying, and the
// buffer limit is consulted in exactly one place.
//   pending = read ++ (what the underlying reader will still deliver)   -- still to be delivered, in document order
//   held    = write                                                     -- skipped, kept for replay
// ---------------------------------------------------------------------------------------------
pub mod de_ {
use super::*;
use vstd::prelude::*;
use std::collections::VecDeque;
use core::num::NonZeroUsize;

/// hand transcription of src/de/mod.rs DeEvent (Text payload abstracted)
pub struct Text<'a> { pub text: Cow<'a, str> }
pub enum DeEvent<'a> {
    Start(BytesStart<'a>),
    End(BytesEnd<'a>),
    Text(Text<'a>),
    Eof,
}
/// hand transcription of the variants of src/errors.rs serialize::DeError that these functions construct
pub enum DeError {
    InvalidXml(Error),
    UnexpectedStart(Vec<u8>),
    TooManyEvents(NonZeroUsize),
    Other,
}
/// the events produced by the reader are well-formed values (C03: name_len <= buf.len())
pub open spec fn de_wf<'a>(e: DeEvent<'a>) -> bool {
    match e { DeEvent::Start(s) => s.name_len <= s.buf@.len(), _ => true }
}
pub open spec fn all_wf<'a>(s: Seq<DeEvent<'a>>) -> bool { forall|i: int| 0 <= i < s.len() ==> de_wf(#[trigger] s[i]) }
pub trait XmlRead<'de> {}
pub trait EntityResolver {}
/// model of XmlReader (assumed): `future` is the sequence of events it will still deliver
pub struct XmlReader<'de, R, E> { pub future: Ghost<Seq<DeEvent<'de>>>, pub r: R, pub e: E }
impl<'de, R: XmlRead<'de>, E: EntityResolver> XmlReader<'de, R, E> {
    #[verifier::external_body]
    pub fn next(&mut self) -> (r: Result<DeEvent<'de>, DeError>)
        ensures all_wf(old(self).future@) ==> all_wf(final(self).future@), match r {
            Ok(e) => old(self).future@.len() > 0 && e == old(self).future@[0] && final(self).future@ == old(self).future@.subrange(1, old(self).future@.len() as int),
            Err(_) => final(self).future@ == old(self).future@,
        }
    { unimplemented!() }
}

pub struct Deserializer<'de, R, E>
where
    R: XmlRead<'de>,
    E: EntityResolver,
{
    pub reader: XmlReader<'de, R, E>,
    pub read: VecDeque<DeEvent<'de>>,
    pub write: VecDeque<DeEvent<'de>>,
    pub limit: Option<NonZeroUsize>,
}

impl<'de, R, E> Deserializer<'de, R, E>
where
    R: XmlRead<'de>,
    E: EntityResolver,
{
    /// events still to be delivered, in document order
    pub open spec fn pending(&self) -> Seq<DeEvent<'de>> { self.read@ + self.reader.future@ }
    /// events skipped and held for replay
    pub open spec fn held(&self) -> Seq<DeEvent<'de>> { self.write@ }
    /// every event in flight is a well-formed value
    pub open spec fn qwf(&self) -> bool { all_wf(self.read@) && all_wf(self.write@) && all_wf(self.reader.future@) }

//@extract de::Deserializer::next | src/de/mod.rs :: impl<'de, R, E> Deserializer<'de, R, E> where R: XmlRead<'de>, E: EntityResolver, :: fn next | serves=C20 features=serialize,overlapped-lists
    fn next(&mut self) -> (r: Result<DeEvent<'de>, DeError>)
        requires old(self).qwf()
        ensures final(self).qwf(), r matches Ok(e) ==> de_wf(e),
            final(self).held() == old(self).held(), final(self).limit == old(self).limit,
            match r {
                // the head of the pending events is delivered: replayed events first, then the reader's
                Ok(e) => old(self).pending().len() > 0 && e == old(self).pending()[0]
                    && final(self).pending() == old(self).pending().subrange(1, old(self).pending().len() as int),
                Err(_) => final(self).pending() == old(self).pending(),
            }
    {
        // Replay skipped or peeked events
        if let Some(event) = self.read.pop_front() {
            proof { assert(self.pending() =~= old(self).pending().subrange(1, old(self).pending().len() as int)); }
            return Ok(event);
        }
        let ghost p0 = self.pending();
        proof { assert(p0 =~= self.reader.future@); }
        self.reader.next()
    }
//@end

//@extract de::Deserializer::skip_checkpoint | src/de/mod.rs :: impl<'de, R, E> Deserializer<'de, R, E> where R: XmlRead<'de>, E: EntityResolver, :: fn skip_checkpoint | serves=C20 features=serialize,overlapped-lists
    fn skip_checkpoint(&self) -> (r: usize)
        ensures r == self.held().len()
    {
        self.write.len()
    }
//@end

//@extract de::Deserializer::skip_event | src/de/mod.rs :: impl<'de, R, E> Deserializer<'de, R, E> where R: XmlRead<'de>, E: EntityResolver, :: fn skip_event | serves=C20 features=serialize,overlapped-lists
    fn skip_event(&mut self, event: DeEvent<'de>) -> (r: Result<(), DeError>)
        requires old(self).qwf(), de_wf(event)
        ensures final(self).qwf(), final(self).pending() == old(self).pending(), final(self).limit == old(self).limit,
            match r {
                Ok(_) => final(self).held() == old(self).held().push(event)
                    && (old(self).limit matches Some(max) ==> old(self).held().len() < max.get()),
                // the only place where the limit is consulted: fails iff the buffer already holds `max` events
                Err(e) => final(self).held() == old(self).held()
                    && (old(self).limit matches Some(max) && old(self).held().len() >= max.get() && e == DeError::TooManyEvents(max)),
            }
    {
        if let Some(max) = self.limit {
            if self.write.len() >= max.get() {
                return Err(DeError::TooManyEvents(max));
            }
        }
        self.write.push_back(event);
        Ok(())
    }
//@end

//@extract de::Deserializer::start_replay | src/de/mod.rs :: impl<'de, R, E> Deserializer<'de, R, E> where R: XmlRead<'de>, E: EntityResolver, :: fn start_replay | serves=C20 features=serialize,overlapped-lists
    fn start_replay(&mut self, checkpoint: usize)
        requires checkpoint <= old(self).held().len(), old(self).qwf()
        ensures
            final(self).qwf(),
            // the events skipped since the checkpoint are replayed first, in their original order
            final(self).pending() == old(self).held().subrange(checkpoint as int, old(self).held().len() as int) + old(self).pending(),
            final(self).held() == old(self).held().subrange(0, checkpoint as int),
            final(self).limit == old(self).limit,
    {
        if checkpoint == 0 {
            self.write.append(&mut self.read);
            std::mem::swap(&mut self.read, &mut self.write);
        } else {
            let mut read = self.write.split_off(checkpoint);
            read.append(&mut self.read);
            self.read = read;
        }
        proof {
            assert(self.pending() =~= old(self).held().subrange(checkpoint as int, old(self).held().len() as int) + old(self).pending());
            assert(self.held() =~= old(self).held().subrange(0, checkpoint as int));
        }
    }
//@end

//@extract de::Deserializer::skip | src/de/mod.rs :: impl<'de, R, E> Deserializer<'de, R, E> where R: XmlRead<'de>, E: EntityResolver, :: fn skip | serves=C20 features=serialize,overlapped-lists
    #[verifier::loop_isolation(false)]
    fn skip(&mut self) -> (r: Result<(), DeError>)
        requires old(self).qwf()
        ensures final(self).limit == old(self).limit, final(self).qwf(),
            // one event or one whole subtree moves from the head of `pending` to the tail of `held`:
            // nothing is lost, duplicated or re-ordered
            r is Ok ==> exists|n: int| 1 <= n <= old(self).pending().len()
                && final(self).pending() == old(self).pending().subrange(n, old(self).pending().len() as int)
                && #[trigger] final(self).held() == old(self).held() + old(self).pending().subrange(0, n),
    {
        let ghost p0 = self.pending();
        let ghost h0 = self.held();
        let ghost mut n: int = 1;
        let event = self.next()?;
        self.skip_event(event)?;
        proof {
            assert(self.pending() =~= p0.subrange(1, p0.len() as int));
            assert(self.held() =~= h0 + p0.subrange(0, 1));
        }
        match self.write.back() {
            // Skip all subtree, if we skip a start event
            Some(DeEvent::Start(e)) => {
                let end = e.name().as_ref().to_owned();
                let mut depth = 0;
                loop
                    invariant
                        1 <= n <= p0.len(), self.limit == old(self).limit, depth >= 0, self.qwf(),
                        self.pending() == p0.subrange(n, p0.len() as int),
                        self.held() == h0 + p0.subrange(0, n),
                    decreases self.pending().len()
                {
                    // A-depth (stated assumption): fewer than 2^31 - 1 nested same-name elements
                    assume(depth < 0x7fff_ffff);
                    let event = self.next()?;
                    match event {
                        DeEvent::Start(ref e) if e.name().as_ref() == end => {
                            self.skip_event(event)?;
                            proof {
                                assert(self.pending() =~= p0.subrange(n + 1, p0.len() as int));
                                assert(self.held() =~= h0 + p0.subrange(0, n + 1));
                                n = n + 1;
                            }
                            depth += 1;
                        }
                        DeEvent::End(ref e) if e.name().as_ref() == end => {
                            self.skip_event(event)?;
                            proof {
                                assert(self.pending() =~= p0.subrange(n + 1, p0.len() as int));
                                assert(self.held() =~= h0 + p0.subrange(0, n + 1));
                                n = n + 1;
                            }
                            if depth == 0 {
                                break;
                            }
                            depth -= 1;
                        }
                        DeEvent::Eof => {
                            self.skip_event(event)?;
                            proof {
                                assert(self.pending() =~= p0.subrange(n + 1, p0.len() as int));
                                assert(self.held() =~= h0 + p0.subrange(0, n + 1));
                                n = n + 1;
                            }
                            break;
                        }
                        _ => { self.skip_event(event)?; proof {
                                assert(self.pending() =~= p0.subrange(n + 1, p0.len() as int));
                                assert(self.held() =~= h0 + p0.subrange(0, n + 1));
                                n = n + 1;
                            } },
                    }
                }
            }
            _ => (),
        }
        Ok(())
    }
//@end
}
}
