// ---------------------------------------------------------------------------------------------
// U-dequeue (feature `overlapped-lists`): the replay queue of the serde Deserializer (src/de/mod.rs).
// C20 mechanism: events are never lost, duplicated or re-ordered by skipping and replaying, and the
// buffer limit is consulted in exactly one place.
//   pending = read ++ (what the underlying reader will still deliver)   -- still to be delivered, in document order
//   held    = write                                                     -- skipped, kept for replay
// ---------------------------------------------------------------------------------------------
pub mod de_ {
use super::*;
use vstd::prelude::*;
use std::collections::VecDeque;
use core::num::NonZeroUsize;

/// hand transcription of src/de/mod.rs DeEvent (Text payload abstracted)
pub struct Text<'a> { pub text: Cow<'a, str> }
pub enum DeEvent<'a> {
    Start(BytesStart<'a>),
    End(BytesEnd<'a>),
    Text(Text<'a>),
    Eof,
}
/// hand transcription of the variants of src/errors.rs serialize::DeError that these functions construct
pub enum DeError {
    InvalidXml(Error),
    UnexpectedStart(Vec<u8>),
    TooManyEvents(NonZeroUsize),
    Other,
}
/// the events produced by the reader are well-formed values (C03: name_len <= buf.len())
pub open spec fn de_wf<'a>(e: DeEvent<'a>) -> bool {
    match e { DeEvent::Start(s) => s.name_len <= s.buf@.len(), _ => true }
}
pub open spec fn all_wf<'a>(s: Seq<DeEvent<'a>>) -> bool { forall|i: int| 0 <= i < s.len() ==> de_wf(#[trigger] s[i]) }
/// Start(name) / End(name) classification of an event with respect to `name`
pub open spec fn is_start_of<'a>(e: DeEvent<'a>, name: Seq<u8>) -> bool {
    e matches DeEvent::Start(s) && s.buf@.subrange(0, s.name_len as int) == name
}
pub open spec fn is_end_of<'a>(e: DeEvent<'a>, name: Seq<u8>) -> bool {
    e matches DeEvent::End(x) && x.name@ == name
}
pub open spec fn shift(o: Option<int>, n: int) -> Option<int> { match o { Some(k) => Some(k + n), None => None } }
/// index of the End event that closes the element `name` when `d` more elements of that name are open:
/// nested elements of the same name are counted (C12/C20: skipping a whole element)
pub open spec fn close_idx<'a>(s: Seq<DeEvent<'a>>, name: Seq<u8>, d: nat) -> Option<int> decreases s.len() {
    if s.len() == 0 { None }
    else if is_start_of(s[0], name) { shift(close_idx(s.subrange(1, s.len() as int), name, d + 1), 1) }
    else if is_end_of(s[0], name) { if d == 0 { Some(0int) } else { shift(close_idx(s.subrange(1, s.len() as int), name, (d - 1) as nat), 1) } }
    else { shift(close_idx(s.subrange(1, s.len() as int), name, d), 1) }
}
/// how far `skip` goes in the pending events `p`: one event, or -- for a Start event -- its whole element
pub open spec fn skip_extent<'a>(p: Seq<DeEvent<'a>>, n: int) -> bool {
    1 <= n <= p.len() && match p[0] {
        DeEvent::Start(s) => {
            let name = s.buf@.subrange(0, s.name_len as int);
            let tail = p.subrange(1, p.len() as int);
            // no Eof is skipped over, and the skip ends at the matching End or at the Eof
            &&& forall|j: int| 1 <= j < n - 1 ==> !(#[trigger] p[j] is Eof)
            &&& (p[n - 1] is Eof && n >= 2) || close_idx(tail, name, 0) == Some(n - 2)
        },
        _ => n == 1,
    }
}
/// closing e+1+d levels = closing e+1 levels... stated for one level: first the element at depth e, then d more
pub proof fn lemma_close_split<'a>(s: Seq<DeEvent<'a>>, name: Seq<u8>, e: nat, d: nat)
    ensures close_idx(s, name, e + 1 + d) == (match close_idx(s, name, e) {
        Some(k) => shift(close_idx(s.subrange(k + 1, s.len() as int), name, d), k + 1),
        None => None,
    }),
    close_idx(s, name, e) matches Some(k) ==> 0 <= k < s.len(),
    decreases s.len()
{
    if s.len() > 0 {
        let s1 = s.subrange(1, s.len() as int);
        if is_start_of(s[0], name) {
            lemma_close_split(s1, name, e + 1, d);
            if let Some(k1) = close_idx(s1, name, e + 1) { assert(s1.subrange(k1 + 1, s1.len() as int) =~= s.subrange(k1 + 2, s.len() as int)); }
        } else if is_end_of(s[0], name) {
            if e == 0 {
                assert(s.subrange(1, s.len() as int) =~= s1);
            } else {
                lemma_close_split(s1, name, (e - 1) as nat, d);
                if let Some(k1) = close_idx(s1, name, (e - 1) as nat) { assert(s1.subrange(k1 + 1, s1.len() as int) =~= s.subrange(k1 + 2, s.len() as int)); }
            }
        } else {
            lemma_close_split(s1, name, e, d);
            if let Some(k1) = close_idx(s1, name, e) { assert(s1.subrange(k1 + 1, s1.len() as int) =~= s.subrange(k1 + 2, s.len() as int)); }
        }
    }
}
pub trait XmlRead<'de> {}
pub trait EntityResolver {}
/// model of XmlReader (assumed): `future` is the sequence of events it will still deliver
pub struct XmlReader<'de, R, E> { pub future: Ghost<Seq<DeEvent<'de>>>, pub r: R, pub e: E }
impl<'de, R: XmlRead<'de>, E: EntityResolver> XmlReader<'de, R, E> {
    #[verifier::external_body]
    pub fn next(&mut self) -> (r: Result<DeEvent<'de>, DeError>)
        ensures all_wf(old(self).future@) ==> all_wf(final(self).future@), match r {
            Ok(e) => old(self).future@.len() > 0 && e == old(self).future@[0] && final(self).future@ == old(self).future@.subrange(1, old(self).future@.len() as int),
            Err(_) => final(self).future@ == old(self).future@,
        }
    { unimplemented!() }
    /// model of XmlReader::read_to_end (assumed; for the plain reader this is C12): consumes the events up to and
    /// including the End that closes `name`, counting nested elements of the same name
    #[verifier::external_body]
    pub fn read_to_end(&mut self, name: QName) -> (r: Result<(), DeError>)
        ensures all_wf(old(self).future@) ==> all_wf(final(self).future@),
            r is Ok ==> (close_idx(old(self).future@, name.0@, 0) matches Some(k)
                && final(self).future@ == old(self).future@.subrange(k + 1, old(self).future@.len() as int)),
    { unimplemented!() }
}

pub struct Deserializer<'de, R, E>
where
    R: XmlRead<'de>,
    E: EntityResolver,
{
    pub reader: XmlReader<'de, R, E>,
    pub read: VecDeque<DeEvent<'de>>,
    pub write: VecDeque<DeEvent<'de>>,
    pub limit: Option<NonZeroUsize>,
}

impl<'de, R, E> Deserializer<'de, R, E>
where
    R: XmlRead<'de>,
    E: EntityResolver,
{
    /// events still to be delivered, in document order
    pub open spec fn pending(&self) -> Seq<DeEvent<'de>> { self.read@ + self.reader.future@ }
    /// events skipped and held for replay
    pub open spec fn held(&self) -> Seq<DeEvent<'de>> { self.write@ }
    /// every event in flight is a well-formed value
    pub open spec fn qwf(&self) -> bool { all_wf(self.read@) && all_wf(self.write@) && all_wf(self.reader.future@) }

//@extract de::Deserializer::next | src/de/mod.rs :: impl<'de, R, E> Deserializer<'de, R, E> where R: XmlRead<'de>, E: EntityResolver, :: fn next | serves=C20 features=serialize,overlapped-lists
    fn next(&mut self) -> (r: Result<DeEvent<'de>, DeError>)
        requires old(self).qwf()
        ensures final(self).qwf(), r matches Ok(e) ==> de_wf(e),
            final(self).held() == old(self).held(), final(self).limit == old(self).limit,
            match r {
                // the head of the pending events is delivered: replayed events first, then the reader's
                Ok(e) => old(self).pending().len() > 0 && e == old(self).pending()[0]
                    && final(self).pending() == old(self).pending().subrange(1, old(self).pending().len() as int),
                Err(_) => final(self).pending() == old(self).pending(),
            }
    {
        // Replay skipped or peeked events
        if let Some(event) = self.read.pop_front() {
            proof { assert(self.pending() =~= old(self).pending().subrange(1, old(self).pending().len() as int)); }
            return Ok(event);
        }
        let ghost p0 = self.pending();
        proof { assert(p0 =~= self.reader.future@); }
        self.reader.next()
    }
//@end

//@extract de::Deserializer::skip_checkpoint | src/de/mod.rs :: impl<'de, R, E> Deserializer<'de, R, E> where R: XmlRead<'de>, E: EntityResolver, :: fn skip_checkpoint | serves=C20 features=serialize,overlapped-lists
    fn skip_checkpoint(&self) -> (r: usize)
        ensures r == self.held().len()
    {
        self.write.len()
    }
//@end

//@extract de::Deserializer::skip_event | src/de/mod.rs :: impl<'de, R, E> Deserializer<'de, R, E> where R: XmlRead<'de>, E: EntityResolver, :: fn skip_event | serves=C20 features=serialize,overlapped-lists
    fn skip_event(&mut self, event: DeEvent<'de>) -> (r: Result<(), DeError>)
        requires old(self).qwf(), de_wf(event)
        ensures final(self).qwf(), final(self).pending() == old(self).pending(), final(self).limit == old(self).limit,
            match r {
                Ok(_) => final(self).held() == old(self).held().push(event)
                    && (old(self).limit matches Some(max) ==> old(self).held().len() < max.get()),
                // the only place where the limit is consulted: fails iff the buffer already holds `max` events
                Err(e) => final(self).held() == old(self).held()
                    && (old(self).limit matches Some(max) && old(self).held().len() >= max.get() && e == DeError::TooManyEvents(max)),
            }
    {
        if let Some(max) = self.limit {
            if self.write.len() >= max.get() {
                return Err(DeError::TooManyEvents(max));
            }
        }
        self.write.push_back(event);
        Ok(())
    }
//@end

//@extract de::Deserializer::start_replay | src/de/mod.rs :: impl<'de, R, E> Deserializer<'de, R, E> where R: XmlRead<'de>, E: EntityResolver, :: fn start_replay | serves=C20 features=serialize,overlapped-lists
    fn start_replay(&mut self, checkpoint: usize)
        requires checkpoint <= old(self).held().len(), old(self).qwf()
        ensures
            final(self).qwf(),
            // the events skipped since the checkpoint are replayed first, in their original order
            final(self).pending() == old(self).held().subrange(checkpoint as int, old(self).held().len() as int) + old(self).pending(),
            final(self).held() == old(self).held().subrange(0, checkpoint as int),
            final(self).limit == old(self).limit,
    {
        if checkpoint == 0 {
            self.write.append(&mut self.read);
            std::mem::swap(&mut self.read, &mut self.write);
        } else {
            let mut read = self.write.split_off(checkpoint);
            read.append(&mut self.read);
            self.read = read;
        }
        proof {
            assert(self.pending() =~= old(self).held().subrange(checkpoint as int, old(self).held().len() as int) + old(self).pending());
            assert(self.held() =~= old(self).held().subrange(0, checkpoint as int));
        }
    }
//@end

//@extract de::Deserializer::read_to_end | src/de/mod.rs :: impl<'de, R, E> Deserializer<'de, R, E> where R: XmlRead<'de>, E: EntityResolver, :: fn read_to_end | serves=C20 features=serialize,overlapped-lists
    #[verifier::loop_isolation(false)]
    fn read_to_end(&mut self, name: QName) -> (r: Result<(), DeError>)
        requires old(self).qwf()
        ensures final(self).qwf(), final(self).held() == old(self).held(), final(self).limit == old(self).limit,
            // discards exactly the rest of the element `name`: everything up to and including the End that
            // closes it (replayed events first), counting nested elements of the same name
            r is Ok ==> (close_idx(old(self).pending(), name.0@, 0) matches Some(k)
                && final(self).pending() == old(self).pending().subrange(k + 1, old(self).pending().len() as int)),
    {
        let ghost p0 = self.pending();
        let ghost r0 = self.read@;
        let ghost f0 = self.reader.future@;
        let ghost nm = name.0@;
        let ghost mut c: int = 0;
        proof { assert(p0.subrange(0, p0.len() as int) =~= p0); }
        let mut depth = 0;
        loop
            invariant
                depth >= 0, 0 <= c <= r0.len(), self.qwf(),
                self.read@ == r0.subrange(c, r0.len() as int), self.reader.future@ == f0,
                self.held() == old(self).held(), self.limit == old(self).limit,
                close_idx(p0, nm, 0) == shift(close_idx(p0.subrange(c, p0.len() as int), nm, depth as nat), c),
            decreases self.read@.len()
        {
            // A-depth (stated assumption): fewer than 2^31 - 1 nested same-name elements
            assume(depth < 0x7fff_ffff);
            let ghost cur = p0.subrange(c, p0.len() as int);
            proof {
                if c < r0.len() {
                    assert(cur[0] == r0[c]);
                    assert(cur.subrange(1, cur.len() as int) =~= p0.subrange(c + 1, p0.len() as int));
                    assert(self.read@[0] == r0[c]);
                }
            }
            match self.read.pop_front() {
                Some(DeEvent::Start(e)) if e.name() == name => {
                    proof {
                        assert(is_start_of(cur[0], nm));
                        assert(self.read@ =~= r0.subrange(c + 1, r0.len() as int));
                        c = c + 1;
                    }
                    depth += 1;
                }
                Some(DeEvent::End(e)) if e.name() == name => {
                    proof {
                        assert(is_end_of(cur[0], nm) && !is_start_of(cur[0], nm));
                        assert(self.read@ =~= r0.subrange(c + 1, r0.len() as int));
                        assert(self.pending() =~= p0.subrange(c + 1, p0.len() as int));
                        c = c + 1;
                    }
                    if depth == 0 {
                        break;
                    }
                    depth -= 1;
                }

                // Drop all other skipped events
                Some(_) => { proof {
                        assert(!is_start_of(cur[0], nm) && !is_end_of(cur[0], nm));
                        assert(self.read@ =~= r0.subrange(c + 1, r0.len() as int));
                        c = c + 1;
                    } continue },

                // If we do not have skipped events, use effective reading that will
                // not allocate memory for events
                None => {
                    // We should close all opened tags, because we could buffer
                    // Start events, but not the corresponding End events. So we
                    // keep reading events until we exit all nested tags.
                    // `read_to_end()` will return an error if an Eof was encountered
                    // preliminary (in case of malformed XML).
                    //
                    // <tag><tag></tag></tag>
                    // ^^^^^^^^^^             - buffered in `self.read`, when `self.read_to_end()` is called, depth = 2
                    //           ^^^^^^       - read by the first call of `self.reader.read_to_end()`
                    //                 ^^^^^^ - read by the second call of `self.reader.read_to_end()`
                    let ghost mut m: int = 0;
                    proof {
                        assert(c == r0.len());
                        assert(p0.subrange(c, p0.len() as int) =~= f0);
                        assert(f0.subrange(0, f0.len() as int) =~= f0);
                    }
                    loop
                        invariant
                            depth >= 0, 0 <= m <= f0.len(), c == r0.len(), self.qwf(), self.read@.len() == 0,
                            self.reader.future@ == f0.subrange(m, f0.len() as int),
                            self.held() == old(self).held(), self.limit == old(self).limit,
                            close_idx(p0, nm, 0) == shift(close_idx(f0.subrange(m, f0.len() as int), nm, depth as nat), c + m),
                        decreases depth
                    {
                        let ghost curf = self.reader.future@;
                        proof { if depth > 0 { lemma_close_split(curf, nm, 0, (depth - 1) as nat); } else { lemma_close_split(curf, nm, 0, 0); } }
                        self.reader.read_to_end(name)?;
                        proof {
                            let k = close_idx(curf, nm, 0)->Some_0;
                            assert(curf.subrange(k + 1, curf.len() as int) =~= f0.subrange(m + k + 1, f0.len() as int));
                            assert(self.pending() =~= p0.subrange(c + m + k + 1, p0.len() as int));
                            m = m + k + 1;
                        }
                        if depth == 0 {
                            break;
                        }
                        depth -= 1;
                    }
                    break;
                }
            }
        }
        Ok(())
    }
//@end

//@extract de::Deserializer::skip | src/de/mod.rs :: impl<'de, R, E> Deserializer<'de, R, E> where R: XmlRead<'de>, E: EntityResolver, :: fn skip | serves=C20 features=serialize,overlapped-lists
    #[verifier::loop_isolation(false)]
    fn skip(&mut self) -> (r: Result<(), DeError>)
        requires old(self).qwf()
        ensures final(self).limit == old(self).limit, final(self).qwf(),
            // one event or one whole subtree moves from the head of `pending` to the tail of `held`:
            // nothing is lost, duplicated or re-ordered
            r is Ok ==> exists|n: int| 1 <= n <= old(self).pending().len()
                && final(self).pending() == old(self).pending().subrange(n, old(self).pending().len() as int)
                && #[trigger] final(self).held() == old(self).held() + old(self).pending().subrange(0, n)
                // ... exactly one: a Start event takes its whole element with it, up to and including the End that
                // closes it (nested elements of the same name counted), or everything up to Eof if it is never closed
                && skip_extent(old(self).pending(), n),
            // C20: the buffer never grows beyond the configured limit -- every event held went through the limit check
            r is Ok ==> (old(self).limit matches Some(max) ==> final(self).held().len() <= max.get()),
    {
        let ghost p0 = self.pending();
        let ghost h0 = self.held();
        let ghost mut n: int = 1;
        proof { axiom_seq_eq_u8(); }
        let event = self.next()?;
        self.skip_event(event)?;
        proof {
            assert(self.pending() =~= p0.subrange(1, p0.len() as int));
            assert(self.held() =~= h0 + p0.subrange(0, 1));
        }
        let ghost tail = p0.subrange(1, p0.len() as int);
        match self.write.back() {
            // Skip all subtree, if we skip a start event
            Some(DeEvent::Start(e)) => {
                let end = e.name().as_ref().to_owned();
                let ghost nm = end@;
                proof {
                    assert(tail.subrange(0, tail.len() as int) =~= tail);
                    assert(p0[0] == DeEvent::Start(*e));
                    assert(nm =~= e.buf@.subrange(0, e.name_len as int));
                }
                let mut depth = 0;
                loop
                    invariant
                        1 <= n <= p0.len(), self.limit == old(self).limit, depth >= 0, self.qwf(),
                        self.pending() == p0.subrange(n, p0.len() as int),
                        self.held() == h0 + p0.subrange(0, n),
                        self.limit matches Some(max) ==> self.held().len() <= max.get(),
                        is_start_of(p0[0], nm),
                        forall|j: int| 1 <= j < n ==> !(#[trigger] p0[j] is Eof),
                        close_idx(tail, nm, 0) == shift(close_idx(tail.subrange(n - 1, tail.len() as int), nm, depth as nat), n - 1),
                    decreases self.pending().len()
                {
                    let ghost cur = tail.subrange(n - 1, tail.len() as int);
                    proof {
                        if n < p0.len() {
                            assert(cur[0] == p0[n]);
                            assert(cur.subrange(1, cur.len() as int) =~= tail.subrange(n, tail.len() as int));
                        }
                    }
                    // A-depth (stated assumption): fewer than 2^31 - 1 nested same-name elements
                    assume(depth < 0x7fff_ffff);
                    let event = self.next()?;
                    match event {
                        DeEvent::Start(ref e) if e.name().as_ref() == end => {
                            self.skip_event(event)?;
                            proof {
                                assert(is_start_of(cur[0], nm));
                                assert(self.pending() =~= p0.subrange(n + 1, p0.len() as int));
                                assert(self.held() =~= h0 + p0.subrange(0, n + 1));
                                n = n + 1;
                            }
                            depth += 1;
                        }
                        DeEvent::End(ref e) if e.name().as_ref() == end => {
                            self.skip_event(event)?;
                            proof {
                                assert(is_end_of(cur[0], nm) && !is_start_of(cur[0], nm));
                                assert(self.pending() =~= p0.subrange(n + 1, p0.len() as int));
                                assert(self.held() =~= h0 + p0.subrange(0, n + 1));
                                n = n + 1;
                            }
                            if depth == 0 {
                                break;
                            }
                            depth -= 1;
                        }
                        DeEvent::Eof => {
                            self.skip_event(event)?;
                            proof {
                                assert(self.pending() =~= p0.subrange(n + 1, p0.len() as int));
                                assert(self.held() =~= h0 + p0.subrange(0, n + 1));
                                n = n + 1;
                            }
                            break;
                        }
                        _ => { self.skip_event(event)?; proof {
                                assert(!is_start_of(cur[0], nm) && !is_end_of(cur[0], nm) && !(cur[0] is Eof));
                                assert(self.pending() =~= p0.subrange(n + 1, p0.len() as int));
                                assert(self.held() =~= h0 + p0.subrange(0, n + 1));
                                n = n + 1;
                            } },
                    }
                }
            }
            _ => (),
        }
        proof { assert(skip_extent(p0, n)); }
        Ok(())
    }
//@end
}
}
