// ---------------------------------------------------------------------------------------------
// U-writer: Indentation and Writer::{write_event, write, write_wrapped, write_indent, write_bom}
// (src/writer.rs) and the async copies (src/writer/async_tokio.rs), against ONE contract:
//   out' == out ++ pre(event) ++ render(event),  pre = "\n" + indent only before markup when the flag is set
// ---------------------------------------------------------------------------------------------

pub mod writer_ {
use super::*;
use vstd::prelude::*;
use crate::encoding::UTF8_BOM;

//@extract writer::Indentation | src/writer.rs :: struct Indentation | serves=C19
 pub struct Indentation {
    /// todo: this is an awkward fit as it has no impact on indentation logic, but it is
    /// only applicable when an indentation exists. Potentially refactor later
    pub should_line_break: bool,
    /// The character code to be used for indentations (e.g. ` ` or `\t`)
    pub indent_char: u8,
    /// How many instances of the indent character ought to be used for each level of indentation
    pub indent_size: usize,
    /// Used as a cache for the bytes used for indentation
    pub indents: Vec<u8>,
    /// The current amount of indentation
    pub current_indent_len: usize,
}
//@end
//@extract writer::Writer | src/writer.rs :: struct Writer | serves=C19
 pub struct Writer<W> {
    /// underlying writer
    pub writer: W,
    pub indent: Option<Indentation>,
}
//@end

impl Indentation {
//@extract writer::Indentation::new | src/writer.rs :: impl Indentation :: fn new | serves=C09,C19
 pub fn new(indent_char: u8, indent_size: usize) -> (r: Self)
        ensures r.inv(), r.indent_char == indent_char, r.indent_size == indent_size, r.current_indent_len == 0, !r.should_line_break
 {
        Self {
            should_line_break: false,
            indent_char,
            indent_size,
            indents: vec![indent_char; 128],
            current_indent_len: 0, // invariant - needs to remain less than indents.len()
        }
    }
//@end
//@extract writer::Indentation::grow | src/writer.rs :: impl Indentation :: fn grow | serves=C09,C19
 pub fn grow(&mut self)
        requires old(self).inv(), old(self).current_indent_len + old(self).indent_size <= usize::MAX
        ensures final(self).inv(), final(self).current_indent_len == old(self).current_indent_len + old(self).indent_size,
            final(self).indent_char == old(self).indent_char, final(self).indent_size == old(self).indent_size, final(self).should_line_break == old(self).should_line_break
 {
        self.current_indent_len += self.indent_size;
        self.ensure(self.current_indent_len);
    }
//@end
//@extract writer::Indentation::shrink | src/writer.rs :: impl Indentation :: fn shrink | serves=C09,C19
 pub fn shrink(&mut self)
        requires old(self).inv()
        ensures final(self).inv(), final(self).indent_char == old(self).indent_char, final(self).indent_size == old(self).indent_size, final(self).should_line_break == old(self).should_line_break,
            // saturating: more End events than Start events leave the level at zero
            final(self).current_indent_len == if old(self).current_indent_len >= old(self).indent_size { old(self).current_indent_len - old(self).indent_size } else { 0 }
 {
        self.current_indent_len = self.current_indent_len.saturating_sub(self.indent_size);
    }
//@end
//@extract writer::Indentation::current | src/writer.rs :: impl Indentation :: fn current | serves=C09,C19
 pub fn current(&self) -> (r: &[u8])
        requires self.inv()
        ensures r@.len() == self.current_indent_len, forall|i: int| 0 <= i < r@.len() ==> r@[i] == self.indent_char
 {
        &self.indents[..self.current_indent_len]
    }
//@end
//@extract writer::Indentation::additional | src/writer.rs :: impl Indentation :: fn additional | serves=C09,C19
 pub fn additional(&mut self, additional_indent: usize) -> (r: &[u8])
        requires old(self).inv(), old(self).current_indent_len + additional_indent <= usize::MAX
        ensures r@.len() == old(self).current_indent_len + additional_indent, forall|i: int| 0 <= i < r@.len() ==> r@[i] == old(self).indent_char,
            // only the cache of indent characters may grow
            final(self).inv(), final(self).indent_char == old(self).indent_char, final(self).indent_size == old(self).indent_size,
            final(self).current_indent_len == old(self).current_indent_len, final(self).should_line_break == old(self).should_line_break,
 {
        let new_len = self.current_indent_len + additional_indent;
        self.ensure(new_len);
        &self.indents[..new_len]
    }
//@end
//@extract writer::Indentation::ensure | src/writer.rs :: impl Indentation :: fn ensure | serves=C09,C19
    fn ensure(&mut self, new_len: usize)
        requires forall|i: int| 0 <= i < old(self).indents@.len() ==> old(self).indents@[i] == old(self).indent_char
        ensures final(self).indents@.len() >= new_len, final(self).indents@.len() >= old(self).indents@.len(),
            // the buffer holds indent characters only, also beyond the preallocated 128 bytes
            forall|i: int| 0 <= i < final(self).indents@.len() ==> final(self).indents@[i] == final(self).indent_char,
            final(self).indent_char == old(self).indent_char, final(self).indent_size == old(self).indent_size,
            final(self).current_indent_len == old(self).current_indent_len, final(self).should_line_break == old(self).should_line_break
 {
        if self.indents.len() < new_len {
            self.indents.resize(new_len, self.indent_char);
            proof {
                let n0 = old(self).indents@.len() as int;
                assert(self.indents@.subrange(0, n0) == old(self).indents@);
                assert forall|i: int| 0 <= i < self.indents@.len() implies self.indents@[i] == self.indent_char by {
                    if i < n0 { assert(self.indents@[i] == self.indents@.subrange(0, n0)[i]); }
                }
            }
        }
    }
//@end
}

impl<W> Writer<W> {
//@extract writer::Writer::new | src/writer.rs :: impl<W> Writer<W> :: fn new | serves=C19
 pub fn new(inner: W) -> (r: Writer<W>)
        // C19: the plain writer never indents
        ensures r.writer == inner, r.indent is None, r.inv()
 {
        Writer {
            writer: inner,
            indent: None,
        }
    }
//@end
//@extract writer::Writer::new_with_indent | src/writer.rs :: impl<W> Writer<W> :: fn new_with_indent | serves=C19
 pub fn new_with_indent(inner: W, indent_char: u8, indent_size: usize) -> (r: Writer<W>)
        // C19: the indenting writer starts at level 0 with the configured character and width; nothing is due before the first event
        ensures r.writer == inner, r.inv(),
            r.indent matches Some(i) && i.indent_char == indent_char && i.indent_size == indent_size && i.current_indent_len == 0 && !i.should_line_break
 {
        Writer {
            writer: inner,
            indent: Some(Indentation::new(indent_char, indent_size)),
        }
    }
//@end
//@extract writer::Writer::into_inner | src/writer.rs :: impl<W> Writer<W> :: fn into_inner | serves=C19
 pub fn into_inner(self) -> (r: W)
        ensures r == self.writer
 {
        self.writer
    }
//@end
}
impl<W: Write> Writer<W> {
//@extract writer::Writer::write_bom | src/writer.rs :: impl<W: Write> Writer<W> :: fn write_bom | serves=C08
 pub fn write_bom(&mut self) -> (r: io::Result<()>)
        ensures r is Ok ==> final(self).writer.out() =~= old(self).writer.out() + utf8_bom(), final(self).indent == old(self).indent,
 {
        self.write(UTF8_BOM)
    }
//@end
//@extract writer::Writer::write_event | src/writer.rs :: impl<W: Write> Writer<W> :: fn write_event | serves=C08,C09,C19
//@rewrite write_event<'a, E: Into<Event<'a>>>(&mut self, event: E) ==> write_event<'a>(&mut self, event: Event<'a>)
//@rewrite match event.into() { ==> match event {
 pub(crate) fn write_event<'a>(&mut self, event: Event<'a>) -> (res: io::Result<()>)
        requires old(self).inv(),
            // A-size for the writer: the indentation depth counter does not overflow usize
            old(self).indent matches Some(i) ==> i.current_indent_len + 2 * i.indent_size <= usize::MAX,
        ensures
            // C19 / C08: the payload is written untouched between its delimiters; indentation adds only pre()
            res is Ok ==> final(self).writer.out() == old(self).writer.out() + old(self).pre(event) + render(event),
            res is Ok ==> wrote(*old(self), event, *final(self)),
            old(self).indent is None ==> final(self).indent is None,
            res is Ok ==> (old(self).indent matches Some(i0) ==> (final(self).indent matches Some(i1)
                && i1.inv() && i1.indent_char == i0.indent_char && i1.indent_size == i0.indent_size
                && i1.should_line_break == !(event is Text || event is CData)
                && i1.current_indent_len as int == (if event is Start { i0.current_indent_len + i0.indent_size }
                      else if event is End { if i0.current_indent_len >= i0.indent_size { i0.current_indent_len - i0.indent_size } else { 0int } }
                      else { i0.current_indent_len as int }))),
 {
        let mut next_should_line_break = true;
        let result = match event {
            Event::Start(e) => {
                let result = self.write_wrapped(&[b'<'], &e, &[b'>']);
                if let Some(i) = self.indent.as_mut() {
                    i.grow();
                }
                result
            }
            Event::End(e) => {
                if let Some(i) = self.indent.as_mut() {
                    i.shrink();
                }
                self.write_wrapped(&[b'<', b'/'], &e, &[b'>'])
            }
            Event::Empty(e) => self.write_wrapped(&[b'<'], &e, &[b'/', b'>']),
            Event::Text(e) => {
                next_should_line_break = false;
                self.write(&e)
            }
            Event::Comment(e) => self.write_wrapped(&[b'<', b'!', b'-', b'-'], &e, &[b'-', b'-', b'>']),
            Event::CData(e) => {
                next_should_line_break = false;
                self.write(&[b'<', b'!', b'[', b'C', b'D', b'A', b'T', b'A', b'['])?;
                self.write(&e)?;
                self.write(&[b']', b']', b'>'])
            }
            Event::Decl(e) => self.write_wrapped(&[b'<', b'?'], &e, &[b'?', b'>']),
            Event::PI(e) => self.write_wrapped(&[b'<', b'?'], &e, &[b'?', b'>']),
            Event::DocType(e) => self.write_wrapped(&[b'<', b'!', b'D', b'O', b'C', b'T', b'Y', b'P', b'E', b' '], &e, &[b'>']),
            Event::Eof => Ok(()),
        };
        if let Some(i) = self.indent.as_mut() {
            i.should_line_break = next_should_line_break;
        }
        proof {
            if result is Ok {
                let w0 = *old(self); let w1 = *self;
                assert(w1.writer.out() == w0.writer.out() + w0.pre(event) + render(event));
                assert(w0.indent is None ==> w1.indent is None);
                assert(wrote(w0, event, w1));
            }
        }
        result
    }
//@end
//@extract writer::Writer::write | src/writer.rs :: impl<W: Write> Writer<W> :: fn write | serves=C08,C09,C19
 pub(crate) fn write(&mut self, value: &[u8]) -> (r: io::Result<()>)
        ensures final(self).indent == old(self).indent,
            r is Ok ==> final(self).writer.out() == old(self).writer.out() + value@,
 {
        self.writer.write_all(value).map_err(Into::into)
    }
//@end
//@extract writer::Writer::write_wrapped | src/writer.rs :: impl<W: Write> Writer<W> :: fn write_wrapped | serves=C08,C09,C19
    fn write_wrapped(&mut self, before: &[u8], value: &[u8], after: &[u8]) -> (r: io::Result<()>)
        requires old(self).inv()
        ensures final(self).indent == old(self).indent,
            r is Ok ==> final(self).writer.out() == old(self).writer.out()
                + (match old(self).indent { Some(i) => if i.should_line_break { nl_indent(i.indent_char, i.current_indent_len as nat) } else { Seq::empty() }, None => Seq::empty() })
                + before@ + value@ + after@,
 {
        if let Some(ref i) = self.indent {
            if i.should_line_break {
                self.writer.write_all(&[b'\n'])?;
                self.writer.write_all(i.current())?;
            }
        }
        self.write(before)?;
        self.write(value)?;
        self.write(after)?;
        Ok(())
    }
//@end
//@extract writer::Writer::write_indent | src/writer.rs :: impl<W: Write> Writer<W> :: fn write_indent | serves=C19
 pub fn write_indent(&mut self) -> (r: io::Result<()>)
        requires old(self).inv()
        ensures final(self).indent == old(self).indent,
            r is Ok ==> final(self).writer.out() == old(self).writer.out()
                + (match old(self).indent { Some(i) => nl_indent(i.indent_char, i.current_indent_len as nat), None => Seq::empty() }),
 {
        if let Some(ref i) = self.indent {
            self.writer.write_all(&[b'\n'])?;
            self.writer.write_all(i.current())?;
        }
        Ok(())
    }
//@end
}
}

// ---- the asynchronous copies (src/writer/async_tokio.rs), `async`/`.await` erased: same contract ----
pub mod writer_async_ {
use super::*;
use vstd::prelude::*;
use crate::writer_::*;
pub type Result<T> = core::result::Result<T, Error>;

impl<W: Write> Writer<W> {
//@extract writer_async::write_event_async | src/writer/async_tokio.rs :: impl<W: AsyncWrite + Unpin> Writer<W> :: fn write_event_async | serves=C09,C19 features=async-tokio drop=async,await
//@rewrite write_event_async<'a, E: Into<Event<'a>>>(&mut self, event: E) ==> write_event_async<'a>(&mut self, event: Event<'a>)
//@rewrite match event.into() { ==> match event {
 pub(crate) fn write_event_async<'a>(&mut self, event: Event<'a>) -> (res: Result<()>)
        requires old(self).inv(),
            old(self).indent matches Some(i) ==> i.current_indent_len + 2 * i.indent_size <= usize::MAX,
        ensures
            // the same contract as the synchronous write_event: both write the same bytes (C09)
            res is Ok ==> final(self).writer.out() == old(self).writer.out() + old(self).pre(event) + render(event),
            old(self).indent is None ==> final(self).indent is None,
            res is Ok ==> (old(self).indent matches Some(i0) ==> (final(self).indent matches Some(i1)
                && i1.inv() && i1.indent_char == i0.indent_char && i1.indent_size == i0.indent_size
                && i1.should_line_break == !(event is Text || event is CData)
                && i1.current_indent_len as int == (if event is Start { i0.current_indent_len + i0.indent_size }
                      else if event is End { if i0.current_indent_len >= i0.indent_size { i0.current_indent_len - i0.indent_size } else { 0int } }
                      else { i0.current_indent_len as int }))),
 {
        let mut next_should_line_break = true;
        let result = match event {
            Event::Start(e) => {
                let result = self.write_wrapped_async(&[b'<'], &e, &[b'>']);
                if let Some(i) = self.indent.as_mut() {
                    i.grow();
                }
                result
            }
            Event::End(e) => {
                if let Some(i) = self.indent.as_mut() {
                    i.shrink();
                }
                self.write_wrapped_async(&[b'<', b'/'], &e, &[b'>'])
            }
            Event::Empty(e) => self.write_wrapped_async(&[b'<'], &e, &[b'/', b'>']),
            Event::Text(e) => {
                next_should_line_break = false;
                self.write_async(&e)
            }
            Event::Comment(e) => self.write_wrapped_async(&[b'<', b'!', b'-', b'-'], &e, &[b'-', b'-', b'>']),
            Event::CData(e) => {
                next_should_line_break = false;
                self.write_async(&[b'<', b'!', b'[', b'C', b'D', b'A', b'T', b'A', b'['])?;
                self.write_async(&e)?;
                self.write_async(&[b']', b']', b'>'])
            }
            Event::Decl(e) => self.write_wrapped_async(&[b'<', b'?'], &e, &[b'?', b'>']),
            Event::PI(e) => self.write_wrapped_async(&[b'<', b'?'], &e, &[b'?', b'>']),
            Event::DocType(e) => self.write_wrapped_async(&[b'<', b'!', b'D', b'O', b'C', b'T', b'Y', b'P', b'E', b' '], &e, &[b'>']),
            Event::Eof => Ok(()),
        };
        if let Some(i) = self.indent.as_mut() {
            i.should_line_break = next_should_line_break;
        }
        result
    }
//@end
//@extract writer_async::write_indent_async | src/writer/async_tokio.rs :: impl<W: AsyncWrite + Unpin> Writer<W> :: fn write_indent_async | serves=C09,C19 features=async-tokio drop=async,await n11=all
 pub fn write_indent_async(&mut self) -> (r: Result<()>)
        requires old(self).inv()
        ensures final(self).indent == old(self).indent,
            r is Ok ==> final(self).writer.out() == old(self).writer.out()
                + (match old(self).indent { Some(i) => nl_indent(i.indent_char, i.current_indent_len as nat), None => Seq::empty() }),
 {
        if let Some(ref i) = self.indent {
            match self.writer.write_all(&[b'\n']) { Ok(v__) => v__, Err(e__) => return Err(From::from(e__)) };
            match self.writer.write_all(i.current()) { Ok(v__) => v__, Err(e__) => return Err(From::from(e__)) };
        }
        Ok(())
    }
//@end
//@extract writer_async::write_async | src/writer/async_tokio.rs :: impl<W: AsyncWrite + Unpin> Writer<W> :: fn write_async | serves=C09,C19 features=async-tokio drop=async,await
 fn write_async(&mut self, value: &[u8]) -> (r: Result<()>)
        ensures final(self).indent == old(self).indent,
            r is Ok ==> final(self).writer.out() == old(self).writer.out() + value@,
 {
        self.writer.write_all(value).map_err(Into::into)
    }
//@end
//@extract writer_async::write_wrapped_async | src/writer/async_tokio.rs :: impl<W: AsyncWrite + Unpin> Writer<W> :: fn write_wrapped_async | serves=C09,C19 features=async-tokio drop=async,await n11=1,2
 fn write_wrapped_async(
        &mut self,
        before: &[u8],
        value: &[u8],
        after: &[u8],
    ) -> (r: Result<()>)
        requires old(self).inv()
        ensures final(self).indent == old(self).indent,
            r is Ok ==> final(self).writer.out() == old(self).writer.out()
                + (match old(self).indent { Some(i) => if i.should_line_break { nl_indent(i.indent_char, i.current_indent_len as nat) } else { Seq::empty() }, None => Seq::empty() })
                + before@ + value@ + after@,
    {
        if let Some(ref i) = self.indent {
            if i.should_line_break {
                match self.writer.write_all(&[b'\n']) { Ok(v__) => v__, Err(e__) => return Err(From::from(e__)) };
                match self.writer.write_all(i.current()) { Ok(v__) => v__, Err(e__) => return Err(From::from(e__)) };
            }
        }
        self.write_async(before)?;
        self.write_async(value)?;
        self.write_async(after)?;
        Ok(())
    }
//@end
}
}
