// ---------------------------------------------------------------------------------------------
// U-scan: the byte scanners. Real text extracted from the working tree on every run.
// ---------------------------------------------------------------------------------------------
//@extract utils::is_whitespace | src/utils.rs :: fn is_whitespace | serves=C01,C03,C16
 pub fn is_whitespace(b: u8) -> (r: bool)
    ensures r == is_ws(b)
{
    matches!(b, b' ' | b'\r' | b'\n' | b'\t')
}
//@end

//@extract utils::name_len | src/utils.rs :: fn name_len | serves=C01,C03,C04
 pub fn name_len(mut bytes: &[u8]) -> (r: usize)
    ensures r == spec_name_len(bytes@), r <= bytes@.len()
{
    let ghost b0 = bytes@;
    proof { axiom_slice_len(bytes); }
    assert(b0.subrange(0, b0.len() as int) =~= b0);
    // Note: A pattern matching based approach (instead of indexing) allows
    // making the function const.
    let mut len = 0;
    loop
        invariant b0.len() <= usize::MAX, len + bytes@.len() == b0.len(), bytes@ == b0.subrange(len as int, b0.len() as int),
            spec_name_len(b0) == len + spec_name_len(bytes@),
        ensures spec_name_len(bytes@) == 0,
        decreases bytes@.len()
    { match bytes.split_first() { Some((first, rest)) => {
        if is_whitespace(*first) {
            break;
        }
        len += 1;
        proof { assert(rest@ =~= b0.subrange(len as int, b0.len() as int)); }
        bytes = rest;
    } _ => { break; } } }
    len
}
//@end

//@extract parser::ElementParser | src/parser/element.rs :: enum ElementParser | serves=C01,C02,C03,C08,C12,C18
 #[derive(Clone, Copy)]
 pub enum ElementParser {
    /// The initial state (inside element, but outside of attribute value).
    Outside,
    /// Inside a single-quoted region (`'...'`).
    SingleQ,
    /// Inside a double-quoted region (`"..."`).
    DoubleQ,
}
//@end

//@extract parser::PiParser | src/parser/pi.rs :: struct PiParser | serves=C01,C02,C03,C08,C12,C18
 #[derive(Clone, Copy)]
 pub struct PiParser(
    /// A flag that indicates was the `bytes` in the previous attempt to find the
    /// end ended with `?`.
    pub bool,
);
//@end

//@extract parser::Parser | src/parser/mod.rs :: trait Parser | serves=C01,C02,C03,C08,C12,C18
 pub trait Parser: Sized {
    /// index of the terminator of the construct when scanning `bytes` from this state
    spec fn end(&self, bytes: Seq<u8>) -> Option<int>;
    /// scanner state after `bytes` that contain no terminator
    spec fn after(&self, bytes: Seq<u8>) -> Self;
    spec fn spec_eof_error() -> SyntaxError;
    proof fn law_bounds(&self, s: Seq<u8>)
        ensures self.end(s) matches Some(i) ==> 0 <= i < s.len();
    /// scanning a + b equals scanning a, then b from the state reached
    proof fn law_concat(&self, a: Seq<u8>, b: Seq<u8>)
        ensures
            self.end(a + b) == (match self.end(a) {
                Some(i) => Some(i),
                None => match self.after(a).end(b) { Some(j) => Some(a.len() + j), None => None },
            }),
            self.end(a) is None ==> self.after(a + b) == self.after(a).after(b);
    proof fn law_empty(&self)
        ensures self.end(Seq::<u8>::empty()) is None, self.after(Seq::<u8>::empty()) == *self;

    /// Process new data and try to determine end of the parsed thing.
    ///
    /// Returns position of the end of thing in `bytes` in case of successful search
    /// and `None` otherwise.
    ///
    /// # Parameters
    /// - `bytes`: a slice to find the end of a thing.
    ///   Should contain text in ASCII-compatible encoding
    fn feed(&mut self, bytes: &[u8]) -> (r: Option<usize>)
        ensures match r {
            Some(i) => old(self).end(bytes@) == Some(i as int),
            // (the state after feeding an empty slice is not specified: sources never feed one)
            None => old(self).end(bytes@) is None && (bytes@.len() > 0 ==> *final(self) == old(self).after(bytes@)),
        };

    /// Returns parse error produced by this parser in case of reaching end of
    /// input without finding the end of a parsed thing.
    fn eof_error() -> (r: SyntaxError)
        ensures r == Self::spec_eof_error();
}
//@end

//@extract parser::ElementParser::impl | src/parser/element.rs :: impl Parser for ElementParser | serves=C01,C02,C03,C08,C12,C18
impl Parser for ElementParser {
    open spec fn end(&self, bytes: Seq<u8>) -> Option<int> { tag_end(*self, bytes) }
    open spec fn after(&self, bytes: Seq<u8>) -> Self { q_after(*self, bytes) }
    open spec fn spec_eof_error() -> SyntaxError { SyntaxError::UnclosedTag }
    proof fn law_bounds(&self, s: Seq<u8>) { lemma_tag_bounds(*self, s); }
    proof fn law_concat(&self, a: Seq<u8>, b: Seq<u8>) { lemma_tag_concat(*self, a, b); }
    proof fn law_empty(&self) {}

    /// Returns number of consumed bytes or `None` if `>` was not found in `bytes`.
    #[verifier::loop_isolation(false)]
    #[verifier::allow_complex_invariants]
    fn feed(&mut self, bytes: &[u8]) -> (r: Option<usize>) {
        let ghost q0 = *self;
        { let mut __it1 = memchr::memchr3_iter(b'>', b'\'', b'"', bytes); loop
            invariant_except_break __it1.wf(), __it1.hay == bytes, __it1.n1 == 0x3e, __it1.n2 == 0x27, __it1.n3 == 0x22,
                tag_end(q0, bytes@.subrange(0, __it1.pos as int)) is None,
                *self == q_after(q0, bytes@.subrange(0, __it1.pos as int)),
            ensures tag_end(q0, bytes@) is None, *self == q_after(q0, bytes@),
            decreases bytes@.len() - __it1.pos
        { let ghost p_old = __it1.pos; match __it1.next() { None => { proof {
            let done = bytes@.subrange(0, p_old as int);
            let plain = bytes@.subrange(p_old as int, bytes@.len() as int);
            lemma_tag_plain(*self, plain);
            lemma_tag_concat(q0, done, plain);
            assert(done + plain =~= bytes@);
        } break; } Some( i) => {
            proof {
                let done = bytes@.subrange(0, p_old as int);
                let plain = bytes@.subrange(p_old as int, i as int);
                lemma_tag_plain(*self, plain);
                lemma_tag_concat(q0, done, plain);
                assert(done + plain =~= bytes@.subrange(0, i as int));
                lemma_tag_one(*self, bytes@[i as int]);
                lemma_tag_concat(q0, bytes@.subrange(0, i as int), seq![bytes@[i as int]]);
                assert(bytes@.subrange(0, i as int) + seq![bytes@[i as int]] =~= bytes@.subrange(0, i + 1));
                lemma_tag_concat(q0, bytes@.subrange(0, i + 1), bytes@.subrange(i + 1, bytes@.len() as int));
                assert(bytes@.subrange(0, i + 1) + bytes@.subrange(i + 1, bytes@.len() as int) =~= bytes@);
            }
            *self = match (*self, bytes[i]) {
                // only allowed to match `>` while we are in state `Outside`
                (Self::Outside, b'>') => return Some(i),
                (Self::Outside, b'\'') => Self::SingleQ,
                (Self::Outside, b'\"') => Self::DoubleQ,

                // the only end_byte that gets us out if the same character
                (Self::SingleQ, b'\'') | (Self::DoubleQ, b'"') => Self::Outside,

                // all other bytes: no state change
                _ => continue,
            };
        } } } }
        None
    }

    fn eof_error() -> (r: SyntaxError) {
        SyntaxError::UnclosedTag
    }
}
//@end

//@extract parser::PiParser::impl | src/parser/pi.rs :: impl Parser for PiParser | serves=C01,C02,C03,C08,C12,C18
impl Parser for PiParser {
    open spec fn end(&self, bytes: Seq<u8>) -> Option<int> { pi_end(self.0, bytes) }
    open spec fn after(&self, bytes: Seq<u8>) -> Self { PiParser(pi_last(self.0, bytes)) }
    open spec fn spec_eof_error() -> SyntaxError { SyntaxError::UnclosedPIOrXmlDecl }
    proof fn law_bounds(&self, s: Seq<u8>) { lemma_pi_first(self.0, s); }
    proof fn law_concat(&self, a: Seq<u8>, b: Seq<u8>) {
        lemma_pi_concat(self.0, a, b);
        if b.len() > 0 { assert((a + b)[(a + b).len() - 1] == b[b.len() - 1]); } else { assert(a + b =~= a); }
    }
    proof fn law_empty(&self) {}

    /// Determines the end position of a processing instruction in the provided slice.
    /// Processing instruction ends on the first occurrence of `?>` which cannot be
    /// escaped.
    ///
    /// Returns position after the `?>` or `None` if such sequence was not found.
    ///
    /// [Section 2.6]: Parameter entity references MUST NOT be recognized within
    /// processing instructions, so parser do not search for them.
    ///
    /// # Parameters
    /// - `bytes`: a slice to find the end of a processing instruction.
    ///   Should contain text in ASCII-compatible encoding
    ///
    /// [Section 2.6]: https://www.w3.org/TR/xml11/#sec-pi
    #[verifier::loop_isolation(false)]
    fn feed(&mut self, bytes: &[u8]) -> (r: Option<usize>) {
        let ghost prev = self.0;
        { let mut __it1 = memchr::memchr_iter(b'>', bytes); loop
            invariant __it1.wf(), __it1.hay == bytes, __it1.n1 == 0x3e, __it1.n2 == 0x3e, __it1.n3 == 0x3e,
                *self == *old(self),
                forall|j: int| 0 <= j < __it1.pos ==> !pi_term(prev, bytes@, j),
            decreases bytes@.len() - __it1.pos
        { match __it1.next() { None => { break; } Some( i) => {
            proof { if pi_term(prev, bytes@, i as int) { lemma_pi_decide(prev, bytes@, i as int); } }
            match i {
                0 if self.0 => return Some(0),
                // If the previous byte is `?`, then we found `?>`
                i if i > 0 && bytes[i - 1] == b'?' => return Some(i),
                _ => {}
            }
        } } } }
        proof { lemma_pi_none(prev, bytes@); }
        self.0 = bytes.last().copied() == Some(b'?');
        None
    }

    fn eof_error() -> (r: SyntaxError) {
        SyntaxError::UnclosedPIOrXmlDecl
    }
}
//@end

//@extract reader::BangType | src/reader/mod.rs :: enum BangType | serves=C01,C02,C03,C08,C12,C18
#[derive(Clone, Copy)]
pub enum BangType {
    /// <![CDATA[...]]>
    CData,
    /// <!--...-->
    Comment,
    /// <!DOCTYPE...>. Contains balance of '<' (+1) and '>' (-1)
    DocType(u64),
}
//@end

impl BangType {
//@extract reader::BangType::new | src/reader/mod.rs :: impl BangType :: fn new | serves=C01,C02,C03,C08,C12,C18
 pub fn new(byte: Option<u8>) -> (r: Result<Self, SyntaxError>)
        ensures r == (match byte {
            Some(0x5b) => Ok::<BangType, SyntaxError>(BangType::CData),
            Some(0x2d) => Ok(BangType::Comment),
            Some(0x44) | Some(0x64) => Ok(BangType::DocType(0)),
            _ => Err(SyntaxError::InvalidBangMarkup),
        })
 {
        Ok(match byte {
            Some(b'[') => Self::CData,
            Some(b'-') => Self::Comment,
            Some(b'D') | Some(b'd') => Self::DocType(0),
            _ => return Err(SyntaxError::InvalidBangMarkup),
        })
    }
//@end

//@extract reader::BangType::parse | src/reader/mod.rs :: impl BangType :: fn parse | serves=C01,C02,C03,C08,C12,C18
    #[verifier::loop_isolation(false)]
    pub fn parse<'b>(&mut self, buf: &[u8], chunk: &'b [u8]) -> (r: Option<(&'b [u8], usize)>)
        requires
            buf@.len() + chunk@.len() <= usize::MAX,
            no_bang_term_before(*old(self), buf@ + chunk@, buf@.len() as int),
            *old(self) matches BangType::DocType(b) ==> b == dt_bal(buf@),
        ensures
            same_kind(*final(self), *old(self)),
            match r {
                Some((content, used)) => {
                    let k = (buf@.len() + used - 1) as int;
                    &&& 1 <= used <= chunk@.len()
                    &&& bang_term(*old(self), buf@ + chunk@, k)
                    &&& no_bang_term_before(*old(self), buf@ + chunk@, k)
                    &&& content@ == chunk@.subrange(0, used - 1)
                    &&& *final(self) matches BangType::DocType(b) ==> b == 0
                },
                None => {
                    &&& no_bang_term_before(*old(self), buf@ + chunk@, (buf@.len() + chunk@.len()) as int)
                    &&& *final(self) matches BangType::DocType(b) ==> b == dt_bal(buf@ + chunk@)
                },
            },
    {
        let ghost t = buf@ + chunk@;
        let ghost ty = *self;
        proof { assert(t.subrange(0, buf@.len() as int) =~= buf@); }
        match self {
            Self::Comment => {
                proof { assert forall|k: int| 0 <= k < buf@.len() implies !comment_term(t, k) by { assert(!bang_term(ty, t, k)); } }
                { let mut __it1 = memchr::memchr_iter(b'>', chunk); loop
                    invariant __it1.wf(), __it1.hay == chunk, __it1.n1 == 0x3e, __it1.n2 == 0x3e, __it1.n3 == 0x3e,
                        *self == ty, ty is Comment,
                        forall|k: int| 0 <= k < buf@.len() + __it1.pos ==> !comment_term(t, k),
                    decreases chunk@.len() - __it1.pos
                { match __it1.next() { None => { break; } Some( i) => {
                    // Need to read at least 6 symbols (`!---->`) for properly finished comment
                    // <!----> - XML comment
                    //  012345 - i
                    if buf.len() + i > 4 {
                        if chunk[..i].ends_with(&[b'-', b'-']) {
                            // We cannot strip last `--` from the buffer because we need it in case of
                            // check_comments enabled option. XML standard requires that comment
                            // will not end with `--->` sequence because this is a special case of
                            // `--` in the comment (https://www.w3.org/TR/xml11/#sec-comments)
                            return Some((&chunk[..i], i + 1)); // +1 for `>`
                        }
                        // End sequence `-|->` was splitted at |
                        //        buf --/   \-- chunk
                        if i == 1 && buf.ends_with(&[b'-']) && chunk[0] == b'-' {
                            return Some((&chunk[..i], i + 1)); // +1 for `>`
                        }
                        // End sequence `--|>` was splitted at |
                        //         buf --/   \-- chunk
                        if i == 0 && buf.ends_with(&[b'-', b'-']) {
                            return Some((&[], i + 1)); // +1 for `>`
                        }
                    }
                } } } }
            }
            Self::CData => {
                proof { assert forall|k: int| 0 <= k < buf@.len() implies !cdata_term(t, k) by { assert(!bang_term(ty, t, k)); } }
                { let mut __it2 = memchr::memchr_iter(b'>', chunk); loop
                    invariant __it2.wf(), __it2.hay == chunk, __it2.n1 == 0x3e, __it2.n2 == 0x3e, __it2.n3 == 0x3e,
                        *self == ty, ty is CData,
                        forall|k: int| 0 <= k < buf@.len() + __it2.pos ==> !cdata_term(t, k),
                    decreases chunk@.len() - __it2.pos
                { match __it2.next() { None => { break; } Some( i) => {
                    if chunk[..i].ends_with(&[b']', b']']) {
                        return Some((&chunk[..i], i + 1)); // +1 for `>`
                    }
                    // End sequence `]|]>` was splitted at |
                    //        buf --/   \-- chunk
                    if i == 1 && buf.ends_with(&[b']']) && chunk[0] == b']' {
                        return Some((&chunk[..i], i + 1)); // +1 for `>`
                    }
                    // End sequence `]]|>` was splitted at |
                    //         buf --/   \-- chunk
                    if i == 0 && buf.ends_with(&[b']', b']']) {
                        return Some((&[], i + 1)); // +1 for `>`
                    }
                } } } }
            }
            Self::DocType(ref mut balance) => {
                proof { assert forall|k: int| 0 <= k < buf@.len() implies !doctype_term(t, k) by { assert(!bang_term(ty, t, k)); } }
                { let mut __it3 = memchr::memchr2_iter(b'<', b'>', chunk); loop
                    invariant __it3.wf(), __it3.hay == chunk, __it3.n1 == 0x3c, __it3.n2 == 0x3e, __it3.n3 == 0x3e,
                        ty is DocType,
                        forall|k: int| 0 <= k < buf@.len() + __it3.pos ==> !doctype_term(t, k),
                        *balance == dt_bal(t.subrange(0, (buf@.len() + __it3.pos) as int)),
                    decreases chunk@.len() - __it3.pos
                { let ghost p_old = __it3.pos; match __it3.next() { None => { proof {
                        lemma_dt_bal_plain(t, (buf@.len() + p_old) as int, (buf@.len() + chunk@.len()) as int);
                        assert(t.subrange(0, (buf@.len() + chunk@.len()) as int) =~= t);
                    } break; } Some( i) => {
                    proof {
                        lemma_dt_bal_plain(t, (buf@.len() + p_old) as int, (buf@.len() + i) as int);
                        lemma_dt_bal_step(t, (buf@.len() + i) as int);
                        lemma_dt_bal_bound(t.subrange(0, (buf@.len() + i) as int));
                        assert(t[buf@.len() + i] == chunk@[i as int]);
                    }
                    if chunk[i] == b'<' {
                        *balance += 1;
                    } else {
                        if *balance == 0 {
                            return Some((&chunk[..i], i + 1)); // +1 for `>`
                        }
                        *balance -= 1;
                    }
                } } } }
            }
        }
        None
    }
//@end

//@extract reader::BangType::to_err | src/reader/mod.rs :: impl BangType :: fn to_err | serves=C01,C02,C03,C08,C12,C18
 pub fn to_err(&self) -> (r: SyntaxError)
        ensures r == self.spec_to_err()
 {
        match self {
            Self::CData => SyntaxError::UnclosedCData,
            Self::Comment => SyntaxError::UnclosedComment,
            Self::DocType(_) => SyntaxError::UnclosedDoctype,
        }
    }
//@end
}
