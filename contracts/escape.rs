// ---------------------------------------------------------------------------------------------
// U-escape (C10 first sentence, C09 escaping constructors): `_escape` and the three public levels on the
// real text. `iter.position(..)` on the live `bytes.iter()` is rewritten (declared N2 rewrite) to a verified
// cursor shim with the contract of `Iterator::position` on that iterator.
// ---------------------------------------------------------------------------------------------
pub mod escfn_ {
use super::*;
use vstd::prelude::*;
use vstd::string::*;
use vstd::utf8::*;

pub mod shim_e {
    use vstd::prelude::*;
    /// model of `bytes.iter()` used with `position` (N2): a cursor over the bytes
    pub struct ByteIter<'a> { pub pos: usize, pub s: &'a [u8] }
    impl<'a> ByteIter<'a> {
        pub fn new(s: &'a [u8]) -> (r: Self) ensures r.pos == 0, r.s == s { ByteIter { pos: 0, s } }
        /// contract of `Iterator::position`: the number of elements consumed before the first one that satisfies
        /// `f` (counted from the cursor); the cursor moves behind it (to the end if there is none)
        pub fn position<F: Fn(u8) -> bool>(&mut self, f: F) -> (r: Option<usize>)
            requires old(self).pos <= old(self).s@.len(), forall|b: u8| f.requires((b,)),
            ensures
                final(self).s == old(self).s, final(self).pos <= final(self).s@.len(),
                match r {
                    Some(i) => old(self).pos + i < old(self).s@.len() && f.ensures((old(self).s@[old(self).pos + i],), true)
                        && (forall|j: int| old(self).pos <= j < old(self).pos + i ==> f.ensures((#[trigger] old(self).s@[j],), false))
                        && final(self).pos == old(self).pos + i + 1,
                    None => (forall|j: int| old(self).pos <= j < old(self).s@.len() ==> f.ensures((#[trigger] old(self).s@[j],), false))
                        && final(self).pos == old(self).s@.len(),
                },
        {
            let ghost p0 = self.pos as int;
            let start = self.pos;
            while self.pos < self.s.len()
                invariant
                    self.s == old(self).s, p0 == old(self).pos, start == p0, p0 <= self.pos <= self.s@.len(),
                    forall|b: u8| f.requires((b,)),
                    forall|j: int| p0 <= j < self.pos ==> f.ensures((#[trigger] self.s@[j],), false),
                decreases self.s@.len() - self.pos
            {
                let i = self.pos;
                let b = self.s[i];
                self.pos = i + 1;
                if f(b) { return Some(i - start); }
            }
            None
        }
    }
    /// assumed: `String::from_utf8(v).unwrap()` -- the bytes are those of a valid UTF-8 string (SAFETY comment in
    /// `_escape`: only ASCII bytes are replaced by ASCII strings), so the conversion succeeds and keeps the bytes
    #[verifier::external_body]
    pub fn string_from_utf8_unwrap(v: Vec<u8>) -> (r: String)
        ensures vstd::utf8::encode_utf8(r@) == v@
    { String::from_utf8(v).unwrap() }
}

/// the nine bytes `_escape` knows a replacement for
pub open spec fn escapable(b: u8) -> bool {
    b == 0x3c || b == 0x3e || b == 0x27 || b == 0x26 || b == 0x22 || b == 0x09 || b == 0x0a || b == 0x0d || b == 0x20
}
/// the replacement: a predefined entity reference or a decimal character reference (XML 1.0 4.1, 4.6)
pub open spec fn esc_one(b: u8) -> Seq<u8> {
    if b == 0x3c { seq![0x26u8, 0x6c, 0x74, 0x3b] }                      // &lt;
    else if b == 0x3e { seq![0x26u8, 0x67, 0x74, 0x3b] }                 // &gt;
    else if b == 0x27 { seq![0x26u8, 0x61, 0x70, 0x6f, 0x73, 0x3b] }     // &apos;
    else if b == 0x26 { seq![0x26u8, 0x61, 0x6d, 0x70, 0x3b] }           // &amp;
    else if b == 0x22 { seq![0x26u8, 0x71, 0x75, 0x6f, 0x74, 0x3b] }     // &quot;
    else if b == 0x09 { seq![0x26u8, 0x23, 0x39, 0x3b] }                 // &#9;
    else if b == 0x0a { seq![0x26u8, 0x23, 0x31, 0x30, 0x3b] }           // &#10;
    else if b == 0x0d { seq![0x26u8, 0x23, 0x31, 0x33, 0x3b] }           // &#13;
    else if b == 0x20 { seq![0x26u8, 0x23, 0x33, 0x32, 0x3b] }           // &#32;
    else { seq![b] }
}
/// every byte for which `p` holds is replaced, everything else is kept
pub open spec fn spec_escape(s: Seq<u8>, p: spec_fn(u8) -> bool) -> Seq<u8> decreases s.len() {
    if s.len() == 0 { Seq::<u8>::empty() }
    else { spec_escape(s.drop_last(), p) + (if p(s.last()) { esc_one(s.last()) } else { seq![s.last()] }) }
}
pub proof fn lemma_escape_concat(a: Seq<u8>, b: Seq<u8>, p: spec_fn(u8) -> bool)
    ensures spec_escape(a + b, p) == spec_escape(a, p) + spec_escape(b, p)
    decreases b.len()
{
    if b.len() == 0 {
        assert(a + b =~= a);
        assert(spec_escape(a, p) + spec_escape(b, p) =~= spec_escape(a, p));
    } else {
        lemma_escape_concat(a, b.drop_last(), p);
        assert((a + b).drop_last() =~= a + b.drop_last());
        assert((a + b).last() == b.last());
        let piece = if p(b.last()) { esc_one(b.last()) } else { seq![b.last()] };
        assert(spec_escape(a, p) + (spec_escape(b.drop_last(), p) + piece) =~= (spec_escape(a, p) + spec_escape(b.drop_last(), p)) + piece);
    }
}
pub proof fn lemma_escape_plain(a: Seq<u8>, p: spec_fn(u8) -> bool)
    requires forall|j: int| 0 <= j < a.len() ==> !p(#[trigger] a[j])
    ensures spec_escape(a, p) == a
    decreases a.len()
{
    if a.len() > 0 {
        lemma_escape_plain(a.drop_last(), p);
        assert(a.drop_last() + seq![a.last()] =~= a);
    }
}
/// predicates that agree on the bytes of `s` escape `s` alike
pub proof fn lemma_escape_ext(s: Seq<u8>, p1: spec_fn(u8) -> bool, p2: spec_fn(u8) -> bool)
    requires forall|j: int| 0 <= j < s.len() ==> p1(#[trigger] s[j]) == p2(s[j])
    ensures spec_escape(s, p1) == spec_escape(s, p2)
    decreases s.len()
{
    if s.len() > 0 {
        assert forall|j: int| 0 <= j < s.drop_last().len() implies p1(#[trigger] s.drop_last()[j]) == p2(s.drop_last()[j]) by { assert(s.drop_last()[j] == s[j]); }
        lemma_escape_ext(s.drop_last(), p1, p2);
        assert(p1(s[s.len() - 1]) == p2(s[s.len() - 1]));
    }
}
/// the predicate an executable byte test decides
pub open spec fn pred_of<F: Fn(u8) -> bool>(f: F) -> spec_fn(u8) -> bool { |b: u8| f.ensures((b,), true) }
/// dereferencing a Cow<str> gives the string it holds (std: Deref for Cow)
pub axiom fn axiom_cow_str<'a>(c: &Cow<'a, str>)
    ensures cow_target(c)@ == c@;
/// the bytes of a `Cow<str>`
pub open spec fn cow_str_bytes<'a>(c: Cow<'a, str>) -> Seq<u8> { encode_utf8(c@) }

//@extract escape::_escape | src/escape.rs :: fn _escape | serves=C09,C10
//@rewrite raw: impl Into<Cow<'a, str>>, ==> raw: Cow<'a, str>,
//@rewrite let raw = raw.into(); ==> 
//@rewrite bytes.iter() ==> shim_e::ByteIter::new(bytes)
//@rewrite iter.position(|&b| escape_chars(b)) ==> iter.position(|b: u8| escape_chars(b))
//@rewrite String::from_utf8(escaped).unwrap() ==> shim_e::string_from_utf8_unwrap(escaped)
//@rewrite unreachable!( "Only '<', '>','\', '&', '\"', '\\t', '\\r', '\\n', and ' ' are escaped" ) ==> unreachable!()
 pub(crate) fn _escape<'a, F: Fn(u8) -> bool>(
    raw: Cow<'a, str>,
    escape_chars: F,
) -> (r: Cow<'a, str>)
    requires
        // the byte test is total and deterministic, and only asks for bytes that have a replacement (else `unreachable!`)
        forall|b: u8| escape_chars.requires((b,)),
        forall|b: u8| !(escape_chars.ensures((b,), true) && escape_chars.ensures((b,), false)),
        forall|b: u8| escape_chars.ensures((b,), true) ==> escapable(b),
    ensures
        // C10 / C09: exactly the bytes the test selects are replaced by their references, nothing else changes
        cow_str_bytes(r) == spec_escape(cow_str_bytes(raw), pred_of(escape_chars)),
        // ... stated for any predicate the test implements
        forall|q: spec_fn(u8) -> bool| (forall|b: u8, x: bool| #[trigger] escape_chars.ensures((b,), x) ==> x == q(b))
            ==> cow_str_bytes(r) == #[trigger] spec_escape(cow_str_bytes(raw), q),
        // nothing to escape: the input itself comes back (no allocation)
        (forall|j: int| 0 <= j < cow_str_bytes(raw).len() ==> !pred_of(escape_chars)(#[trigger] cow_str_bytes(raw)[j])) ==> r == raw,
{
    let bytes = raw.as_bytes();
    let ghost p = pred_of(escape_chars);
    let ghost bs = bytes@;
    let ghost mut hit: int = 0;
    let mut escaped: Option<Vec<u8>> = None;
    let mut iter = shim_e::ByteIter::new(bytes);
    let mut pos = 0;
    loop
        invariant_except_break
            iter.pos == pos,
        invariant
            bytes@ == bs, iter.s == bytes, pos <= bs.len(),
            forall|b: u8| escape_chars.requires((b,)),
            forall|b: u8| !(escape_chars.ensures((b,), true) && escape_chars.ensures((b,), false)),
            forall|b: u8| escape_chars.ensures((b,), true) ==> escapable(b),
            p == pred_of(escape_chars),
            match escaped { Some(e) => e@ == spec_escape(bs.subrange(0, pos as int), p), None => pos == 0 },
            escaped is Some ==> 0 <= hit < bs.len() && p(bs[hit]),
            // the test has decided every byte passed so far
            forall|j: int| 0 <= j < pos ==> escape_chars.ensures((#[trigger] bs[j],), true) || escape_chars.ensures((bs[j],), false),
        ensures
            escaped is Some ==> 0 <= hit < bs.len() && p(bs[hit]),
            forall|j: int| 0 <= j < bs.len() ==> escape_chars.ensures((#[trigger] bs[j],), true) || escape_chars.ensures((bs[j],), false),
            pos <= bs.len(),
            forall|j: int| pos <= j < bs.len() ==> !p(#[trigger] bs[j]),
            match escaped { Some(e) => e@ == spec_escape(bs.subrange(0, pos as int), p), None => pos == 0 },
        decreases bs.len() - pos
    { match iter.position(|b: u8| -> (x: bool) ensures escape_chars.ensures((b,), x) { escape_chars(b) }) { Some(i) => {
        if escaped.is_none() {
            escaped = Some(Vec::with_capacity(raw.len()));
        }
        let escaped = escaped.as_mut().expect("initialized");
        let new_pos = pos + i;
        let ghost e0 = escaped@;
        proof {
            assert(e0 == spec_escape(bs.subrange(0, pos as int), p));
            let chunk = bs.subrange(pos as int, new_pos as int);
            assert forall|j: int| 0 <= j < chunk.len() implies !p(#[trigger] chunk[j]) by { assert(chunk[j] == bs[pos + j]); }
            lemma_escape_plain(chunk, p);
            lemma_escape_concat(bs.subrange(0, pos as int), chunk, p);
            assert(bs.subrange(0, pos as int) + chunk =~= bs.subrange(0, new_pos as int));
            assert(p(bs[new_pos as int]) && escapable(bs[new_pos as int]));
            hit = new_pos as int;
            assert(bs.subrange(0, new_pos + 1).drop_last() =~= bs.subrange(0, new_pos as int));
            assert(bs.subrange(0, new_pos + 1).last() == bs[new_pos as int]);
            axiom_items_slice::<u8>();
        }
        escaped.extend_from_slice(&bytes[pos..new_pos]);
        match bytes[new_pos] {
            b'<' => escaped.extend_from_slice(&[b'&', b'l', b't', b';']),
            b'>' => escaped.extend_from_slice(&[b'&', b'g', b't', b';']),
            b'\'' => escaped.extend_from_slice(&[b'&', b'a', b'p', b'o', b's', b';']),
            b'&' => escaped.extend_from_slice(&[b'&', b'a', b'm', b'p', b';']),
            b'"' => escaped.extend_from_slice(&[b'&', b'q', b'u', b'o', b't', b';']),

            // This set of escapes handles characters that should be escaped
            // in elements of xs:lists, because those characters works as
            // delimiters of list elements
            b'\t' => escaped.extend_from_slice(&[b'&', b'#', b'9', b';']),
            b'\n' => escaped.extend_from_slice(&[b'&', b'#', b'1', b'0', b';']),
            b'\r' => escaped.extend_from_slice(&[b'&', b'#', b'1', b'3', b';']),
            b' ' => escaped.extend_from_slice(&[b'&', b'#', b'3', b'2', b';']),
            _ => unreachable!(),
        }
        proof { assert(escaped@ =~= e0 + bs.subrange(pos as int, new_pos as int) + esc_one(bs[new_pos as int])); }
        pos = new_pos + 1;
    } _ => { break; } } }

    proof {
        axiom_cow_str(&raw);
        let tail = bs.subrange(pos as int, bs.len() as int);
        assert forall|j: int| 0 <= j < tail.len() implies !p(#[trigger] tail[j]) by { assert(tail[j] == bs[pos + j]); }
        lemma_escape_plain(tail, p);
        lemma_escape_concat(bs.subrange(0, pos as int), tail, p);
        assert(bs.subrange(0, pos as int) + tail =~= bs);
        assert(bs == cow_str_bytes(raw));
        assert forall|q: spec_fn(u8) -> bool| (forall|b: u8, x: bool| #[trigger] escape_chars.ensures((b,), x) ==> x == q(b))
            implies spec_escape(bs, p) == #[trigger] spec_escape(bs, q) by {
            assert forall|j: int| 0 <= j < bs.len() implies p(#[trigger] bs[j]) == q(bs[j]) by {
                if escape_chars.ensures((bs[j],), true) { assert(q(bs[j]) == true); } else { assert(escape_chars.ensures((bs[j],), false)); assert(q(bs[j]) == false); }
            }
            lemma_escape_ext(bs, p, q);
        }
    }
    if let Some(mut escaped) = escaped {
        if let Some(raw) = bytes.get(pos..) {
            escaped.extend_from_slice(raw);
        }
        // SAFETY: we operate on UTF-8 input and search for an one byte chars only,
        // so all slices that was put to the `escaped` is a valid UTF-8 encoded strings
        // TODO: Can be replaced with `unsafe { String::from_utf8_unchecked() }`
        // if unsafe code will be allowed
        Cow::Owned(shim_e::string_from_utf8_unwrap(escaped))
    } else {
        raw
    }
}
//@end

/// the three documented levels
pub open spec fn lvl_full(b: u8) -> bool { b == 0x3c || b == 0x3e || b == 0x26 || b == 0x27 || b == 0x22 }
pub open spec fn lvl_partial(b: u8) -> bool { b == 0x3c || b == 0x3e || b == 0x26 }
pub open spec fn lvl_minimal(b: u8) -> bool { b == 0x3c || b == 0x26 }
pub open spec fn p_full() -> spec_fn(u8) -> bool { |b: u8| lvl_full(b) }
pub open spec fn p_partial() -> spec_fn(u8) -> bool { |b: u8| lvl_partial(b) }
pub open spec fn p_minimal() -> spec_fn(u8) -> bool { |b: u8| lvl_minimal(b) }
/// the bytes of the replacements other than the '&' that opens them
pub open spec fn ref_tail_byte(b: u8) -> bool {
    b == 0x3b || b == 0x23 || (0x30 <= b <= 0x39) || (0x61 <= b <= 0x7a)
}
/// C10: the escaped form contains none of the characters the level promises to remove -- except the '&' that opens
/// a reference written by the escaping itself
pub proof fn lemma_escaped_clean(s: Seq<u8>, p: spec_fn(u8) -> bool)
    requires forall|b: u8| p(b) ==> escapable(b) && !ref_tail_byte(b),
    ensures forall|k: int| 0 <= k < spec_escape(s, p).len() ==> (p(#[trigger] spec_escape(s, p)[k]) ==> spec_escape(s, p)[k] == 0x26),
    decreases s.len()
{
    if s.len() > 0 {
        lemma_escaped_clean(s.drop_last(), p);
        let head = spec_escape(s.drop_last(), p);
        let piece = if p(s.last()) { esc_one(s.last()) } else { seq![s.last()] };
        assert forall|k: int| 0 <= k < (head + piece).len() implies (p(#[trigger] (head + piece)[k]) ==> (head + piece)[k] == 0x26) by {
            if k >= head.len() {
                let j = k - head.len();
                assert((head + piece)[k] == piece[j]);
                if p(s.last()) { assert(piece[j] == 0x26 || ref_tail_byte(piece[j])); }
            }
        }
    }
}
/// the value of an attribute made by `Attribute::from((&str, &str))` is `escape(value)`: it holds no '"' (and no '<', '>', "'")
pub proof fn lemma_full_escape_no_quote(s: Seq<u8>)
    ensures forall|k: int| 0 <= k < spec_escape(s, p_full()).len() ==> {
        let c = #[trigger] spec_escape(s, p_full())[k];
        c != 0x22 && c != 0x27 && c != 0x3c && c != 0x3e }
{
    let p = p_full();
    lemma_escaped_clean(s, p);
    assert forall|k: int| 0 <= k < spec_escape(s, p).len() implies {
        let c = #[trigger] spec_escape(s, p)[k];
        c != 0x22 && c != 0x27 && c != 0x3c && c != 0x3e } by {
        let c = spec_escape(s, p)[k];
        if c == 0x22 || c == 0x27 || c == 0x3c || c == 0x3e { assert(p(c)); }
    }
}

//@extract escape::escape | src/escape.rs :: fn escape | serves=C09,C10
//@rewrite raw: impl Into<Cow<'a, str>> ==> raw: Cow<'a, str>
 pub fn escape<'a>(raw: Cow<'a, str>) -> (r: Cow<'a, str>)
    // C10 / C09: exactly the characters of this level are replaced by their entity references
    ensures cow_str_bytes(r) == spec_escape(cow_str_bytes(raw), p_full()),
 {
    let r = _escape(raw, |ch: u8| -> (x: bool) ensures x == lvl_full(ch) { matches!(ch, b'<' | b'>' | b'&' | b'\'' | b'\"') });
    r
}
//@end
//@extract escape::partial_escape | src/escape.rs :: fn partial_escape | serves=C09,C10
//@rewrite raw: impl Into<Cow<'a, str>> ==> raw: Cow<'a, str>
 pub fn partial_escape<'a>(raw: Cow<'a, str>) -> (r: Cow<'a, str>)
    // C10 / C09: exactly the characters of this level are replaced by their entity references
    ensures cow_str_bytes(r) == spec_escape(cow_str_bytes(raw), p_partial()),
 {
    let r = _escape(raw, |ch: u8| -> (x: bool) ensures x == lvl_partial(ch) { matches!(ch, b'<' | b'>' | b'&') });
    r
}
//@end
//@extract escape::minimal_escape | src/escape.rs :: fn minimal_escape | serves=C09,C10
//@rewrite raw: impl Into<Cow<'a, str>> ==> raw: Cow<'a, str>
 pub fn minimal_escape<'a>(raw: Cow<'a, str>) -> (r: Cow<'a, str>)
    // C10 / C09: exactly the characters of this level are replaced by their entity references
    ensures cow_str_bytes(r) == spec_escape(cow_str_bytes(raw), p_minimal()),
 {
    let r = _escape(raw, |ch: u8| -> (x: bool) ensures x == lvl_minimal(ch) { matches!(ch, b'<' | b'&') });
    r
}
//@end
}
