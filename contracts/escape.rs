// ---------------------------------------------------------------------------------------------
// U-escape (C10 first sentence, C09 escaping constructors): `_escape` and the three public levels on the
// real text. `iter.position(..)` on the live `bytes.iter()` is rewritten (declared N2 rewrite) to a verified
// cursor shim with the contract of `Iterator::position` on that iterator.
// ---------------------------------------------------------------------------------------------
pub mod escfn_ {
use super::*;
use vstd::prelude::*;
use vstd::string::*;
use vstd::utf8::*;

pub mod shim_e {
    use vstd::prelude::*;
    /// model of `bytes.iter()` used with `position` (N2): a cursor over the bytes
    pub struct ByteIter<'a> { pub pos: usize, pub s: &'a [u8] }
    impl<'a> ByteIter<'a> {
        pub fn new(s: &'a [u8]) -> (r: Self) ensures r.pos == 0, r.s == s { ByteIter { pos: 0, s } }
        /// contract of `Iterator::position`: the number of elements consumed before the first one that satisfies
        /// `f` (counted from the cursor); the cursor moves behind it (to the end if there is none)
        pub fn position<F: Fn(u8) -> bool>(&mut self, f: F) -> (r: Option<usize>)
            requires old(self).pos <= old(self).s@.len(), forall|b: u8| f.requires((b,)),
            ensures
                final(self).s == old(self).s, final(self).pos <= final(self).s@.len(),
                match r {
                    Some(i) => old(self).pos + i < old(self).s@.len() && f.ensures((old(self).s@[old(self).pos + i],), true)
                        && (forall|j: int| old(self).pos <= j < old(self).pos + i ==> f.ensures((#[trigger] old(self).s@[j],), false))
                        && final(self).pos == old(self).pos + i + 1,
                    None => (forall|j: int| old(self).pos <= j < old(self).s@.len() ==> f.ensures((#[trigger] old(self).s@[j],), false))
                        && final(self).pos == old(self).s@.len(),
                },
        {
            let ghost p0 = self.pos as int;
            let start = self.pos;
            while self.pos < self.s.len()
                invariant
                    self.s == old(self).s, p0 == old(self).pos, start == p0, p0 <= self.pos <= self.s@.len(),
                    forall|b: u8| f.requires((b,)),
                    forall|j: int| p0 <= j < self.pos ==> f.ensures((#[trigger] self.s@[j],), false),
                decreases self.s@.len() - self.pos
            {
                let i = self.pos;
                let b = self.s[i];
                self.pos = i + 1;
                if f(b) { return Some(i - start); }
            }
            None
        }
    }
    /// assumed: `String::from_utf8(v).unwrap()` -- the bytes are those of a valid UTF-8 string (SAFETY comment in
    /// `_escape`: only ASCII bytes are replaced by ASCII strings), so the conversion succeeds and keeps the bytes
    #[verifier::external_body]
    pub fn string_from_utf8_unwrap(v: Vec<u8>) -> (r: String)
        ensures vstd::utf8::encode_utf8(r@) == v@
    { String::from_utf8(v).unwrap() }
}

/// the nine bytes `_escape` knows a replacement for
pub open spec fn escapable(b: u8) -> bool {
    b == 0x3c || b == 0x3e || b == 0x27 || b == 0x26 || b == 0x22 || b == 0x09 || b == 0x0a || b == 0x0d || b == 0x20
}
/// the replacement: a predefined entity reference or a decimal character reference (XML 1.0 4.1, 4.6)
pub open spec fn esc_one(b: u8) -> Seq<u8> {
    if b == 0x3c { seq![0x26u8, 0x6c, 0x74, 0x3b] }                      // &lt;
    else if b == 0x3e { seq![0x26u8, 0x67, 0x74, 0x3b] }                 // &gt;
    else if b == 0x27 { seq![0x26u8, 0x61, 0x70, 0x6f, 0x73, 0x3b] }     // &apos;
    else if b == 0x26 { seq![0x26u8, 0x61, 0x6d, 0x70, 0x3b] }           // &amp;
    else if b == 0x22 { seq![0x26u8, 0x71, 0x75, 0x6f, 0x74, 0x3b] }     // &quot;
    else if b == 0x09 { seq![0x26u8, 0x23, 0x39, 0x3b] }                 // &#9;
    else if b == 0x0a { seq![0x26u8, 0x23, 0x31, 0x30, 0x3b] }           // &#10;
    else if b == 0x0d { seq![0x26u8, 0x23, 0x31, 0x33, 0x3b] }           // &#13;
    else if b == 0x20 { seq![0x26u8, 0x23, 0x33, 0x32, 0x3b] }           // &#32;
    else { seq![b] }
}
/// every byte for which `p` holds is replaced, everything else is kept
pub open spec fn spec_escape(s: Seq<u8>, p: spec_fn(u8) -> bool) -> Seq<u8> decreases s.len() {
    if s.len() == 0 { Seq::<u8>::empty() }
    else { spec_escape(s.drop_last(), p) + (if p(s.last()) { esc_one(s.last()) } else { seq![s.last()] }) }
}
pub proof fn lemma_escape_concat(a: Seq<u8>, b: Seq<u8>, p: spec_fn(u8) -> bool)
    ensures spec_escape(a + b, p) == spec_escape(a, p) + spec_escape(b, p)
    decreases b.len()
{
    if b.len() == 0 {
        assert(a + b =~= a);
        assert(spec_escape(a, p) + spec_escape(b, p) =~= spec_escape(a, p));
    } else {
        lemma_escape_concat(a, b.drop_last(), p);
        assert((a + b).drop_last() =~= a + b.drop_last());
        assert((a + b).last() == b.last());
        let piece = if p(b.last()) { esc_one(b.last()) } else { seq![b.last()] };
        assert(spec_escape(a, p) + (spec_escape(b.drop_last(), p) + piece) =~= (spec_escape(a, p) + spec_escape(b.drop_last(), p)) + piece);
    }
}
pub proof fn lemma_escape_plain(a: Seq<u8>, p: spec_fn(u8) -> bool)
    requires forall|j: int| 0 <= j < a.len() ==> !p(#[trigger] a[j])
    ensures spec_escape(a, p) == a
    decreases a.len()
{
    if a.len() > 0 {
        lemma_escape_plain(a.drop_last(), p);
        assert(a.drop_last() + seq![a.last()] =~= a);
    }
}
/// predicates that agree on the bytes of `s` escape `s` alike
pub proof fn lemma_escape_ext(s: Seq<u8>, p1: spec_fn(u8) -> bool, p2: spec_fn(u8) -> bool)
    requires forall|j: int| 0 <= j < s.len() ==> p1(#[trigger] s[j]) == p2(s[j])
    ensures spec_escape(s, p1) == spec_escape(s, p2)
    decreases s.len()
{
    if s.len() > 0 {
        assert forall|j: int| 0 <= j < s.drop_last().len() implies p1(#[trigger] s.drop_last()[j]) == p2(s.drop_last()[j]) by { assert(s.drop_last()[j] == s[j]); }
        lemma_escape_ext(s.drop_last(), p1, p2);
        assert(p1(s[s.len() - 1]) == p2(s[s.len() - 1]));
    }
}
/// the predicate an executable byte test decides
pub open spec fn pred_of<F: Fn(u8) -> bool>(f: F) -> spec_fn(u8) -> bool { |b: u8| f.ensures((b,), true) }
/// dereferencing a Cow<str> gives the string it holds (std: Deref for Cow)
pub axiom fn axiom_cow_str<'a>(c: &Cow<'a, str>)
    ensures cow_target(c)@ == c@;
/// the bytes of a `Cow<str>`
pub open spec fn cow_str_bytes<'a>(c: Cow<'a, str>) -> Seq<u8> { encode_utf8(c@) }

//@extract escape::_escape | src/escape.rs :: fn _escape | serves=C09,C10
//@rewrite raw: impl Into<Cow<'a, str>>, ==> raw: Cow<'a, str>,
//@rewrite let raw = raw.into(); ==> 
//@rewrite bytes.iter() ==> shim_e::ByteIter::new(bytes)
//@rewrite iter.position(|&b| escape_chars(b)) ==> iter.position(|b: u8| escape_chars(b))
//@rewrite String::from_utf8(escaped).unwrap() ==> shim_e::string_from_utf8_unwrap(escaped)
 pub(crate) fn _escape<'a, F: Fn(u8) -> bool>(
    raw: Cow<'a, str>,
    escape_chars: F,
) -> (r: Cow<'a, str>)
    requires
        // the byte test is total and deterministic, and only asks for bytes that have a replacement (else `unreachable!`)
        forall|b: u8| escape_chars.requires((b,)),
        forall|b: u8| !(escape_chars.ensures((b,), true) && escape_chars.ensures((b,), false)),
        forall|b: u8| escape_chars.ensures((b,), true) ==> escapable(b),
    ensures
        // C10 / C09: exactly the bytes the test selects are replaced by their references, nothing else changes
        cow_str_bytes(r) == spec_escape(cow_str_bytes(raw), pred_of(escape_chars)),
        // ... stated for any predicate the test implements
        forall|q: spec_fn(u8) -> bool| (forall|b: u8, x: bool| #[trigger] escape_chars.ensures((b,), x) ==> x == q(b))
            ==> cow_str_bytes(r) == #[trigger] spec_escape(cow_str_bytes(raw), q),
        // nothing to escape: the input itself comes back (no allocation)
        (forall|j: int| 0 <= j < cow_str_bytes(raw).len() ==> !pred_of(escape_chars)(#[trigger] cow_str_bytes(raw)[j])) ==> r == raw,
{
    let bytes = raw.as_bytes();
    let ghost p = pred_of(escape_chars);
    let ghost bs = bytes@;
    let ghost mut hit: int = 0;
    let mut escaped: Option<Vec<u8>> = None;
    let mut iter = shim_e::ByteIter::new(bytes);
    let mut pos = 0;
    loop
        invariant_except_break
            iter.pos == pos,
        invariant
            bytes@ == bs, iter.s == bytes, pos <= bs.len(),
            forall|b: u8| escape_chars.requires((b,)),
            forall|b: u8| !(escape_chars.ensures((b,), true) && escape_chars.ensures((b,), false)),
            forall|b: u8| escape_chars.ensures((b,), true) ==> escapable(b),
            p == pred_of(escape_chars),
            match escaped { Some(e) => e@ == spec_escape(bs.subrange(0, pos as int), p), None => pos == 0 },
            escaped is Some ==> 0 <= hit < bs.len() && p(bs[hit]),
            // the test has decided every byte passed so far
            forall|j: int| 0 <= j < pos ==> escape_chars.ensures((#[trigger] bs[j],), true) || escape_chars.ensures((bs[j],), false),
        ensures
            escaped is Some ==> 0 <= hit < bs.len() && p(bs[hit]),
            forall|j: int| 0 <= j < bs.len() ==> escape_chars.ensures((#[trigger] bs[j],), true) || escape_chars.ensures((bs[j],), false),
            pos <= bs.len(),
            forall|j: int| pos <= j < bs.len() ==> !p(#[trigger] bs[j]),
            match escaped { Some(e) => e@ == spec_escape(bs.subrange(0, pos as int), p), None => pos == 0 },
        decreases bs.len() - pos
    { match iter.position(|b: u8| -> (x: bool) ensures escape_chars.ensures((b,), x) { escape_chars(b) }) { Some(i) => {
        if escaped.is_none() {
            escaped = Some(Vec::with_capacity(raw.len()));
        }
        let escaped = escaped.as_mut().expect("initialized");
        let new_pos = pos + i;
        let ghost e0 = escaped@;
        proof {
            assert(e0 == spec_escape(bs.subrange(0, pos as int), p));
            let chunk = bs.subrange(pos as int, new_pos as int);
            assert forall|j: int| 0 <= j < chunk.len() implies !p(#[trigger] chunk[j]) by { assert(chunk[j] == bs[pos + j]); }
            lemma_escape_plain(chunk, p);
            lemma_escape_concat(bs.subrange(0, pos as int), chunk, p);
            assert(bs.subrange(0, pos as int) + chunk =~= bs.subrange(0, new_pos as int));
            assert(p(bs[new_pos as int]) && escapable(bs[new_pos as int]));
            hit = new_pos as int;
            assert(bs.subrange(0, new_pos + 1).drop_last() =~= bs.subrange(0, new_pos as int));
            assert(bs.subrange(0, new_pos + 1).last() == bs[new_pos as int]);
            axiom_items_slice::<u8>();
        }
        escaped.extend_from_slice(&bytes[pos..new_pos]);
        match bytes[new_pos] {
            b'<' => escaped.extend_from_slice(&[b'&', b'l', b't', b';']),
            b'>' => escaped.extend_from_slice(&[b'&', b'g', b't', b';']),
            b'\'' => escaped.extend_from_slice(&[b'&', b'a', b'p', b'o', b's', b';']),
            b'&' => escaped.extend_from_slice(&[b'&', b'a', b'm', b'p', b';']),
            b'"' => escaped.extend_from_slice(&[b'&', b'q', b'u', b'o', b't', b';']),

            // This set of escapes handles characters that should be escaped
            // in elements of xs:lists, because those characters works as
            // delimiters of list elements
            b'\t' => escaped.extend_from_slice(&[b'&', b'#', b'9', b';']),
            b'\n' => escaped.extend_from_slice(&[b'&', b'#', b'1', b'0', b';']),
            b'\r' => escaped.extend_from_slice(&[b'&', b'#', b'1', b'3', b';']),
            b' ' => escaped.extend_from_slice(&[b'&', b'#', b'3', b'2', b';']),
            _ => unreachable!(),
        }
        proof { assert(escaped@ =~= e0 + bs.subrange(pos as int, new_pos as int) + esc_one(bs[new_pos as int])); }
        pos = new_pos + 1;
    } _ => { break; } } }

    proof {
        axiom_cow_str(&raw);
        let tail = bs.subrange(pos as int, bs.len() as int);
        assert forall|j: int| 0 <= j < tail.len() implies !p(#[trigger] tail[j]) by { assert(tail[j] == bs[pos + j]); }
        lemma_escape_plain(tail, p);
        lemma_escape_concat(bs.subrange(0, pos as int), tail, p);
        assert(bs.subrange(0, pos as int) + tail =~= bs);
        assert(bs == cow_str_bytes(raw));
        assert forall|q: spec_fn(u8) -> bool| (forall|b: u8, x: bool| #[trigger] escape_chars.ensures((b,), x) ==> x == q(b))
            implies spec_escape(bs, p) == #[trigger] spec_escape(bs, q) by {
            assert forall|j: int| 0 <= j < bs.len() implies p(#[trigger] bs[j]) == q(bs[j]) by {
                if escape_chars.ensures((bs[j],), true) { assert(q(bs[j]) == true); } else { assert(escape_chars.ensures((bs[j],), false)); assert(q(bs[j]) == false); }
            }
            lemma_escape_ext(bs, p, q);
        }
    }
    if let Some(mut escaped) = escaped {
        if let Some(raw) = bytes.get(pos..) {
            escaped.extend_from_slice(raw);
        }
        // SAFETY: we operate on UTF-8 input and search for an one byte chars only,
        // so all slices that was put to the `escaped` is a valid UTF-8 encoded strings
        // TODO: Can be replaced with `unsafe { String::from_utf8_unchecked() }`
        // if unsafe code will be allowed
        Cow::Owned(shim_e::string_from_utf8_unwrap(escaped))
    } else {
        raw
    }
}
//@end

/// the three documented levels
pub open spec fn lvl_full(b: u8) -> bool { b == 0x3c || b == 0x3e || b == 0x26 || b == 0x27 || b == 0x22 }
pub open spec fn lvl_partial(b: u8) -> bool { b == 0x3c || b == 0x3e || b == 0x26 }
pub open spec fn lvl_minimal(b: u8) -> bool { b == 0x3c || b == 0x26 }
pub open spec fn p_full() -> spec_fn(u8) -> bool { |b: u8| lvl_full(b) }
pub open spec fn p_partial() -> spec_fn(u8) -> bool { |b: u8| lvl_partial(b) }
pub open spec fn p_minimal() -> spec_fn(u8) -> bool { |b: u8| lvl_minimal(b) }
/// the bytes of the replacements other than the '&' that opens them
pub open spec fn ref_tail_byte(b: u8) -> bool {
    b == 0x3b || b == 0x23 || (0x30 <= b <= 0x39) || (0x61 <= b <= 0x7a)
}
/// C10: the escaped form contains none of the characters the level promises to remove -- except the '&' that opens
/// a reference written by the escaping itself
pub proof fn lemma_escaped_clean(s: Seq<u8>, p: spec_fn(u8) -> bool)
    requires forall|b: u8| p(b) ==> escapable(b) && !ref_tail_byte(b),
    ensures forall|k: int| 0 <= k < spec_escape(s, p).len() ==> (p(#[trigger] spec_escape(s, p)[k]) ==> spec_escape(s, p)[k] == 0x26),
    decreases s.len()
{
    if s.len() > 0 {
        lemma_escaped_clean(s.drop_last(), p);
        let head = spec_escape(s.drop_last(), p);
        let piece = if p(s.last()) { esc_one(s.last()) } else { seq![s.last()] };
        assert forall|k: int| 0 <= k < (head + piece).len() implies (p(#[trigger] (head + piece)[k]) ==> (head + piece)[k] == 0x26) by {
            if k >= head.len() {
                let j = k - head.len();
                assert((head + piece)[k] == piece[j]);
                if p(s.last()) { assert(piece[j] == 0x26 || ref_tail_byte(piece[j])); }
            }
        }
    }
}
/// the value of an attribute made by `Attribute::from((&str, &str))` is `escape(value)`: it holds no '"' (and no '<', '>', "'")
pub proof fn lemma_full_escape_no_quote(s: Seq<u8>)
    ensures forall|k: int| 0 <= k < spec_escape(s, p_full()).len() ==> {
        let c = #[trigger] spec_escape(s, p_full())[k];
        c != 0x22 && c != 0x27 && c != 0x3c && c != 0x3e }
{
    let p = p_full();
    lemma_escaped_clean(s, p);
    assert forall|k: int| 0 <= k < spec_escape(s, p).len() implies {
        let c = #[trigger] spec_escape(s, p)[k];
        c != 0x22 && c != 0x27 && c != 0x3c && c != 0x3e } by {
        let c = spec_escape(s, p)[k];
        if c == 0x22 || c == 0x27 || c == 0x3c || c == 0x3e { assert(p(c)); }
    }
}

//@extract escape::escape | src/escape.rs :: fn escape | serves=C09,C10
//@rewrite raw: impl Into<Cow<'a, str>> ==> raw: Cow<'a, str>
 pub fn escape<'a>(raw: Cow<'a, str>) -> (r: Cow<'a, str>)
    // C10 / C09: exactly the characters of this level are replaced by their entity references
    ensures cow_str_bytes(r) == spec_escape(cow_str_bytes(raw), p_full()),
 {
    let r = _escape(raw, |ch: u8| -> (x: bool) ensures x == lvl_full(ch) { matches!(ch, b'<' | b'>' | b'&' | b'\'' | b'\"') });
    r
}
//@end
//@extract escape::partial_escape | src/escape.rs :: fn partial_escape | serves=C09,C10
//@rewrite raw: impl Into<Cow<'a, str>> ==> raw: Cow<'a, str>
 pub fn partial_escape<'a>(raw: Cow<'a, str>) -> (r: Cow<'a, str>)
    // C10 / C09: exactly the characters of this level are replaced by their entity references
    ensures cow_str_bytes(r) == spec_escape(cow_str_bytes(raw), p_partial()),
 {
    let r = _escape(raw, |ch: u8| -> (x: bool) ensures x == lvl_partial(ch) { matches!(ch, b'<' | b'>' | b'&') });
    r
}
//@end
//@extract escape::minimal_escape | src/escape.rs :: fn minimal_escape | serves=C09,C10
//@rewrite raw: impl Into<Cow<'a, str>> ==> raw: Cow<'a, str>
 pub fn minimal_escape<'a>(raw: Cow<'a, str>) -> (r: Cow<'a, str>)
    // C10 / C09: exactly the characters of this level are replaced by their entity references
    ensures cow_str_bytes(r) == spec_escape(cow_str_bytes(raw), p_minimal()),
 {
    let r = _escape(raw, |ch: u8| -> (x: bool) ensures x == lvl_minimal(ch) { matches!(ch, b'<' | b'&') });
    r
}
//@end

// ---------------------------------------------------------------------------------------------
// unescape_with / unescape (C10): every reference is replaced by exactly its character(s), anything else is
// an error; then the inverse law.
// ---------------------------------------------------------------------------------------------
pub mod shim_u {
    use vstd::prelude::*;
    use vstd::string::*;
    use crate::memchr::Memchr3;
    /// contract of `iter.by_ref().find(f)` on the position iterator (N2): the next yielded position that satisfies `f`
    pub fn find_pos<'h, F: Fn(&usize) -> bool>(it: &mut Memchr3<'h>, f: F) -> (r: Option<usize>)
        requires old(it).wf(), forall|p: usize| p < old(it).hay@.len() ==> f.requires((&p,)),
        ensures
            final(it).wf(), final(it).hay == old(it).hay, final(it).n1 == old(it).n1, final(it).n2 == old(it).n2, final(it).n3 == old(it).n3,
            match r {
                Some(i) => old(it).pos <= i < old(it).hay@.len() && old(it).needle(old(it).hay@[i as int]) && f.ensures((&i,), true)
                    && final(it).pos == i + 1
                    && forall|j: int| old(it).pos <= j < i && old(it).needle(#[trigger] old(it).hay@[j]) ==> f.ensures((&(j as usize),), false),
                None => final(it).pos == old(it).hay@.len()
                    && forall|j: int| old(it).pos <= j < old(it).hay@.len() && old(it).needle(#[trigger] old(it).hay@[j]) ==> f.ensures((&(j as usize),), false),
            }
    {
        let ghost p0 = it.pos as int;
        loop
            invariant
                it.wf(), it.hay == old(it).hay, it.n1 == old(it).n1, it.n2 == old(it).n2, it.n3 == old(it).n3, p0 == old(it).pos, p0 <= it.pos,
                forall|p: usize| p < old(it).hay@.len() ==> f.requires((&p,)),
                forall|j: int| p0 <= j < it.pos && it.needle(#[trigger] it.hay@[j]) ==> f.ensures((&(j as usize),), false),
            decreases it.hay@.len() - it.pos
        {
            match it.next() {
                None => { return None; }
                Some(i) => { if f(&i) { return Some(i); } }
            }
        }
    }
    /// assumed (std documentation of `str` indexing): `&raw[a..b]` with both offsets on character boundaries does not
    /// panic and is the string of the bytes between them. That the offsets ARE character boundaries is proved by the
    /// caller (they are positions of ASCII delimiters or directly behind one: lemma_ascii_boundaries)
    #[verifier::external_body]
    pub fn str_slice<'a>(raw: &'a str, a: usize, b: usize) -> (r: &'a str)
        requires a <= b <= raw.spec_bytes().len(),
            vstd::utf8::is_char_boundary(raw.spec_bytes(), a as int), vstd::utf8::is_char_boundary(raw.spec_bytes(), b as int),
        ensures r.spec_bytes() == raw.spec_bytes().subrange(a as int, b as int)
    { &raw[a..b] }
    /// assumed (std documentation of `str::get`): `raw.get(a..)` with `a` on a character boundary is Some(tail)
    #[verifier::external_body]
    pub fn str_from<'a>(raw: &'a str, a: usize) -> (r: Option<&'a str>)
        requires a <= raw.spec_bytes().len(), vstd::utf8::is_char_boundary(raw.spec_bytes(), a as int),
        ensures r matches Some(t) && t.spec_bytes() == raw.spec_bytes().subrange(a as int, raw.spec_bytes().len() as int)
    { raw.get(a..) }
    /// assumed: `s.push_str(c.encode_utf8(&mut [0u8; 4]))` appends the character
    #[verifier::external_body]
    pub fn push_char(s: &mut String, c: char)
        ensures final(s)@ == old(s)@.push(c)
    { s.push_str(c.encode_utf8(&mut [0u8; 4])); }
    /// the text of an error message (not interpreted)
    #[verifier::external_body]
    pub fn to_string(s: &str) -> String { s.to_string() }
}
pub assume_specification[ String::with_capacity ](n: usize) -> (s: String)
    ensures s@.len() == 0;

use escape_::{parse_number, ParseCharRefError, charref_digits, digits_value, is_scalar};
use crate::memchr::memchr2_iter;
use core::ops::Range;

/// index of the first byte at or after `from` that is '&' (amp) / that is '&' or ';' (delimiter)
pub open spec fn first_amp(s: Seq<u8>, from: int) -> Option<int> decreases s.len() - from {
    if from < 0 || from >= s.len() { None } else if s[from] == 0x26 { Some(from) } else { first_amp(s, from + 1) }
}
pub open spec fn first_delim(s: Seq<u8>, from: int) -> Option<int> decreases s.len() - from {
    if from < 0 || from >= s.len() { None } else if s[from] == 0x26 || s[from] == 0x3b { Some(from) } else { first_delim(s, from + 1) }
}
pub proof fn lemma_first_amp(s: Seq<u8>, from: int)
    requires 0 <= from
    ensures match first_amp(s, from) {
        Some(i) => from <= i < s.len() && s[i] == 0x26 && forall|j: int| from <= j < i ==> #[trigger] s[j] != 0x26,
        None => forall|j: int| from <= j < s.len() ==> #[trigger] s[j] != 0x26,
    }
    decreases s.len() - from
{ if from < s.len() && s[from] != 0x26 { lemma_first_amp(s, from + 1); } }
pub proof fn lemma_first_delim(s: Seq<u8>, from: int)
    requires 0 <= from
    ensures match first_delim(s, from) {
        Some(i) => from <= i < s.len() && (s[i] == 0x26 || s[i] == 0x3b) && forall|j: int| from <= j < i ==> (#[trigger] s[j] != 0x26 && s[j] != 0x3b),
        None => forall|j: int| from <= j < s.len() ==> (#[trigger] s[j] != 0x26 && s[j] != 0x3b),
    }
    decreases s.len() - from
{ if from < s.len() && !(s[from] == 0x26 || s[from] == 0x3b) { lemma_first_delim(s, from + 1); } }
/// the scalar value of the body of a character reference ("#" already removed): XML 1.0 4.1 -- decimal or 'x' + hex
/// digits of a non-zero Unicode scalar value; anything else is no character reference
pub open spec fn charref_value(body: Seq<u8>) -> Option<nat> {
    let (digits, radix) = charref_digits(body);
    match digits_value(digits, radix) { Some(v) => if v != 0 && is_scalar(v) { Some(v) } else { None }, None => None }
}
/// in valid UTF-8 the position of an ASCII byte and the position behind it are character boundaries (proved from
/// vstd's UTF-8 theory): this is why slicing at '&' / ';' cannot panic
pub proof fn lemma_ascii_boundaries(s: Seq<u8>, i: int)
    requires valid_utf8(s), 0 <= i < s.len(), s[i] < 0x80
    ensures is_char_boundary(s, i), is_char_boundary(s, i + 1)
{
    is_char_boundary_iff_not_is_continuation_byte(s, i);
    valid_utf8_split(s, i);
    let t = s.subrange(i, s.len() as int);
    assert(t[0] == s[i]);
    reveal_with_fuel(valid_utf8, 3);
    assert(length_of_first_scalar(t) == 1);
    assert(pop_first_scalar(t) =~= t.subrange(1, t.len() as int));
    let u = s.subrange(i + 1, s.len() as int);
    assert(u =~= t.subrange(1, t.len() as int));
    if i + 1 < s.len() {
        is_char_boundary_iff_not_is_continuation_byte(s, i + 1);
        is_char_boundary_start_end_of_seq(u);
        is_char_boundary_iff_not_is_continuation_byte(u, 0);
        assert(u[0] == s[i + 1]);
    } else {
        is_char_boundary_start_end_of_seq(s);
    }
}
/// the bytes written so far
pub open spec fn acc_bytes(u: Option<String>) -> Seq<u8> { match u { Some(x) => encode_utf8(x@), None => Seq::<u8>::empty() } }
/// `v` (UTF-8 bytes) is what the reference body `pat` (the bytes between '&' and ';') stands for: the character of
/// a character reference, or what the resolver answers for a named one
pub open spec fn ent_ok<'e, F: Fn(&str) -> Option<&'e str>>(pat: Seq<u8>, f: F, v: Seq<u8>) -> bool {
    if pat.len() > 0 && pat[0] == 0x23 {
        exists|c: char| charref_value(pat.subrange(1, pat.len() as int)) == Some(c as u32 as nat) && v == #[trigger] encode_utf8(seq![c])
    } else {
        exists|p: &str, val: &'e str| p.spec_bytes() == pat && #[trigger] f.ensures((p,), Some(val)) && val.spec_bytes() == v
    }
}
/// the reference body is rejected: not a character reference although it starts with '#', or unknown to the resolver
pub open spec fn ent_err<'e, F: Fn(&str) -> Option<&'e str>>(pat: Seq<u8>, f: F) -> bool {
    if pat.len() > 0 && pat[0] == 0x23 { charref_value(pat.subrange(1, pat.len() as int)) is None }
    else { exists|p: &str| p.spec_bytes() == pat && #[trigger] f.ensures((p,), None) }
}
/// `out` is the unescaped form of s[from..]: text between references is copied, every `&body;` is replaced by what
/// the body stands for; an '&' must be closed by a ';' before the next '&' (stray ';' are ordinary text)
pub open spec fn unesc_ok<'e, F: Fn(&str) -> Option<&'e str>>(s: Seq<u8>, from: int, f: F, out: Seq<u8>) -> bool decreases s.len() - from {
    if from < 0 || from > s.len() { false } else {
        match first_amp(s, from) {
            None => out == s.subrange(from, s.len() as int),
            Some(a) => match first_delim(s, a + 1) {
                // out == s[from..a] ++ v ++ rest, v the value of the reference, rest the unescaped remainder
                Some(e) => s[e] == 0x3b && from < e + 1 <= s.len() && exists|v: Seq<u8>| #[trigger] ent_ok(s.subrange(a + 1, e), f, v)
                    && (a - from) + v.len() <= out.len() && out.subrange(0, (a - from) + v.len()) == s.subrange(from, a) + v
                    && unesc_ok(s, e + 1, f, out.subrange((a - from) + v.len(), out.len() as int)),
                None => false,
            },
        }
    }
}
/// unescaping s[from..] meets an error: an '&' that is not closed, or a reference body that is rejected
pub open spec fn unesc_err<'e, F: Fn(&str) -> Option<&'e str>>(s: Seq<u8>, from: int, f: F) -> bool decreases s.len() - from {
    if from < 0 || from > s.len() { false } else {
        match first_amp(s, from) {
            None => false,
            Some(a) => match first_delim(s, a + 1) {
                Some(e) => s[e] != 0x3b || ent_err(s.subrange(a + 1, e), f)
                    || (from < e + 1 <= s.len() && (exists|v: Seq<u8>| #[trigger] ent_ok(s.subrange(a + 1, e), f, v)) && unesc_err(s, e + 1, f)),
                None => true,
            },
        }
    }
}

//@extract escape::EscapeError | src/escape.rs :: enum EscapeError | serves=C10
 pub enum EscapeError {
    /// Referenced entity in unknown to the parser.
    UnrecognizedEntity(Range<usize>, String),
    /// Cannot find `;` after `&`
    UnterminatedEntity(Range<usize>),
    /// Attempt to parse character reference (`&#<dec-number>;` or `&#x<hex-number>;`)
    /// was unsuccessful, not all characters are decimal or hexadecimal numbers.
    InvalidCharRef(ParseCharRefError),
}
//@end
//@extract escape::unescape_with | src/escape.rs :: fn unescape_with | serves=C09,C10
//@rewrite mut resolve_entity: F, ==> resolve_entity: F,
//@rewrite F: FnMut(&str) -> Option<&'entity str>, ==> F: Fn(&str) -> Option<&'entity str>,
//@rewrite-opt iter.by_ref().find(|p| ==> shim_u::find_pos(&mut iter, |p: &usize|
//@rewrite unescaped.push_str(&raw[last_end..start]) ==> unescaped.push_str(shim_u::str_slice(raw, last_end, start))
//@rewrite &raw[start + 1..end] ==> shim_u::str_slice(raw, start + 1, end)
//@rewrite pat.strip_prefix('#') ==> escape_::strshim2::strip_prefix_char(pat, '#')
//@rewrite .map_err(EscapeError::InvalidCharRef)? ==> .map_err(|e: ParseCharRefError| EscapeError::InvalidCharRef(e))?
//@rewrite unescaped.push_str(codepoint.encode_utf8(&mut [0u8; 4])) ==> shim_u::push_char(unescaped, codepoint)
//@rewrite pat.to_string() ==> shim_u::to_string(pat)
//@rewrite raw.get(last_end..) ==> shim_u::str_from(raw, last_end)
 pub fn unescape_with<'input, 'entity, F>(
    raw: &'input str,
    resolve_entity: F,
) -> (r: Result<Cow<'input, str>, EscapeError>)
where
    // the lifetime of the output comes from a capture or is `'static`
    F: Fn(&str) -> Option<&'entity str>,
    requires forall|p: &str| resolve_entity.requires((p,)),
    ensures match r {
        // C10: every reference gives exactly what it stands for, the rest is copied ...
        Ok(c) => unesc_ok(raw.spec_bytes(), 0, resolve_entity, cow_str_bytes(c))
            // ... and a string without '&' is returned unchanged and borrowed
            && (first_amp(raw.spec_bytes(), 0) is None ==> c == Cow::<'input, str>::Borrowed(raw))
            // ... a borrowed result is the input itself (callers use "borrowed = nothing was replaced")
            && (c matches Cow::Borrowed(b) ==> b == raw),
        // ... any other reference (zero, surrogate, out of range, signed, empty, unknown name, missing ';') is an error
        Err(_) => unesc_err(raw.spec_bytes(), 0, resolve_entity),
    }
{
    let bytes = raw.as_bytes();
    let ghost s = bytes@;
    let mut unescaped: Option<String> = None;
    let mut last_end = 0;
    let mut iter = memchr2_iter(b'&', b';', bytes);
    proof { lemma_first_amp(s, 0); encode_utf8_valid_utf8(raw@); is_char_boundary_start_end_of_seq(s); }
    loop
        invariant_except_break
            iter.pos == last_end,
        invariant
            bytes@ == s, s == raw.spec_bytes(), iter.wf(), iter.hay == bytes, iter.n1 == 0x26, iter.n2 == 0x3b, iter.n3 == 0x3b, last_end <= s.len(),
            forall|p: &str| resolve_entity.requires((p,)),
            unescaped is None ==> last_end == 0,
            valid_utf8(s), is_char_boundary(s, last_end as int),
            // continuation form: whatever the rest unescapes to, the whole unescapes to what has been written plus that
            forall|rest: Seq<u8>| #[trigger] unesc_ok(s, last_end as int, resolve_entity, rest) ==> unesc_ok(s, 0, resolve_entity, acc_bytes(unescaped) + rest),
            unesc_err(s, last_end as int, resolve_entity) ==> unesc_err(s, 0, resolve_entity),
            unescaped is None ==> first_amp(s, 0) == first_amp(s, last_end as int),
            unescaped is Some ==> first_amp(s, 0) is Some,
        ensures
            is_char_boundary(s, last_end as int),
            unescaped is Some ==> first_amp(s, 0) is Some,
            last_end <= s.len(), first_amp(s, last_end as int) is None,
            unescaped is None ==> last_end == 0,
            forall|rest: Seq<u8>| #[trigger] unesc_ok(s, last_end as int, resolve_entity, rest) ==> unesc_ok(s, 0, resolve_entity, acc_bytes(unescaped) + rest),
        decreases s.len() - last_end
    { proof { lemma_first_amp(s, last_end as int); }
      match shim_u::find_pos(&mut iter, |p: &usize| -> (x: bool) requires *p < bytes@.len() ensures x == (bytes@[*p as int] == 0x26) { bytes[*p] == b'&' }) { Some(start) => {
        proof {
            assert(first_amp(s, last_end as int) == Some(start as int));
            lemma_first_delim(s, start + 1);
        }
        let ghost l0 = last_end as int;
        let ghost acc0 = acc_bytes(unescaped);
        match iter.next() {
            Some(end) if bytes[end] == b';' => {
                proof {
                    assert(first_delim(s, start + 1) == Some(end as int));
                    // '&' at start and ';' at end are ASCII: start, start + 1, end, end + 1 are character boundaries
                    lemma_ascii_boundaries(s, start as int);
                    lemma_ascii_boundaries(s, end as int);
                }
                // append valid data
                if unescaped.is_none() {
                    unescaped = Some(String::with_capacity(raw.len()));
                }
                let unescaped = unescaped.as_mut().expect("initialized");
                let ghost u0 = unescaped@;
                proof { assert(encode_utf8(u0) =~= acc0) by { if acc0.len() == 0 && u0.len() == 0 { assert(u0 =~= Seq::<char>::empty()); reveal_with_fuel(encode_utf8, 1); } } }
                unescaped.push_str(shim_u::str_slice(raw, last_end, start));
                let ghost chunk = s.subrange(l0, start as int);
                proof {
                    let t1 = choose|t: &str| t.spec_bytes() == chunk && unescaped@ == u0 + t@;
                    encode_utf8_concat(u0, t1@);
                    assert(encode_utf8(unescaped@) == acc0 + chunk);
                }

                // search for character correctness
                let pat = shim_u::str_slice(raw, start + 1, end);
                let ghost pb = s.subrange(start + 1, end as int);
                let ghost u1 = unescaped@;
                let ghost mut vv: Seq<u8> = Seq::empty();
                if let Some(entity) = escape_::strshim2::strip_prefix_char(pat, '#') {
                    proof {
                        // a '#' body that is no character reference is an error
                        if charref_value(pb.subrange(1, pb.len() as int)) is None {
                            assert(ent_err(pb, resolve_entity));
                            assert(unesc_err(s, l0, resolve_entity));
                        }
                    }
                    let codepoint = parse_number(entity).map_err(|e: ParseCharRefError| -> (x: EscapeError) ensures x == EscapeError::InvalidCharRef(e) { EscapeError::InvalidCharRef(e) })?;
                    shim_u::push_char(unescaped, codepoint);
                    proof {
                        encode_utf8_concat(u1, seq![codepoint]);
                        assert(unescaped@ =~= u1 + seq![codepoint]);
                        assert(ent_ok(pb, resolve_entity, encode_utf8(seq![codepoint])));
                        vv = encode_utf8(seq![codepoint]);
                    }
                } else if let Some(value) = resolve_entity(pat) {
                    unescaped.push_str(value);
                    proof {
                        encode_utf8_concat(u1, value@);
                        assert(ent_ok(pb, resolve_entity, value.spec_bytes()));
                        vv = value.spec_bytes();
                    }
                } else {
                    proof {
                        assert(ent_err(pb, resolve_entity));
                        assert(unesc_err(s, l0, resolve_entity));
                    }
                    return Err(EscapeError::UnrecognizedEntity(
                        start + 1..end,
                        shim_u::to_string(pat),
                    ));
                }
                proof {
                    let v = vv;
                    assert(ent_ok(pb, resolve_entity, v));
                    assert(encode_utf8(unescaped@) == encode_utf8(u1) + v);
                    assert(encode_utf8(unescaped@) =~= acc0 + chunk + v);
                    assert forall|rest: Seq<u8>| #[trigger] unesc_ok(s, end + 1, resolve_entity, rest) implies unesc_ok(s, 0, resolve_entity, acc0 + chunk + v + rest) by {
                        let out = chunk + v + rest;
                        assert(out.subrange(0, (chunk.len() + v.len()) as int) =~= chunk + v);
                        assert(out.subrange((chunk.len() + v.len()) as int, out.len() as int) =~= rest);
                        assert(unesc_ok(s, l0, resolve_entity, chunk + v + rest));
                        assert(acc0 + (chunk + v + rest) =~= acc0 + chunk + v + rest);
                    }
                    if unesc_err(s, end + 1, resolve_entity) { assert(unesc_err(s, l0, resolve_entity)); }
                }

                last_end = end + 1;
            }
            _ => {
                proof { assert(unesc_err(s, l0, resolve_entity)); }
                return Err(EscapeError::UnterminatedEntity(start..raw.len())) },
        }
    } _ => { break; } } }

    proof {
        let tail = s.subrange(last_end as int, s.len() as int);
        assert(unesc_ok(s, last_end as int, resolve_entity, tail));
        assert(unesc_ok(s, 0, resolve_entity, acc_bytes(unescaped) + tail));
        if unescaped is None { assert(acc_bytes(unescaped) + tail =~= s); }
    }
    if let Some(mut unescaped) = unescaped {
        let ghost u0 = unescaped@;
        if let Some(raw) = shim_u::str_from(raw, last_end) {
            unescaped.push_str(raw);
            proof { encode_utf8_concat(u0, raw@); }
        }
        Ok(Cow::Owned(unescaped))
    } else {
        Ok(Cow::Borrowed(raw))
    }
}
//@end

// ---- C10, first sentence: unescaping is the exact inverse of escaping ----
pub open spec fn opt_shift(o: Option<int>, n: int) -> Option<int> { match o { Some(k) => Some(k + n), None => None } }
pub proof fn lemma_first_amp_shift(x: Seq<u8>, y: Seq<u8>, from: int)
    requires 0 <= from <= y.len()
    ensures first_amp(x + y, x.len() + from) == opt_shift(first_amp(y, from), x.len() as int)
    decreases y.len() - from
{
    if from < y.len() {
        assert((x + y)[x.len() + from] == y[from]);
        if y[from] != 0x26 { lemma_first_amp_shift(x, y, from + 1); }
    }
}
pub proof fn lemma_first_delim_shift(x: Seq<u8>, y: Seq<u8>, from: int)
    requires 0 <= from <= y.len()
    ensures first_delim(x + y, x.len() + from) == opt_shift(first_delim(y, from), x.len() as int)
    decreases y.len() - from
{
    if from < y.len() {
        assert((x + y)[x.len() + from] == y[from]);
        if !(y[from] == 0x26 || y[from] == 0x3b) { lemma_first_delim_shift(x, y, from + 1); }
    }
}
/// unescaping does not look back: what precedes `from` is irrelevant
pub proof fn lemma_unescape_shift(x: Seq<u8>, y: Seq<u8>, from: int)
    requires 0 <= from <= y.len()
    ensures unescape_xml(x + y, x.len() + from) == unescape_xml(y, from)
    decreases y.len() - from
{
    let n = x.len() as int;
    let z = x + y;
    lemma_first_amp_shift(x, y, from);
    lemma_first_amp(y, from);
    match first_amp(y, from) {
        None => { assert(z.subrange(n + from, z.len() as int) =~= y.subrange(from, y.len() as int)); }
        Some(a) => {
            lemma_first_delim_shift(x, y, a + 1);
            lemma_first_delim(y, a + 1);
            match first_delim(y, a + 1) {
                None => {}
                Some(e) => {
                    assert(z[n + e] == y[e]);
                    if y[e] == 0x3b {
                        assert(z.subrange(n + a + 1, n + e) =~= y.subrange(a + 1, e));
                        assert(z.subrange(n + from, n + a) =~= y.subrange(from, a));
                        lemma_unescape_shift(x, y, e + 1);
                    }
                }
            }
        }
    }
}
/// the replacement of an escapable byte is one reference that stands for that byte
pub proof fn lemma_esc_one_value(b: u8)
    requires lvl_full(b)
    ensures ({
        let r = esc_one(b);
        &&& r.len() >= 4 && r[0] == 0x26 && r[r.len() - 1] == 0x3b
        &&& forall|j: int| 1 <= j < r.len() - 1 ==> (#[trigger] r[j] != 0x26 && r[j] != 0x3b)
        &&& ent_value_xml(r.subrange(1, r.len() - 1)) == Some(seq![b])
    })
{
    let r = esc_one(b);
    let body = r.subrange(1, r.len() - 1);
    if b == 0x3c { assert(body =~= seq![0x6cu8, 0x74]); }
    else if b == 0x3e { assert(body =~= seq![0x67u8, 0x74]); }
    else if b == 0x26 { assert(body =~= seq![0x61u8, 0x6d, 0x70]); }
    else if b == 0x27 { assert(body =~= seq![0x61u8, 0x70, 0x6f, 0x73]); }
    else { assert(body =~= seq![0x71u8, 0x75, 0x6f, 0x74]); }
}
/// THEOREM (C10): for every byte string and each of the three levels (any set of the five special characters that
/// contains '&'), unescaping the escaped form gives the string back
pub proof fn theorem_unescape_escape(s: Seq<u8>, p: spec_fn(u8) -> bool)
    requires p(0x26u8), forall|b: u8| p(b) ==> lvl_full(b)
    ensures unescape_xml(spec_escape(s, p), 0) == Some(s)
    decreases s.len()
{
    if s.len() == 0 {
        assert(spec_escape(s, p) =~= Seq::<u8>::empty());
        assert(unescape_xml(Seq::<u8>::empty(), 0) == Some(Seq::<u8>::empty().subrange(0, 0)));
        assert(Seq::<u8>::empty().subrange(0, 0) =~= s);
    } else {
        let b = s[0];
        let tail = s.subrange(1, s.len() as int);
        theorem_unescape_escape(tail, p);
        let t = spec_escape(tail, p);
        lemma_escape_concat(seq![b], tail, p);
        assert(seq![b] + tail =~= s);
        let piece = spec_escape(seq![b], p);
        assert(piece =~= (if p(b) { esc_one(b) } else { seq![b] })) by {
            assert(seq![b].drop_last() =~= Seq::<u8>::empty());
            assert(spec_escape(Seq::<u8>::empty(), p) =~= Seq::<u8>::empty());
        }
        let z = piece + t;
        assert(spec_escape(s, p) == z);
        lemma_unescape_shift(piece, t, 0);
        if p(b) {
            lemma_esc_one_value(b);
            let e = piece.len() - 1;
            lemma_first_amp(z, 0);
            assert(z[0] == 0x26);
            assert(first_amp(z, 0) == Some(0int));
            lemma_first_delim(z, 1);
            assert forall|j: int| 1 <= j < e implies (#[trigger] z[j] != 0x26 && z[j] != 0x3b) by { assert(z[j] == piece[j]); }
            assert(z[e] == piece[e]);
            assert(first_delim(z, 1) == Some(e));
            assert(z.subrange(1, e) =~= piece.subrange(1, piece.len() - 1));
            assert(z.subrange(0, 0) + seq![b] + tail =~= s);
        } else {
            // an ordinary byte is copied: it is not '&'
            assert(b != 0x26);
            lemma_unescape_skip(z, 0);
            assert(seq![b] + tail =~= s);
        }
    }
}
/// a byte that is not '&' is copied
pub proof fn lemma_unescape_skip(z: Seq<u8>, from: int)
    requires 0 <= from < z.len(), z[from] != 0x26
    ensures unescape_xml(z, from) == (match unescape_xml(z, from + 1) { Some(r) => Some(seq![z[from]] + r), None => None })
{
    lemma_first_amp(z, from);
    lemma_first_amp(z, from + 1);
    match first_amp(z, from + 1) {
        None => { assert(z.subrange(from, z.len() as int) =~= seq![z[from]] + z.subrange(from + 1, z.len() as int)); }
        Some(a) => {
            match first_delim(z, a + 1) {
                None => {}
                Some(e) => {
                    if z[e] == 0x3b && from + 1 < e + 1 <= z.len() {
                        match (ent_value_xml(z.subrange(a + 1, e)), unescape_xml(z, e + 1)) {
                            (Some(v), Some(rest)) => { assert(z.subrange(from, a) + v + rest =~= seq![z[from]] + (z.subrange(from + 1, a) + v + rest)); }
                            _ => {}
                        }
                    }
                }
            }
        }
    }
}


/// XML 1.0 4.6: the five predefined entities
pub open spec fn xml_entity(p: Seq<u8>) -> Option<Seq<u8>> {
    if p == seq![0x6cu8, 0x74] { Some(seq![0x3cu8]) }                       // lt
    else if p == seq![0x67u8, 0x74] { Some(seq![0x3eu8]) }                  // gt
    else if p == seq![0x61u8, 0x6d, 0x70] { Some(seq![0x26u8]) }            // amp
    else if p == seq![0x61u8, 0x70, 0x6f, 0x73] { Some(seq![0x27u8]) }      // apos
    else if p == seq![0x71u8, 0x75, 0x6f, 0x74] { Some(seq![0x22u8]) }      // quot
    else { None }
}
/// `f` answers exactly the predefined entities
pub open spec fn implements_xml<'e, F: Fn(&str) -> Option<&'e str>>(f: F) -> bool {
    forall|p: &str, o: Option<&'e str>| #[trigger] f.ensures((p,), o) ==> match o {
        Some(v) => xml_entity(p.spec_bytes()) == Some(v.spec_bytes()),
        None => xml_entity(p.spec_bytes()) is None,
    }
}
pub open spec fn char_val(c: char) -> nat { c as u32 as nat }
/// value of a reference body under the predefined entities
pub open spec fn ent_value_xml(pat: Seq<u8>) -> Option<Seq<u8>> {
    if pat.len() > 0 && pat[0] == 0x23 {
        match charref_value(pat.subrange(1, pat.len() as int)) {
            Some(n) => Some(encode_utf8(seq![choose|c: char| #[trigger] char_val(c) == n])),
            None => None,
        }
    } else { xml_entity(pat) }
}
/// THE unescaping function for the predefined entities (C10)
pub open spec fn unescape_xml(s: Seq<u8>, from: int) -> Option<Seq<u8>> decreases s.len() - from {
    if from < 0 || from > s.len() { None } else {
        match first_amp(s, from) {
            None => Some(s.subrange(from, s.len() as int)),
            Some(a) => match first_delim(s, a + 1) {
                Some(e) => if s[e] == 0x3b && from < e + 1 <= s.len() {
                        match (ent_value_xml(s.subrange(a + 1, e)), unescape_xml(s, e + 1)) {
                            (Some(v), Some(rest)) => Some(s.subrange(from, a) + v + rest),
                            _ => None,
                        }
                    } else { None },
                None => None,
            },
        }
    }
}
/// a char is determined by its scalar value
pub proof fn lemma_char_unique(c: char, d: char)
    requires c as u32 == d as u32
    ensures c == d
{}
/// for a resolver that answers exactly the predefined entities, the relation of unescape_with is this function
pub proof fn lemma_unesc_functional<'e, F: Fn(&str) -> Option<&'e str>>(s: Seq<u8>, from: int, f: F, out: Seq<u8>)
    requires implements_xml(f), 0 <= from <= s.len()
    ensures
        unesc_ok(s, from, f, out) ==> unescape_xml(s, from) == Some(out),
        unesc_err(s, from, f) ==> unescape_xml(s, from) is None,
    decreases s.len() - from
{
    lemma_first_amp(s, from);
    match first_amp(s, from) {
        None => {}
        Some(a) => {
            lemma_first_delim(s, a + 1);
            match first_delim(s, a + 1) {
                None => {}
                Some(e) => {
                    if s[e] == 0x3b {
                        let pat = s.subrange(a + 1, e);
                        // what ent_ok / ent_err say under this resolver
                        assert forall|v: Seq<u8>| #[trigger] ent_ok(pat, f, v) implies ent_value_xml(pat) == Some(v) by {
                            if pat.len() > 0 && pat[0] == 0x23 {
                                let c = choose|c: char| charref_value(pat.subrange(1, pat.len() as int)) == Some(c as u32 as nat) && v == #[trigger] encode_utf8(seq![c]);
                                assert(char_val(c) == c as u32 as nat);
                                let d = choose|d: char| #[trigger] char_val(d) == c as u32 as nat;
                                lemma_char_unique(c, d);
                            }
                        }
                        if ent_err(pat, f) { assert(ent_value_xml(pat) is None); }
                        if unesc_ok(s, from, f, out) {
                            let v = choose|v: Seq<u8>| #[trigger] ent_ok(pat, f, v)
                                && (a - from) + v.len() <= out.len() && out.subrange(0, (a - from) + v.len()) == s.subrange(from, a) + v
                                && unesc_ok(s, e + 1, f, out.subrange((a - from) + v.len(), out.len() as int));
                            let rest = out.subrange((a - from) + v.len(), out.len() as int);
                            lemma_unesc_functional(s, e + 1, f, rest);
                            assert(out =~= s.subrange(from, a) + v + rest);
                        }
                        if unesc_err(s, from, f) && !ent_err(pat, f) {
                            lemma_unesc_functional(s, e + 1, f, Seq::<u8>::empty());
                        }
                    }
                }
            }
        }
    }
}

//@extract escape::resolve_xml_entity | src/escape.rs :: fn resolve_xml_entity | serves=C10 n13=1
 pub fn resolve_xml_entity(entity: &str) -> (r: Option<&'static str>)
    // XML 1.0 4.6: lt gt amp apos quot and nothing else
    ensures match r {
        Some(v) => xml_entity(entity.spec_bytes()) == Some(v.spec_bytes()),
        None => xml_entity(entity.spec_bytes()) is None,
    }
 {
    proof {
        reveal_strlit("<"); reveal_strlit(">"); reveal_strlit("&"); reveal_strlit("'"); reveal_strlit("\"");
        is_ascii_chars_encode_utf8("<"@); is_ascii_chars_encode_utf8(">"@); is_ascii_chars_encode_utf8("&"@);
        is_ascii_chars_encode_utf8("'"@); is_ascii_chars_encode_utf8("\""@);
        assert("<".spec_bytes() =~= seq![0x3cu8]); assert(">".spec_bytes() =~= seq![0x3eu8]); assert("&".spec_bytes() =~= seq![0x26u8]);
        assert("'".spec_bytes() =~= seq![0x27u8]); assert("\"".spec_bytes() =~= seq![0x22u8]);
    }
    // match over strings are not allowed in const functions
    let s = { let __m13_1 = entity.as_bytes() ; if bytes_eq(__m13_1, &[b'l', b't']) { "<" } else if bytes_eq(__m13_1, &[b'g', b't']) { ">" } else if bytes_eq(__m13_1, &[b'a', b'm', b'p']) { "&" } else if bytes_eq(__m13_1, &[b'a', b'p', b'o', b's']) { "'" } else if bytes_eq(__m13_1, &[b'q', b'u', b'o', b't']) { "\"" } else { return None } };
    Some(s)
}
//@end
//@extract escape::resolve_predefined_entity | src/escape.rs :: fn resolve_predefined_entity | serves=C10
 pub fn resolve_predefined_entity(entity: &str) -> (r: Option<&'static str>)
    ensures match r {
        Some(v) => xml_entity(entity.spec_bytes()) == Some(v.spec_bytes()),
        None => xml_entity(entity.spec_bytes()) is None,
    }
 {
    {
        resolve_xml_entity(entity)
    }
}
//@end
//@extract escape::unescape | src/escape.rs :: fn unescape | serves=C09,C10
//@rewrite unescape_with(raw, resolve_predefined_entity) ==> { let f = |e: &str| resolve_predefined_entity(e); let r = unescape_with(raw, f); r }
 pub fn unescape(raw: &str) -> (r: Result<Cow<str>, EscapeError>)
    // C10: the result is the function unescape_xml of the input: every character reference of a valid non-zero
    // scalar value and every predefined entity gives exactly its character; anything else is an error
    ensures match r {
        Ok(c) => unescape_xml(raw.spec_bytes(), 0) == Some(cow_str_bytes(c))
            && (first_amp(raw.spec_bytes(), 0) is None ==> c == Cow::<str>::Borrowed(raw)),
        Err(_) => unescape_xml(raw.spec_bytes(), 0) is None,
    }
 {
    { let f = |e: &str| -> (o: Option<&'static str>)
            ensures match o { Some(v) => xml_entity(e.spec_bytes()) == Some(v.spec_bytes()), None => xml_entity(e.spec_bytes()) is None }
            { resolve_predefined_entity(e) };
      let r = unescape_with(raw, f);
      proof {
          assert(implements_xml(f));
          if r is Ok { lemma_unesc_functional(raw.spec_bytes(), 0, f, cow_str_bytes(r->Ok_0)); }
          else { lemma_unesc_functional(raw.spec_bytes(), 0, f, Seq::<u8>::empty()); }
      }
      r }
}
//@end
}
