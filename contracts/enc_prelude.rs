// ---------------------------------------------------------------------------------------------
// Feature `encoding`: model of encoding_rs (assumed, C17): an Encoding is an opaque static value.
// ---------------------------------------------------------------------------------------------
pub struct Encoding { pub id: u8 }
pub mod encoding_rs { pub use super::Encoding; }
pub mod reader { pub use super::EncodingRef; }
/// models of the statics encoding_rs::UTF_8 / UTF_16BE / UTF_16LE: three different encodings
pub exec const UTF_8: &'static Encoding
    ensures UTF_8.id == 0
{ &Encoding { id: 0 } }
pub exec const UTF_16BE: &'static Encoding
    ensures UTF_16BE.id == 1
{ &Encoding { id: 1 } }
pub exec const UTF_16LE: &'static Encoding
    ensures UTF_16LE.id == 2
{ &Encoding { id: 2 } }


//@extract reader::EncodingRef | src/reader/mod.rs :: enum EncodingRef | serves=C17 features=encoding
#[derive(Clone, Copy)]
pub enum EncodingRef {
    /// Encoding was implicitly assumed to have a specified value. It can be refined
    /// using BOM or by the XML declaration event (`<?xml encoding=... ?>`)
    Implicit(&'static Encoding),
    /// Encoding was explicitly set to the desired value. It cannot be changed
    /// nor by BOM, nor by parsing XML declaration (`<?xml encoding=... ?>`)
    Explicit(&'static Encoding),
    /// Encoding was detected from a byte order mark (BOM) or by the first bytes
    /// of the content. It can be refined by the XML declaration event (`<?xml encoding=... ?>`)
    BomDetected(&'static Encoding),
    /// Encoding was detected using XML declaration event (`<?xml encoding=... ?>`).
    /// It can no longer change
    XmlDetected(&'static Encoding),
}
//@end

pub mod encref_ {
use super::*;
use vstd::prelude::*;
impl EncodingRef {
//@extract reader::EncodingRef::encoding | src/reader/mod.rs :: impl EncodingRef :: fn encoding | serves=C17 features=encoding
 pub fn encoding(&self) -> (r: &'static Encoding)
        ensures r == self.spec_encoding()
 {
        match self {
            Self::Implicit(e) => e,
            Self::Explicit(e) => e,
            Self::BomDetected(e) => e,
            Self::XmlDetected(e) => e,
        }
    }
//@end
//@extract reader::EncodingRef::can_be_refined | src/reader/mod.rs :: impl EncodingRef :: fn can_be_refined | serves=C17 features=encoding
 pub fn can_be_refined(&self) -> (r: bool)
        // only an implicit default or a BOM sniff may be refined; an explicit choice and a declaration are final
        ensures r == (*self is Implicit || *self is BomDetected)
 {
        match self {
            Self::Implicit(_) | Self::BomDetected(_) => true,
            Self::Explicit(_) | Self::XmlDetected(_) => false,
        }
    }
//@end
}
}

impl EncodingRef {
    pub open spec fn spec_encoding(&self) -> &'static Encoding {
        match self { EncodingRef::Implicit(e) => e, EncodingRef::Explicit(e) => e, EncodingRef::BomDetected(e) => e, EncodingRef::XmlDetected(e) => e }
    }
}
