// ---------------------------------------------------------------------------------------------
// U-dexml (feature `serialize`): the two event sources of the serde deserializer (src/de/mod.rs):
// IoReader::next (from_reader: owned events, one reused buffer) and SliceReader::next (from_str:
// borrowed events). C14 mechanism: BOTH loops satisfy ONE relation `pay_post` that speaks only
// about the logical input (what is still unread, however it is chunked), the reader state and the
// trimming flag: the next payload event is the first event of the namespace-aware reader that the
// start trimmer does not drop, byte for byte, or the first error.
// ---------------------------------------------------------------------------------------------
pub mod dexml_ {
use super::*;
use vstd::prelude::*;
use crate::ns_::*;
use crate::deio_::*;
use core::result::Result;

/// hand transcription of the variants of src/errors.rs serialize::DeError that these functions construct
pub enum DeError {
    Custom(String),
    InvalidXml(Error),
    Other,
}
impl vstd::std_specs::convert::FromSpecImpl<Error> for DeError {
    open spec fn obeys_from_spec() -> bool { true }
    open spec fn from_spec(e: Error) -> Self { DeError::InvalidXml(e) }
}
impl From<Error> for DeError {
//@extract errors::DeError::from_error | src/errors.rs :: mod serialize :: impl From<Error> for DeError :: fn from | serves=C14 features=serialize
    fn from(e: Error) -> Self {
        Self::InvalidXml(e)
    }
//@end
}

/// the logical position of a reader: parser state, input still unread (buffered or not), and the unread input
/// behind a byte order mark (only looked at before the first event)
pub struct RdAbs { pub st: ReaderState, pub rem: Seq<u8>, pub brem: Seq<u8> }

/// C14: the next payload event, as a relation over logical positions and the trimming flag only. `r` is the first
/// event of the namespace-aware reader that the start trimmer keeps (same kind, same bytes, same name length), or the
/// first error; dropped events (comments, processing instructions, declarations, whitespace-only text after markup)
/// are stepped over. Nothing here mentions buffers, chunks or ownership.
pub open(crate) spec fn pay_post<'i, 'j>(pre: RdAbs, t0: bool, post: RdAbs, t1: bool, r: Result<PayloadEvent<'j>, DeError>) -> bool
    decreases measure(pre.st, pre.rem)
{
    exists|mid: RdAbs, f: bool, ev: Result<Event<'i>, Error>, p: Option<PayloadEvent<'i>>, t: bool| #[trigger] pay_step(pre, t0, mid, f, ev, p, t) && match ev {
        Err(e) => r == Result::<PayloadEvent<'j>, DeError>::Err(DeError::InvalidXml(e)) && post == mid && t1 == t0,
        Ok(e) => match p {
            Some(q) => (r matches Ok(q2) && same_payload(q, q2)) && post == mid && t1 == t,
            None => measure(mid.st, mid.rem) < measure(pre.st, pre.rem) && pay_post(mid, t, post, t1, r),
        },
    }
}
/// one step of the underlying reader from `pre` to `mid` with result `ev`, and what the start trimmer makes of it
pub open(crate) spec fn pay_step<'i>(pre: RdAbs, t0: bool, mid: RdAbs, f: bool, ev: Result<Event<'i>, Error>, p: Option<PayloadEvent<'i>>, t: bool) -> bool {
    &&& ns_post(pre.st, pre.rem, pre.brem, mid.st, mid.rem, f, ev)
    &&& ev matches Ok(e) ==> trim_spec(t0, e, p, t)
}

//@extract de::IoReader | src/de/mod.rs :: struct IoReader | serves=C14 features=serialize
 struct IoReader<R: BufRead> {
    reader: NsReader<R>,
    start_trimmer: StartTrimmer,
    buf: Vec<u8>,
}
//@end
pub open(crate) spec fn abs_io<R: BufRead>(rd: NsReader<R>) -> RdAbs {
    RdAbs { st: rd.reader.state, rem: rd.reader.reader.remaining(), brem: rd.reader.reader.after_bom() }
}
pub open(crate) spec fn abs_sl<'a>(rd: NsReader<&'a [u8]>) -> RdAbs {
    RdAbs { st: rd.reader.state, rem: rd.reader.reader.remaining(), brem: rd.reader.reader.after_bom() }
}
/// what both sources need from their reader: the scope discipline of C05, addressable input (A-size), nesting below
/// the i32 counter of the resolver (A-depth), stray end tags not accepted (the deserializer's configuration)
pub open spec fn src_ok(inv: bool, st: ReaderState, rem: Seq<u8>) -> bool {
    &&& inv
    &&& st.offset + rem.len() <= u64::MAX
    &&& rem.len() <= usize::MAX
    &&& st.stack().len() < i32::MAX - 2
    &&& !st.config.allow_unmatched_ends
}

impl<R: BufRead> IoReader<R> {
//@extract de::IoReader::has_nil_attr | src/de/mod.rs :: impl<'i, R: BufRead> XmlRead<'i> for IoReader<R> :: fn has_nil_attr | serves=C07,C14 features=serialize
    fn has_nil_attr(&self, start: &BytesStart) -> (r: bool)
        // C07: looking for `xsi:nil` in a tag terminates and never panics, whatever the tag contains; C14: ONE function text for both sources
        requires start.name_len <= start.buf@.len(), self.reader.ns_resolver.wf(),
    {
        start.attributes().has_nil(&self.reader)
    }
//@end
//@extract de::IoReader::read_to_end | src/de/mod.rs :: impl<'i, R: BufRead> XmlRead<'i> for IoReader<R> :: fn read_to_end | serves=C14 features=serialize
    fn read_to_end(&mut self, name: QName) -> (r: Result<(), DeError>)
        requires src_ok(old(self).reader.inv(), old(self).reader.reader.state, old(self).reader.reader.reader.remaining()),
            skip_domain(old(self).reader.reader.state, name.0@),
        ensures
            // C14: skipping closes exactly the element (C12), keeps the scope discipline and does not touch the trimming flag
            r is Ok ==> final(self).reader.inv() && final(self).reader.reader.state.stack() == old(self).reader.reader.state.stack().drop_last(),
            final(self).start_trimmer == old(self).start_trimmer,
    {
        proof { self.reader.lemma_inv(); }
        match self.reader.read_to_end_into(name, &mut self.buf) {
            Err(e) => Err(e.into()),
            Ok(_) => Ok(()),
        }
    }
//@end
//@extract de::IoReader::next | src/de/mod.rs :: impl<'i, R: BufRead> XmlRead<'i> for IoReader<R> :: fn next | serves=C14 features=serialize n11=@read_event_into
    fn next(&mut self) -> (r: Result<PayloadEvent<'static>, DeError>)
        requires src_ok(old(self).reader.inv(), old(self).reader.reader.state, old(self).reader.reader.reader.remaining()),
        ensures
            // C14: the same relation as SliceReader::next, over the logical input only
            pay_post(abs_io(old(self).reader), old(self).start_trimmer.trim_start, abs_io(final(self).reader), final(self).start_trimmer.trim_start, r),
            r is Ok ==> final(self).reader.inv(),
    {
        let ghost a00 = abs_io(self.reader);
        let ghost t00 = self.start_trimmer.trim_start;
        loop
            invariant
                a00 == abs_io(old(self).reader), t00 == old(self).start_trimmer.trim_start,
                src_ok(self.reader.inv(), self.reader.reader.state, self.reader.reader.reader.remaining()),
                forall|post: RdAbs, t1: bool, r: Result<PayloadEvent<'static>, DeError>| #[trigger] pay_post(abs_io(self.reader), self.start_trimmer.trim_start, post, t1, r)
                    ==> pay_post(a00, t00, post, t1, r),
            decreases measure(self.reader.reader.state, self.reader.reader.reader.remaining())
        {
            self.buf.clear();
            let ghost a0 = abs_io(self.reader);
            let ghost t0 = self.start_trimmer.trim_start;
            let ghost f0 = self.reader.reader.reader.faults();
            proof { self.reader.lemma_inv(); }

            let event = match self.reader.read_event_into(&mut self.buf) { Ok(v__) => v__, Err(e__) => {
                proof {
                    let r = Result::<PayloadEvent<'static>, DeError>::Err(DeError::InvalidXml(e__));
                    assert(pay_step(a0, t0, abs_io(self.reader), self.reader.reader.reader.faults() > f0, Result::<Event, Error>::Err(e__), None, t0));
                    assert(pay_post(a0, t0, abs_io(self.reader), t0, r));
                    assert(<DeError as vstd::std_specs::convert::FromSpec<Error>>::from_spec(e__) == DeError::InvalidXml(e__));
                }
                return Err(From::from(e__)) } };
            let ghost ev = event;
            let ghost a1 = abs_io(self.reader);
            let ghost f = self.reader.reader.reader.faults() > f0;
            if let Some(event) = self.start_trimmer.trim(event) {
                proof {
                    let t = self.start_trimmer.trim_start;
                    assert(trim_spec(t0, ev, Some(event), t));
                    assert(pay_step(a0, t0, a1, f, Result::<Event, Error>::Ok(ev), Some(event), t));
                    assert forall|out: PayloadEvent<'static>| #[trigger] same_payload(event, out) implies
                        pay_post(a00, t00, a1, t, Result::<PayloadEvent<'static>, DeError>::Ok(out)) by {
                        assert(pay_post(a0, t0, a1, t, Result::<PayloadEvent<'static>, DeError>::Ok(out)));
                    }
                }
                return Ok(event.into_owned());
            }
            proof {
                self.reader.lemma_inv();
                let t = self.start_trimmer.trim_start;
                assert(trim_spec(t0, ev, None, t));
                assert forall|post: RdAbs, t1: bool, r: Result<PayloadEvent<'static>, DeError>| #[trigger] pay_post(a1, t, post, t1, r) implies pay_post(a00, t00, post, t1, r) by {
                    assert(pay_step(a0, t0, a1, f, Result::<Event, Error>::Ok(ev), None, t));
                    assert(continues(Result::<Event, Error>::Ok(ev)));
                    assert(measure(a1.st, a1.rem) < measure(a0.st, a0.rem));
                    assert(pay_post(a0, t0, post, t1, r));
                }
            }
        }
    }
//@end
}

//@extract de::SliceReader | src/de/mod.rs :: struct SliceReader | serves=C14 features=serialize
 struct SliceReader<'de> {
    reader: NsReader<&'de [u8]>,
    start_trimmer: StartTrimmer,
}
//@end
impl<'de> SliceReader<'de> {
//@extract de::SliceReader::has_nil_attr | src/de/mod.rs :: impl<'de> XmlRead<'de> for SliceReader<'de> :: fn has_nil_attr | serves=C07,C14 features=serialize
    fn has_nil_attr(&self, start: &BytesStart) -> (r: bool)
        // C07: looking for `xsi:nil` in a tag terminates and never panics, whatever the tag contains; C14: ONE function text for both sources
        requires start.name_len <= start.buf@.len(), self.reader.ns_resolver.wf(),
    {
        start.attributes().has_nil(&self.reader)
    }
//@end
//@extract de::SliceReader::read_to_end | src/de/mod.rs :: impl<'de> XmlRead<'de> for SliceReader<'de> :: fn read_to_end | serves=C14 features=serialize
    fn read_to_end(&mut self, name: QName) -> (r: Result<(), DeError>)
        requires src_ok(old(self).reader.inv(), old(self).reader.reader.state, old(self).reader.reader.reader.remaining()),
            skip_domain(old(self).reader.reader.state, name.0@),
        ensures
            // C14: skipping closes exactly the element (C12), keeps the scope discipline and does not touch the trimming flag
            r is Ok ==> final(self).reader.inv() && final(self).reader.reader.state.stack() == old(self).reader.reader.state.stack().drop_last(),
            final(self).start_trimmer == old(self).start_trimmer,
    {
        proof { self.reader.lemma_inv(); }
        match self.reader.read_to_end(name) {
            Err(e) => Err(e.into()),
            Ok(_) => Ok(()),
        }
    }
//@end
//@extract de::SliceReader::next | src/de/mod.rs :: impl<'de> XmlRead<'de> for SliceReader<'de> :: fn next | serves=C14 features=serialize n11=@read_event
    fn next(&mut self) -> (r: Result<PayloadEvent<'de>, DeError>)
        requires src_ok(old(self).reader.inv(), old(self).reader.reader.state, old(self).reader.reader.reader.remaining()),
        ensures
            // C14: the same relation as IoReader::next, over the logical input only
            pay_post(abs_sl(old(self).reader), old(self).start_trimmer.trim_start, abs_sl(final(self).reader), final(self).start_trimmer.trim_start, r),
            r is Ok ==> final(self).reader.inv(),
    {
        let ghost a00 = abs_sl(self.reader);
        let ghost t00 = self.start_trimmer.trim_start;
        loop
            invariant
                a00 == abs_sl(old(self).reader), t00 == old(self).start_trimmer.trim_start,
                src_ok(self.reader.inv(), self.reader.reader.state, self.reader.reader.reader.remaining()),
                forall|post: RdAbs, t1: bool, r: Result<PayloadEvent<'de>, DeError>| #[trigger] pay_post(abs_sl(self.reader), self.start_trimmer.trim_start, post, t1, r)
                    ==> pay_post(a00, t00, post, t1, r),
            decreases measure(self.reader.reader.state, self.reader.reader.reader.remaining())
        {
            let ghost a0 = abs_sl(self.reader);
            let ghost t0 = self.start_trimmer.trim_start;
            let ghost f0 = self.reader.reader.reader.faults();
            proof { self.reader.lemma_inv(); }
            let event = match self.reader.read_event() { Ok(v__) => v__, Err(e__) => {
                proof {
                    let r = Result::<PayloadEvent<'de>, DeError>::Err(DeError::InvalidXml(e__));
                    assert(pay_step(a0, t0, abs_sl(self.reader), self.reader.reader.reader.faults() > f0, Result::<Event, Error>::Err(e__), None, t0));
                    assert(pay_post(a0, t0, abs_sl(self.reader), t0, r));
                    assert(<DeError as vstd::std_specs::convert::FromSpec<Error>>::from_spec(e__) == DeError::InvalidXml(e__));
                }
                return Err(From::from(e__)) } };
            let ghost ev = event;
            let ghost a1 = abs_sl(self.reader);
            let ghost f = self.reader.reader.reader.faults() > f0;
            if let Some(event) = self.start_trimmer.trim(event) {
                proof {
                    assert(trim_spec(t0, ev, Some(event), self.start_trimmer.trim_start));
                    assert(pay_step(a0, t0, a1, f, Result::<Event, Error>::Ok(ev), Some(event), self.start_trimmer.trim_start));
                    assert(same_payload(event, event));
                    assert(pay_post(a0, t0, a1, self.start_trimmer.trim_start, Result::<PayloadEvent<'de>, DeError>::Ok(event)));
                }
                return Ok(event);
            }
            proof {
                self.reader.lemma_inv();
                let t = self.start_trimmer.trim_start;
                assert(trim_spec(t0, ev, None, t));
                assert forall|post: RdAbs, t1: bool, r: Result<PayloadEvent<'de>, DeError>| #[trigger] pay_post(a1, t, post, t1, r) implies pay_post(a00, t00, post, t1, r) by {
                    assert(pay_step(a0, t0, a1, f, Result::<Event, Error>::Ok(ev), None, t));
                    assert(continues(Result::<Event, Error>::Ok(ev)));
                    assert(measure(a1.st, a1.rem) < measure(a0.st, a0.rem));
                    assert(pay_post(a0, t0, post, t1, r));
                }
            }
        }
    }
//@end
}

// ---- the two constructors: both sources start alike ----
/// C14: what `Deserializer::new` is GIVEN by either constructor: a reader that has read nothing, in the initial state with
/// the default configuration except that empty elements are expanded, the scope invariant, nothing pending, and a
/// trimmer that trims the first text. (`Deserializer::new` itself is not under contract: this predicate is the
/// `requires` of its stand-in, so each constructor must PROVE it of the source it builds.)
pub open spec fn start_ok(inv: bool, st: ReaderState, pending_pop: bool, trim_start: bool) -> bool {
    &&& inv && !pending_pop && trim_start
    &&& st.state is Init && st.offset == 0 && st.last_error_offset == 0 && st.opened_buffer@.len() == 0 && st.opened_starts@.len() == 0
    &&& !st.config.allow_unmatched_ends && !st.config.check_comments && st.config.check_end_names && st.config.expand_empty_elements
    &&& st.config.trim_markup_names_in_closing_tags && !st.config.trim_text_start && !st.config.trim_text_end
}
/// ... which is what both `next` loops need (given input of addressable size, A-size)
pub proof fn lemma_start_src_ok(inv: bool, st: ReaderState, rem: Seq<u8>)
    requires start_ok(inv, st, false, true), rem.len() <= usize::MAX,
    ensures src_ok(inv, st, rem)
{
    assert(st.stack() =~= Seq::<Seq<u8>>::empty());
}
pub trait EntityResolver {}
pub trait XmlRead<'i>: Sized {
    spec fn starts_ok(&self) -> bool;
}
impl<'i, R: BufRead> XmlRead<'i> for IoReader<R> {
    closed spec fn starts_ok(&self) -> bool { start_ok(self.reader.inv(), self.reader.reader.state, self.reader.pending_pop, self.start_trimmer.trim_start) && self.buf@.len() == 0 }
}
impl<'de> XmlRead<'de> for SliceReader<'de> {
    closed spec fn starts_ok(&self) -> bool { start_ok(self.reader.inv(), self.reader.reader.state, self.reader.pending_pop, self.start_trimmer.trim_start) }
}
/// stand-in for the serde Deserializer (everything above the event source is outside the contracts)
pub struct Deserializer<'de, R: XmlRead<'de>, E: EntityResolver> { pub reader: R, pub entity_resolver: E, pub ph: core::marker::PhantomData<&'de ()> }
impl<'de, R: XmlRead<'de>, E: EntityResolver> Deserializer<'de, R, E> {
    #[verifier::external_body]
    pub fn new(reader: R, entity_resolver: E) -> (r: Self)
        requires reader.starts_ok()
    { unimplemented!() }
}
impl<'de, E> Deserializer<'de, SliceReader<'de>, E>
where
    E: EntityResolver,
{
//@extract de::Deserializer::from_str_with_resolver | src/de/mod.rs :: impl<'de, E> Deserializer<'de, SliceReader<'de>, E> where E: EntityResolver, :: fn from_str_with_resolver | serves=C14 features=serialize
 fn from_str_with_resolver(source: &'de str, entity_resolver: E) -> Self {
        let mut reader = NsReader::from_str(source);
        let config = reader.config_mut();
        config.expand_empty_elements = true;

        Self::new(
            SliceReader {
                reader,
                start_trimmer: StartTrimmer::default(),
            },
            entity_resolver,
        )
    }
//@end
}
impl<'de, R, E> Deserializer<'de, IoReader<R>, E>
where
    R: BufRead,
    E: EntityResolver,
{
//@extract de::Deserializer::with_resolver | src/de/mod.rs :: impl<'de, R, E> Deserializer<'de, IoReader<R>, E> where R: BufRead, E: EntityResolver, :: fn with_resolver | serves=C14 features=serialize
 fn with_resolver(reader: R, entity_resolver: E) -> Self {
        let mut reader = NsReader::from_reader(reader);
        let config = reader.config_mut();
        config.expand_empty_elements = true;

        Self::new(
            IoReader {
                reader,
                start_trimmer: StartTrimmer::default(),
                buf: Vec::new(),
            },
            entity_resolver,
        )
    }
//@end
}
}
