// ---------------------------------------------------------------------------------------------
// U-build (C09): the element builder. `BytesStart::push_attribute / push_attr / clear_attributes /
// set_name / new / from_content` on the real text: what they do to the buffer, that they keep `name_len`
// consistent with it, and that an element made with them stays `writable_start` (read-back theorem in
// roundtrip.rs) as long as names and keys hold no whitespace, quotes or '>' and values no '"'.
// ---------------------------------------------------------------------------------------------
// ---- assumed std contracts used only here ----
/// the borrowed form of an owned value (std: Borrow<B> for B::Owned)
pub uninterp spec fn owned_as<'b, B: ?Sized + ToOwned>(o: &'b <B as ToOwned>::Owned) -> &'b B;
/// a Vec<u8> borrowed as [u8] holds the same bytes; dereferencing a Cow<[u8]> gives the bytes it holds
pub axiom fn axiom_cow_mut_bytes()
    ensures
        forall|v: &Vec<u8>| (#[trigger] owned_as::<[u8]>(v))@ == v@,
        forall|c: &Cow<'_, [u8]>| (#[trigger] cow_target(c))@ == c@;
/// std: Cow::to_mut -- clones the data if it is not already owned, then hands out the owned value
pub assume_specification<'a, 'b, B: ?Sized + ToOwned>[ Cow::<'a, B>::to_mut ](c: &'b mut Cow<'a, B>) -> (r: &'b mut <B as ToOwned>::Owned)
    ensures owned_as::<B>(r) == cow_target(old(c)), cow_target(final(c)) == owned_as::<B>(final(r));
pub assume_specification<'a, 'b, T: ?Sized + ToOwned> [<Cow<'a, T> as core::convert::AsRef<T>>::as_ref] (c: &'b Cow<'a, T>) -> (r: &'b T)
    ensures r == cow_target(c);

//@extract attributes::Attribute | src/events/attributes.rs :: struct Attribute | serves=C09
 pub struct Attribute<'a> {
    /// The key to uniquely define the attribute.
    ///
    /// If [`Attributes::with_checks`] is turned off, the key might not be unique.
    pub key: QName<'a>,
    /// The raw value of the attribute.
    pub value: Cow<'a, [u8]>,
}
//@end

pub mod build_ {
use super::*;
use vstd::prelude::*;
use roundtrip_::{built, tag_closed, plain, writable_start, gt};
use escfn_::{escape, partial_escape, minimal_escape, spec_escape, p_full, lemma_full_escape_no_quote, cow_str_bytes};
use vstd::string::*;

/// assumed shim for `bytes.splice(..n, name.iter().cloned())` (the replacement happens in `Drop` of the
/// `Splice` iterator, which Verus does not model): the first n bytes are replaced by `name`
pub mod shim_b {
    use vstd::prelude::*;
    #[verifier::external_body]
    pub fn splice_prefix(bytes: &mut Vec<u8>, n: usize, name: &[u8])
        requires n <= old(bytes)@.len()
        ensures final(bytes)@ == name@ + old(bytes)@.subrange(n as int, old(bytes)@.len() as int)
    { bytes.splice(..n, name.iter().cloned()); }
}

/// ` key="value"` as push_attribute appends it
pub open spec fn attr_text(key: Seq<u8>, value: Seq<u8>) -> Seq<u8> {
    seq![0x20u8] + key + seq![0x3du8, 0x22] + value + seq![0x22u8]
}
/// a key the element builder may be given: no whitespace, quotes, '>' or '='-less emptiness
pub open spec fn writable_key(key: Seq<u8>) -> bool { key.len() > 0 && plain(key) }
/// a value as `Attribute::from((&str, &str))` makes it (escaped): no '"'
pub open spec fn writable_value(v: Seq<u8>) -> bool { forall|j: int| 0 <= j < v.len() ==> #[trigger] v[j] != 0x22 }

/// quotes stay balanced and no '>' gets outside them when ` key="value"` is appended
pub proof fn lemma_attr_keeps_closed(buf: Seq<u8>, key: Seq<u8>, value: Seq<u8>)
    requires tag_closed(buf), writable_key(key), writable_value(value)
    ensures tag_closed(buf + attr_text(key, value))
{
    let o = ElementParser::Outside;
    let d = ElementParser::DoubleQ;
    let head = seq![0x20u8] + key + seq![0x3du8];
    assert(plain(head));
    lemma_tag_plain(o, head);
    lemma_tag_one(o, 0x22);
    // inside the double quotes nothing ends the tag and only '"' changes the state
    lemma_in_dq(value);
    lemma_tag_one(d, 0x22);
    let t1 = head + seq![0x22u8];
    lemma_tag_concat(o, head, seq![0x22u8]);
    let t2 = t1 + value;
    lemma_tag_concat(o, t1, value);
    let t3 = t2 + seq![0x22u8];
    lemma_tag_concat(o, t2, seq![0x22u8]);
    assert(t3 =~= attr_text(key, value));
    lemma_tag_concat(o, buf, attr_text(key, value));
}
pub proof fn lemma_in_dq(v: Seq<u8>)
    requires writable_value(v)
    ensures tag_end(ElementParser::DoubleQ, v) is None, q_after(ElementParser::DoubleQ, v) == ElementParser::DoubleQ
    decreases v.len()
{
    if v.len() > 0 {
        let v1 = v.subrange(1, v.len() as int);
        assert forall|j: int| 0 <= j < v1.len() implies #[trigger] v1[j] != 0x22 by { assert(v1[j] == v[j + 1]); }
        lemma_in_dq(v1);
    }
}

impl<'a> BytesStart<'a> {
//@extract events::BytesStart::push_attr | src/events/mod.rs :: impl<'a> BytesStart<'a> :: fn push_attr | serves=C09
 pub(crate) fn push_attr<'b>(&mut self, attr: Attribute<'b>)
        // C09: key="value" is appended byte for byte, nothing else changes
        ensures
            final(self).buf@ == old(self).buf@ + attr.key.0@ + seq![0x3du8, 0x22] + attr.value@ + seq![0x22u8],
            final(self).name_len == old(self).name_len,
 {
        proof { axiom_cow_mut_bytes(); }
        let bytes = self.buf.to_mut();
        bytes.extend_from_slice(attr.key.as_ref());
        bytes.extend_from_slice(&[b'=', b'\"']);
        // FIXME: need to escape attribute content
        bytes.extend_from_slice(attr.value.as_ref());
        bytes.push(b'"');
        proof { assert(bytes@ =~= old(self).buf@ + attr.key.0@ + seq![0x3du8, 0x22] + attr.value@ + seq![0x22u8]); }
    }
//@end
//@extract events::BytesStart::push_attribute | src/events/mod.rs :: impl<'a> BytesStart<'a> :: fn push_attribute | serves=C09
 pub fn push_attribute<'b, A>(&mut self, attr: A)
    where
        A: Into<Attribute<'b>>,
        requires call_requires(<A as Into<Attribute<'b>>>::into, (attr,)),
        // C09: a space and key="value" of the converted attribute are appended; the name is untouched
        ensures
            exists|a: Attribute<'b>| #[trigger] call_ensures(<A as Into<Attribute<'b>>>::into, (attr,), a)
                && final(self).buf@ == old(self).buf@ + attr_text(a.key.0@, a.value@),
            final(self).name_len == old(self).name_len,
    {
        proof { axiom_cow_mut_bytes(); }
        self.buf.to_mut().push(b' ');
        self.push_attr(attr.into());
        proof {
            let a = choose|a: Attribute<'b>| call_ensures(<A as Into<Attribute<'b>>>::into, (attr,), a)
                && self.buf@ == old(self).buf@.push(0x20u8) + a.key.0@ + seq![0x3du8, 0x22] + a.value@ + seq![0x22u8];
            assert(self.buf@ =~= old(self).buf@ + attr_text(a.key.0@, a.value@));
        }
    }
//@end
//@extract events::BytesStart::with_attributes | src/events/mod.rs :: impl<'a> BytesStart<'a> :: fn with_attributes | serves=C09
 pub fn with_attributes<'b, I>(self, attributes: I) -> (r: Self)
    where
        I: IntoIterator,
        I::Item: Into<Attribute<'b>>,
        requires forall|x: I::Item| call_requires(<I::Item as Into<Attribute<'b>>>::into, (x,)),
        // C09: the tag only grows; its name stays
        ensures r.name_len == self.name_len, r.buf@.len() >= self.buf@.len(), r.buf@.subrange(0, self.buf@.len() as int) == self.buf@,
    { let mut self__ = self;
        self__.extend_attributes(attributes);
        self__
    }
//@end
//@extract events::BytesStart::extend_attributes | src/events/mod.rs :: impl<'a> BytesStart<'a> :: fn extend_attributes | serves=C09
//@rewrite let mut __it1 = attributes; ==> let mut __it1 = attributes.into_iter();
 #[verifier::exec_allows_no_decreases_clause]
 pub fn extend_attributes<'b, I>(&mut self, attributes: I) -> (r: &mut BytesStart<'a>)
    where
        I: IntoIterator,
        I::Item: Into<Attribute<'b>>,
        requires forall|x: I::Item| call_requires(<I::Item as Into<Attribute<'b>>>::into, (x,)),
        // C09: every item is appended with push_attribute: the tag only grows, what was there (the name first of all) stays
        // (the `for` loop is over a caller-supplied iterator: that it ends is the iterator's business)
        ensures r.name_len == old(self).name_len, r.buf@.len() >= old(self).buf@.len(),
            r.buf@.subrange(0, old(self).buf@.len() as int) == old(self).buf@,
            *final(self) == *final(r),
    {
        { let mut __it1 = attributes.into_iter(); loop
            invariant self.name_len == old(self).name_len, self.buf@.len() >= old(self).buf@.len(),
                self.buf@.subrange(0, old(self).buf@.len() as int) == old(self).buf@,
                forall|x: I::Item| call_requires(<I::Item as Into<Attribute<'b>>>::into, (x,)),
          { let ghost b1 = self.buf@; match __it1.next() { None => { break; } Some( attr) => {
            self.push_attribute(attr);
            proof { assert(self.buf@.subrange(0, old(self).buf@.len() as int) =~= b1.subrange(0, old(self).buf@.len() as int)); }
        } } } }
        self
    }
//@end
//@extract events::BytesStart::clear_attributes | src/events/mod.rs :: impl<'a> BytesStart<'a> :: fn clear_attributes | serves=C09
 pub fn clear_attributes(&mut self) -> (r: &mut BytesStart<'a>)
        requires old(self).name_len <= old(self).buf@.len()
        // C09: only the name is left, and name_len still is its length
        ensures
            r.buf@ == old(self).buf@.subrange(0, old(self).name_len as int), r.name_len == old(self).name_len,
            *final(self) == *final(r),
 {
        proof { axiom_cow_mut_bytes(); }
        self.buf.to_mut().truncate(self.name_len);
        proof { assert(self.buf@ =~= old(self).buf@.subrange(0, old(self).name_len as int)); }
        self
    }
//@end
//@extract events::BytesStart::set_name | src/events/mod.rs :: impl<'a> BytesStart<'a> :: fn set_name | serves=C09
//@rewrite bytes.splice(..self.name_len, name.iter().cloned()) ==> shim_b::splice_prefix(bytes, self.name_len, name)
 pub fn set_name(&mut self, name: &[u8]) -> (r: &mut BytesStart<'a>)
        requires old(self).name_len <= old(self).buf@.len()
        // C09: the name is replaced, the attributes stay, name_len is the length of the new name
        ensures
            r.buf@ == name@ + old(self).buf@.subrange(old(self).name_len as int, old(self).buf@.len() as int),
            r.name_len == name@.len(),
            *final(self) == *final(r),
 {
        proof { axiom_cow_mut_bytes(); }
        let bytes = self.buf.to_mut();
        shim_b::splice_prefix(bytes, self.name_len, name);
        self.name_len = name.len();
        self
    }
//@end
}

pub assume_specification[ String::into_bytes ](s: String) -> (v: Vec<u8>)
    ensures v@ == vstd::utf8::encode_utf8(s@);
impl<'a> vstd::std_specs::convert::FromSpecImpl<(&'a str, &'a str)> for Attribute<'a> {
    open spec fn obeys_from_spec() -> bool { false }
    open spec fn from_spec(e: (&'a str, &'a str)) -> Self { arbitrary() }
}
impl<'a> From<(&'a str, &'a str)> for Attribute<'a> {
//@extract attributes::Attribute::from_str_pair | src/events/attributes.rs :: impl<'a> From<(&'a str, &'a str)> for Attribute<'a> :: fn from | serves=C09
//@rewrite escape(val.1) ==> escape(Cow::Borrowed(val.1))
    /// Creates new attribute from text representation.
    /// Key is stored as-is, but the value will be escaped.
    ///
    /// # Examples
    ///
    /// ```
    /// # use pretty_assertions::assert_eq;
    /// use quick_xml::events::attributes::Attribute;
    ///
    /// let features = Attribute::from(("features", "Bells & whistles"));
    /// assert_eq!(features.value, "Bells &amp; whistles".as_bytes());
    /// ```
    fn from(val: (&'a str, &'a str)) -> (r: Attribute<'a>)
        // C09: the key is stored as it is, the value is the fully escaped text -- so it holds no quote
        ensures r.key.0@ == val.0.spec_bytes(), r.value@ == spec_escape(val.1.spec_bytes(), p_full())
    {
        proof { axiom_cow_mut_bytes(); }
        Attribute {
            key: QName(val.0.as_bytes()),
            value: match escape(Cow::Borrowed(val.1)) {
                Cow::Borrowed(s) => Cow::Borrowed(s.as_bytes()),
                Cow::Owned(s) => Cow::Owned(s.into_bytes()),
            },
        }
    }
//@end
}
impl<'a> vstd::std_specs::convert::FromSpecImpl<(&'a str, Cow<'a, str>)> for Attribute<'a> {
    open spec fn obeys_from_spec() -> bool { false }
    open spec fn from_spec(v: (&'a str, Cow<'a, str>)) -> Self { arbitrary() }
}
impl<'a> From<(&'a str, Cow<'a, str>)> for Attribute<'a> {
//@extract attributes::Attribute::from_str_cow_pair | src/events/attributes.rs :: impl<'a> From<(&'a str, Cow<'a, str>)> for Attribute<'a> :: fn from | serves=C09
    /// Creates new attribute from text representation.
    /// Key is stored as-is, but the value will be escaped.
    ///
    /// # Examples
    ///
    /// ```
    /// # use std::borrow::Cow;
    /// use pretty_assertions::assert_eq;
    /// use quick_xml::events::attributes::Attribute;
    ///
    /// let features = Attribute::from(("features", Cow::Borrowed("Bells & whistles")));
    /// assert_eq!(features.value, "Bells &amp; whistles".as_bytes());
    /// ```
    fn from(val: (&'a str, Cow<'a, str>)) -> (r: Attribute<'a>)
        // C09: the key is stored as it is, the value is the fully escaped text -- so it holds no quote
        ensures r.key.0@ == val.0.spec_bytes(), r.value@ == spec_escape(cow_str_bytes(val.1), p_full())
    {
        proof { axiom_cow_mut_bytes(); }
        Attribute {
            key: QName(val.0.as_bytes()),
            value: match escape(val.1) {
                Cow::Borrowed(s) => Cow::Borrowed(s.as_bytes()),
                Cow::Owned(s) => Cow::Owned(s.into_bytes()),
            },
        }
    }
//@end
}
/// an attribute made from a string pair can be pushed and read back: its value holds no quote and no '<' / '>'
pub proof fn lemma_str_pair_value_writable(v: Seq<u8>)
    ensures writable_value(spec_escape(v, p_full()))
{
    lemma_full_escape_no_quote(v);
}

/// pushing an attribute keeps an element readable: it still is `writable_start` with the same name
pub proof fn lemma_push_attribute_keeps_writable(buf: Seq<u8>, name_len: int, key: Seq<u8>, value: Seq<u8>)
    requires writable_start(buf, name_len), writable_key(key), writable_value(value)
    ensures writable_start(buf + attr_text(key, value), name_len), (buf + attr_text(key, value)).last() != 0x2f
{
    lemma_attr_keeps_closed(buf, key, value);
    let nb = buf + attr_text(key, value);
    assert(nb[0] == buf[0]);
    assert forall|j: int| 0 <= j < name_len implies !is_ws(#[trigger] nb[j]) by { assert(nb[j] == buf[j]); }
    if buf.len() > name_len { assert(nb[name_len] == buf[name_len]); } else { assert(nb[name_len] == 0x20); }
    assert(nb.last() == 0x22);
}
/// clear_attributes / a fresh element: the bare name is writable when it is a name
pub proof fn lemma_bare_name_writable(name: Seq<u8>)
    requires name.len() > 0, plain(name), forall|j: int| 0 <= j < name.len() ==> !is_ws(#[trigger] name[j]),
        name[0] != 0x21 && name[0] != 0x2f && name[0] != 0x3f
    ensures writable_start(name, name.len() as int)
{
    lemma_tag_plain(ElementParser::Outside, name);
}
}

// ---- the public constructors (C09: "events constructed through the public constructors") ----
pub mod ctor_ {
use super::*;
use vstd::prelude::*;
use vstd::string::*;
use vstd::utf8::*;
use escfn_::{escape, spec_escape, p_full, cow_str_bytes, lemma_escaped_clean, axiom_cow_str};

/// std: `impl<T> From<T> for T` -- converting a value into its own type is the identity
pub axiom fn axiom_into_self_cow<'a>()
    ensures forall|c: Cow<'a, [u8]>, r: Cow<'a, [u8]>| #[trigger] call_ensures(<Cow<'a, [u8]> as Into<Cow<'a, [u8]>>>::into, (c,), r) ==> r == c;

//@extract events::str_cow_to_bytes | src/events/mod.rs :: fn str_cow_to_bytes | serves=C09
//@rewrite <'a, C: Into<Cow<'a, str>>>(content: C) ==> <'a>(content: Cow<'a, str>)
//@rewrite content.into() ==> content
pub fn str_cow_to_bytes<'a>(content: Cow<'a, str>) -> (r: Cow<'a, [u8]>)
    // the bytes of the string, borrowed or owned as the string was
    ensures r@ == cow_str_bytes(content)
{
    proof { axiom_cow_mut_bytes(); }
    match content {
        Cow::Borrowed(s) => Cow::Borrowed(s.as_bytes()),
        Cow::Owned(s) => Cow::Owned(s.into_bytes()),
    }
}
//@end

impl<'a> BytesStart<'a> {
//@extract events::BytesStart::new | src/events/mod.rs :: impl<'a> BytesStart<'a> :: fn new | serves=C09
//@rewrite <C: Into<Cow<'a, str>>>(name: C) ==> (name: Cow<'a, str>)
 pub fn new(name: Cow<'a, str>) -> (r: Self)
        // C09: the element consists of its name
        ensures r.buf@ == cow_str_bytes(name), r.name_len == r.buf@.len()
 {
        proof { axiom_cow_mut_bytes(); }
        let buf = str_cow_to_bytes(name);
        BytesStart {
            name_len: buf.len(),
            buf,
        }
    }
//@end
//@extract events::BytesStart::from_content | src/events/mod.rs :: impl<'a> BytesStart<'a> :: fn from_content | serves=C09
//@rewrite <C: Into<Cow<'a, str>>>(content: C, name_len: usize) ==> (content: Cow<'a, str>, name_len: usize)
 pub fn from_content(content: Cow<'a, str>, name_len: usize) -> (r: Self)
        ensures r.buf@ == cow_str_bytes(content), r.name_len == name_len
 {
        BytesStart {
            buf: str_cow_to_bytes(content),
            name_len,
        }
    }
//@end
}
impl<'a> BytesEnd<'a> {
//@extract events::BytesEnd::new | src/events/mod.rs :: impl<'a> BytesEnd<'a> :: fn new | serves=C09
//@rewrite <C: Into<Cow<'a, str>>>(name: C) ==> (name: Cow<'a, str>)
 pub fn new(name: Cow<'a, str>) -> (r: Self)
        ensures r.name@ == cow_str_bytes(name)
 {
        Self::wrap(str_cow_to_bytes(name))
    }
//@end
}
impl<'a> BytesText<'a> {
//@extract events::BytesText::from_escaped | src/events/mod.rs :: impl<'a> BytesText<'a> :: fn from_escaped | serves=C09
//@rewrite <C: Into<Cow<'a, str>>>(content: C) ==> (content: Cow<'a, str>)
 pub fn from_escaped(content: Cow<'a, str>) -> (r: Self)
        ensures r.content@ == cow_str_bytes(content)
 {
        proof { axiom_into_self_cow(); }
        Self::wrap(str_cow_to_bytes(content), Decoder::utf8())
    }
//@end
//@extract events::BytesText::new | src/events/mod.rs :: impl<'a> BytesText<'a> :: fn new | serves=C09
//@rewrite escape(content) ==> escape(Cow::Borrowed(content))
 pub fn new(content: &'a str) -> (r: Self)
        // C09: the text is stored fully escaped, so it holds no '<' and unescapes to `content` (theorem of C10)
        ensures r.content@ == spec_escape(content.spec_bytes(), p_full())
 {
        Self::from_escaped(escape(Cow::Borrowed(content)))
    }
//@end
}
impl<'a> BytesCData<'a> {
//@extract events::BytesCData::new | src/events/mod.rs :: impl<'a> BytesCData<'a> :: fn new | serves=C09
//@rewrite <C: Into<Cow<'a, str>>>(content: C) ==> (content: Cow<'a, str>)
 pub fn new(content: Cow<'a, str>) -> (r: Self)
        ensures r.content@ == cow_str_bytes(content)
 {
        proof { axiom_into_self_cow(); }
        Self::wrap(str_cow_to_bytes(content), Decoder::utf8())
    }
//@end
}
impl<'a> BytesPI<'a> {
//@extract events::BytesPI::new | src/events/mod.rs :: impl<'a> BytesPI<'a> :: fn new | serves=C09
//@rewrite <C: Into<Cow<'a, str>>>(content: C) ==> (content: Cow<'a, str>)
 pub fn new(content: Cow<'a, str>) -> (r: Self)
        // C09: the target is the first whitespace-free word, exactly what the reader computes for a PI
        ensures r.content.buf@ == cow_str_bytes(content), r.content.name_len == spec_name_len(r.content.buf@)
 {
        proof { axiom_cow_mut_bytes(); }
        let buf = str_cow_to_bytes(content);
        let name_len = name_len(&buf);
        Self {
            content: BytesStart { buf, name_len },
        }
    }
//@end
}
/// the characters of an XML declaration body made from its three pseudo-attributes
pub open spec fn decl_chars(version: Seq<char>, encoding: Option<Seq<char>>, standalone: Option<Seq<char>>) -> Seq<char> {
    "xml version=\""@ + version
        + (match encoding { Some(e) => "\" encoding=\""@ + e, None => Seq::<char>::empty() })
        + (match standalone { Some(x) => "\" standalone=\""@ + x, None => Seq::<char>::empty() })
        + seq!['"']
}
impl<'a> BytesDecl<'a> {
//@extract events::BytesDecl::new | src/events/mod.rs :: impl<'a> BytesDecl<'a> :: fn new | serves=C09
//@rewrite BytesStart::from_content(buf, 3) ==> BytesStart::from_content(Cow::Owned(buf), 3)
//@rewrite-all xs.len() ==> xs.as_bytes().len()
 pub fn new(
        version: &str,
        encoding: Option<&str>,
        standalone: Option<&str>,
    ) -> (r: BytesDecl<'static>)
        // A-size: the capacity computation does not overflow
        requires (match encoding { Some(x) => x.spec_bytes().len(), None => 0 }) + (match standalone { Some(x) => x.spec_bytes().len(), None => 0 }) + 40 <= usize::MAX,
        // C09: the pseudo-attributes in the order version, encoding, standalone, each in double quotes; the name is "xml"
        ensures
            r.content.name_len == 3,
            r.content.buf@ == encode_utf8(decl_chars(version@, match encoding { Some(x) => Some(x@), None => None }, match standalone { Some(x) => Some(x@), None => None })),
    {
        proof {
            reveal_strlit("xml version=\""); reveal_strlit("\" encoding=\""); reveal_strlit("\" standalone=\"");
        }
        // Compute length of the buffer based on supplied attributes
        // ' encoding=""'   => 12
        let encoding_attr_len = if let Some(xs) = encoding {
            12 + xs.as_bytes().len()
        } else {
            0
        };
        // ' standalone=""' => 14
        let standalone_attr_len = if let Some(xs) = standalone {
            14 + xs.as_bytes().len()
        } else {
            0
        };
        // 'xml version=""' => 14
        let mut buf = String::with_capacity(14 + encoding_attr_len + standalone_attr_len);

        buf.push_str("xml version=\"");
        buf.push_str(version);

        if let Some(encoding_val) = encoding {
            buf.push_str("\" encoding=\"");
            buf.push_str(encoding_val);
        }

        if let Some(standalone_val) = standalone {
            buf.push_str("\" standalone=\"");
            buf.push_str(standalone_val);
        }
        buf.push('"');
        proof {
            assert(buf@ =~= decl_chars(version@, match encoding { Some(x) => Some(x@), None => None }, match standalone { Some(x) => Some(x@), None => None }));
        }

        BytesDecl {
            content: BytesStart::from_content(Cow::Owned(buf), 3),
        }
    }
//@end
}
}
