// ---------------------------------------------------------------------------------------------
// U-dekey (feature `serialize`): element name -> map key / variant name of the serde deserializer
// (src/de/key.rs). C14 mechanism: from_str hands QNameDeserializer::from_elem a name borrowed from
// the input (CowRef::Input), from_reader one borrowed from an owned event (CowRef::Slice); both arms
// give the SAME string: the decoding of the local part of the name.
// ---------------------------------------------------------------------------------------------
pub mod dekey_ {
use super::*;
use vstd::prelude::*;
use vstd::string::*;
use vstd::utf8::*;
use core::result::Result;

//@extract utils::CowRef | src/utils.rs :: enum CowRef | serves=C14 features=serialize
 pub enum CowRef<'i, 's, B>
where
    B: ToOwned + ?Sized,
{
    /// An input borrowed from the parsed data
    Input(&'i B),
    /// An input borrowed from the buffer owned by another deserializer
    Slice(&'s B),
    /// An input taken from an external deserializer, owned by that deserializer
    Owned(<B as ToOwned>::Owned),
}
//@end
pub open spec fn cowref_bytes<'i, 's>(c: CowRef<'i, 's, [u8]>) -> Seq<u8> {
    match c { CowRef::Input(b) => b@, CowRef::Slice(b) => b@, CowRef::Owned(v) => v@ }
}
pub open spec fn cowref_str<'i, 's>(c: CowRef<'i, 's, str>) -> Seq<char> {
    match c { CowRef::Input(b) => b@, CowRef::Slice(b) => b@, CowRef::Owned(v) => v@ }
}

/// hand transcription of the variants of src/errors.rs serialize::DeError that these functions construct
pub enum DeError {
    Custom(String),
    InvalidXml(Error),
    Other,
}
impl vstd::std_specs::convert::FromSpecImpl<EncodingError> for DeError {
    open spec fn obeys_from_spec() -> bool { true }
    open spec fn from_spec(e: EncodingError) -> Self { DeError::InvalidXml(Error::Encoding(e)) }
}
impl From<EncodingError> for DeError {
//@extract errors::DeError::from_encoding | src/errors.rs :: mod serialize :: impl From<EncodingError> for DeError :: fn from | serves=C14 features=serialize
        fn from(e: EncodingError) -> (r: Self)
            ensures r == DeError::InvalidXml(Error::Encoding(e))
        {
            Self::InvalidXml(e.into())
        }
//@end
}

impl<'a> QName<'a> {
//@extract name::QName::local_name | src/name.rs :: impl<'a> QName<'a> :: fn local_name | serves=C14
 pub fn local_name(&self) -> (r: LocalName<'a>)
        // Namespaces in XML: the part behind the first ':' (the whole name if there is none)
        ensures r.0@ == spec_local_name(self.0@)
 {
        proof { axiom_slice_len(self.0); lemma_local_name(self.0@); }
        LocalName(self.index().map_or(self.0, |i: usize| -> (q: &'a [u8]) requires first_colon(self.0@, i as int) ensures q@ == self.0@.subrange(i + 1, self.0@.len() as int) { &self.0[i + 1..] }))
    }
//@end
}
impl<'a> LocalName<'a> {
//@extract name::LocalName::into_inner | src/name.rs :: impl<'a> LocalName<'a> :: fn into_inner | serves=C14
 pub fn into_inner(self) -> (r: &'a [u8])
        ensures r@ == self.0@
 {
        self.0
    }
//@end
}
impl<'a> BytesStart<'a> {
//@extract events::BytesStart::raw_name | src/events/mod.rs :: impl<'a> BytesStart<'a> :: fn raw_name | serves=C14 features=serialize
 pub fn raw_name<'e>(&'e self) -> (r: CowRef<'a, 'e, [u8]>)
        requires self.name_len <= self.buf@.len()
        // C14: the same bytes whether the event borrows from the input (from_str) or owns its buffer (from_reader);
        // never the Owned form
        ensures cowref_bytes(r) == self.buf@.subrange(0, self.name_len as int), !(r is Owned),
            (r is Input) == (self.buf is Borrowed),
 {
        proof { axiom_cow_bytes(&self.buf); }
        match self.buf {
            Cow::Borrowed(b) => CowRef::Input(&b[..self.name_len]),
            Cow::Owned(ref o) => CowRef::Slice(&o[..self.name_len]),
        }
    }
//@end
}

/// assumed: `String::from_utf8(v).unwrap()` -- only in the arm for owned names, which the crate never takes
#[verifier::external_body]
pub fn string_from_utf8_unwrap(v: Vec<u8>) -> (r: String)
    requires vstd::utf8::valid_utf8(v@)
    ensures r@ == vstd::utf8::decode_utf8(v@)
{ String::from_utf8(v).unwrap() }

//@extract de::key::decode_name | src/de/key.rs :: fn decode_name | serves=C14 features=serialize n11=@decode
pub fn decode_name<'n>(name: QName<'n>, decoder: Decoder) -> (r: Result<Cow<'n, str>, DeError>)
    // the decoding of the LOCAL part of the name (the prefix never becomes part of a key)
    ensures match spec_decode::<'n>(decoder, spec_local_name(name.0@)) {
        Ok(c) => r == Result::<Cow<'n, str>, DeError>::Ok(c),
        Err(e) => r == Result::<Cow<'n, str>, DeError>::Err(DeError::InvalidXml(Error::Encoding(e))),
    }
{
    let local = name.local_name();
    Ok(match decoder.decode(local.into_inner()) { Ok(v__) => v__, Err(e__) => return Err(From::from(e__)) })
}
//@end

//@extract de::key::QNameDeserializer | src/de/key.rs :: struct QNameDeserializer | serves=C14 features=serialize
 pub struct QNameDeserializer<'i, 'd> {
    pub name: CowRef<'i, 'd, str>,
}
//@end
impl<'i, 'd> QNameDeserializer<'i, 'd> {
//@extract de::key::QNameDeserializer::from_elem | src/de/key.rs :: impl<'i, 'd> QNameDeserializer<'i, 'd> :: fn from_elem | serves=C14 features=serialize
//@rewrite String::from_utf8(owned).unwrap() ==> string_from_utf8_unwrap(owned)
 pub fn from_elem(name: CowRef<'i, 'd, [u8]>, decoder: Decoder) -> (r: Result<Self, DeError>)
        // the crate passes `raw_name()`, which is never Owned (verified above); in the Owned arm the prefix would stay in
        // the key and a non-UTF-8 prefix would panic -- unreachable, hence outside this contract
        requires !(name is Owned),
        // C14: ONE result for a name borrowed from the input (from_str) and one borrowed from an owned event
        // (from_reader): the decoded local name, or the decoding error
        ensures match spec_decode::<'i>(decoder, spec_local_name(cowref_bytes(name))) {
            Ok(c) => r matches Ok(q) && cowref_str(q.name) == c@,
            Err(e) => r is Err,
        },
 {
        let local = match name {
            CowRef::Input(borrowed) => match decode_name(QName(borrowed), decoder)? {
                Cow::Borrowed(borrowed) => CowRef::Input(borrowed),
                Cow::Owned(owned) => CowRef::Owned(owned),
            },
            CowRef::Slice(borrowed) => match decode_name(QName(borrowed), decoder)? {
                Cow::Borrowed(borrowed) => CowRef::Slice(borrowed),
                Cow::Owned(owned) => CowRef::Owned(owned),
            },
            CowRef::Owned(owned) => match decode_name(QName(&owned), decoder)? {
                // SAFETY: Because result is borrowed, no changes was done
                // and we can safely unwrap here
                Cow::Borrowed(_) => CowRef::Owned(string_from_utf8_unwrap(owned)),
                Cow::Owned(owned) => CowRef::Owned(owned),
            },
        };

        Ok(Self { name: local })
    }
//@end
}
// ---- attribute names as map keys: `@` + the decoded local name (or the whole name for a namespace binding `xmlns:p`) ----
#[verifier::external_type_specification]
#[verifier::external_body]
pub struct ExUtf8ErrorK(core::str::Utf8Error);
/// std::str::from_utf8 (documented contract): the same bytes as a string, or an error
pub assume_specification<'a>[ core::str::from_utf8 ](v: &'a [u8]) -> (r: Result<&'a str, core::str::Utf8Error>)
    ensures r matches Ok(s) ==> s.spec_bytes() == v@;
/// src/encoding.rs: `impl From<Utf8Error> for EncodingError` (EncodingError is transcribed as an opaque value)
impl vstd::std_specs::convert::FromSpecImpl<core::str::Utf8Error> for EncodingError {
    open spec fn obeys_from_spec() -> bool { false }
    open spec fn from_spec(e: core::str::Utf8Error) -> Self { arbitrary() }
}
impl From<core::str::Utf8Error> for EncodingError {
    #[verifier::external_body]
    fn from(e: core::str::Utf8Error) -> Self { unimplemented!() }
}
impl<'a> QName<'a> {
    /// assumed here (proved in unit ns, C05): a name is a namespace declaration iff it is `xmlns` or starts with `xmlns:`
    #[verifier::external_body]
    pub fn as_namespace_binding(&self) -> (r: Option<u8>)
        ensures (r is Some) == is_ns_binding(self.0@)
    { unimplemented!() }
//@extract name::QName::into_inner | src/name.rs :: impl<'a> QName<'a> :: fn into_inner | serves=C14
 pub fn into_inner(self) -> (r: &'a [u8])
        ensures r@ == self.0@
 {
        self.0
    }
//@end
}
pub open spec fn is_ns_binding(n: Seq<u8>) -> bool {
    n.len() >= 5 && n.subrange(0, 5) == seq![0x78u8, 0x6d, 0x6c, 0x6e, 0x73] && (n.len() == 5 || n[5] == 0x3a)
}
//@if encoding
// (with feature `encoding` Decoder::decode_into transcodes through encoding_rs -- unit enc --; it and from_attr are under contract in the UTF-8 build only)
//@else
impl Decoder {
//@extract encoding::Decoder::decode_into | src/encoding.rs :: impl Decoder :: fn decode_into | serves=C14 features=serialize n11=@from_utf8
 pub fn decode_into(&self, bytes: &[u8], buf: &mut String) -> (r: Result<(), EncodingError>)
        // (this build: UTF-8 only) the bytes are appended as they are, or nothing is
        ensures match r {
            Ok(_) => encode_utf8(final(buf)@) == encode_utf8(old(buf)@) + bytes@,
            Err(_) => final(buf)@ == old(buf)@,
        }
 {
        proof { assert forall|t: Seq<char>| #[trigger] encode_utf8(old(buf)@ + t) == encode_utf8(old(buf)@) + encode_utf8(t) by { encode_utf8_concat(old(buf)@, t); } }
        buf.push_str(match std::str::from_utf8(bytes) { Ok(v__) => v__, Err(e__) => return Err(From::from(e__)) });

        Ok(())
    }
//@end
}
impl<'i, 'd> QNameDeserializer<'i, 'd> {
//@extract de::key::QNameDeserializer::from_attr | src/de/key.rs :: impl<'i, 'd> QNameDeserializer<'i, 'd> :: fn from_attr | serves=C14 features=serialize
//@rewrite CowRef::Slice(key_buf) ==> CowRef::Slice(key_buf.as_str())
 pub fn from_attr(
        name: QName<'d>,
        decoder: Decoder,
        key_buf: &'d mut String,
    ) -> (r: Result<Self, DeError>)
        // C14: the key of an attribute is `@` + its local name -- the whole name for a namespace declaration (`@xmlns:p`) --, a
        // function of the name's BYTES (never an owned name: it is written into the deserializer's key buffer)
        ensures r matches Ok(q) ==> q.name is Slice && encode_utf8(cowref_str(q.name)) == seq![0x40u8]
            + (if is_ns_binding(name.0@) { name.0@ } else { spec_local_name(name.0@) }),
    {
        key_buf.clear();
        key_buf.push('@');
        proof {
            assert(key_buf@ =~= seq!['@']);
            is_ascii_chars_encode_utf8(seq!['@']);
            assert(encode_utf8(key_buf@) =~= seq![0x40u8]);
        }

        // https://github.com/tafia/quick-xml/issues/537
        // Namespace bindings (xmlns:xxx) map to `@xmlns:xxx` instead of `@xxx`
        if name.as_namespace_binding().is_some() {
            decoder.decode_into(name.into_inner(), key_buf)?;
        } else {
            let local = name.local_name();
            decoder.decode_into(local.into_inner(), key_buf)?;
        };
        proof {
            assert(encode_utf8(key_buf@) == seq![0x40u8] + (if is_ns_binding(name.0@) { name.0@ } else { spec_local_name(name.0@) }));
        }

        Ok(Self {
            name: CowRef::Slice(key_buf.as_str()),
        })
    }
//@end
}
//@endif
// ---- C20: does a tag belong to the fields of a struct (the `Exclude` filter of a `$value` list)? ----
/// verified shim for `s.iter().all(f)` (N2): true iff the test holds for every element
pub fn all_ref<T, F: Fn(&T) -> bool>(s: &[T], f: F) -> (r: bool)
    requires forall|x: &T| f.requires((x,)),
    ensures r ==> forall|j: int| 0 <= j < s@.len() ==> f.ensures((&#[trigger] s@[j],), true),
        !r ==> exists|j: int| 0 <= j < s@.len() && f.ensures((&#[trigger] s@[j],), false),
{
    let mut i = 0;
    while i < s.len()
        invariant i <= s@.len(), forall|x: &T| f.requires((x,)),
            forall|j: int| 0 <= j < i ==> f.ensures((&#[trigger] s@[j],), true),
        decreases s@.len() - i
    {
        if !f(&s[i]) { return false; }
        i = i + 1;
    }
    true
}
/// std: `AsRef<str> for Cow<str>` hands out the string it holds
pub assume_specification<'a, 'b, T: ?Sized + ToOwned> [<Cow<'a, T> as core::convert::AsRef<T>>::as_ref] (c: &'b Cow<'a, T>) -> (r: &'b T)
    ensures r == cow_target(c);
pub axiom fn axiom_cow_str_k()
    ensures forall|c: &Cow<'_, str>| (#[trigger] cow_target(c))@ == c@;
/// the tag is not one of the fields: its decoded LOCAL name differs from every field name
pub open spec fn not_in_spec(fields: &'static [&'static str], name: Seq<u8>, d: Decoder) -> Result<bool, DeError> {
    match spec_decode::<'static>(d, spec_local_name(name)) {
        Ok(tag) => Ok(forall|j: int| 0 <= j < fields@.len() ==> (#[trigger] fields@[j])@ != tag@),
        Err(e) => Err(DeError::InvalidXml(Error::Encoding(e))),
    }
}
//@extract de::map::not_in | src/de/map.rs :: fn not_in | serves=C20 features=serialize n11=@decode
//@rewrite fields.iter().all(|&field| field != tag.as_ref()) ==> all_ref(fields, |field: &&'static str| *field != tag.as_ref())
////////////////////////////////////////////////////////////////////////////////////////////////////

/// Check if tag `start` is included in the `fields` list. `decoder` is used to
/// get a string representation of a tag.
///
/// Returns `true`, if `start` is not in the `fields` list and `false` otherwise.
pub fn not_in(
    fields: &'static [&'static str],
    start: &BytesStart,
    decoder: Decoder,
) -> (r: Result<bool, DeError>)
    requires start.name_len <= start.buf@.len()
    // C20: a FUNCTION of the field names and of the tag's name: its decoded local name differs from every field name
    ensures r == not_in_spec(fields, start.buf@.subrange(0, start.name_len as int), decoder)
{
    proof { axiom_cow_str_k(); }
    let tag = match decoder.decode(start.local_name().into_inner()) { Ok(v__) => v__, Err(e__) => return Err(From::from(e__)) };

    Ok(all_ref(fields, |field: &&'static str| -> (b: bool) ensures b == ((*field)@ != tag@) { *field != tag.as_ref() }))
}
//@end
}
