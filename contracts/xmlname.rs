// ---------------------------------------------------------------------------------------------
// U-xmlname (feature `serialize`): the serializer's name check (src/se/mod.rs). C13, leaf level:
// every root / element / attribute name that reaches the output passes XmlName::try_from, which must
// accept exactly the XML 1.1 Names:  Name ::= NameStartChar (NameChar)*   (non-empty!)
// The two character classes below are written from productions [4] and [4a] of the XML 1.1
// recommendation, not from the code.
// ---------------------------------------------------------------------------------------------
pub mod se_ {
use super::*;
use vstd::prelude::*;

/// [4] NameStartChar ::= ":" | [A-Z] | "_" | [a-z] | [#xC0-#xD6] | [#xD8-#xF6] | [#xF8-#x2FF] | [#x370-#x37D] | [#x37F-#x1FFF]
///     | [#x200C-#x200D] | [#x2070-#x218F] | [#x2C00-#x2FEF] | [#x3001-#xD7FF] | [#xF900-#xFDCF] | [#xFDF0-#xFFFD] | [#x10000-#xEFFFF]
pub open spec fn name_start_char(c: char) -> bool {
    let u = c as u32;
    u == 0x3a || (0x41 <= u <= 0x5a) || u == 0x5f || (0x61 <= u <= 0x7a) || (0xc0 <= u <= 0xd6) || (0xd8 <= u <= 0xf6)
    || (0xf8 <= u <= 0x2ff) || (0x370 <= u <= 0x37d) || (0x37f <= u <= 0x1fff) || (0x200c <= u <= 0x200d)
    || (0x2070 <= u <= 0x218f) || (0x2c00 <= u <= 0x2fef) || (0x3001 <= u <= 0xd7ff) || (0xf900 <= u <= 0xfdcf)
    || (0xfdf0 <= u <= 0xfffd) || (0x10000 <= u <= 0xeffff)
}
/// [4a] NameChar ::= NameStartChar | "-" | "." | [0-9] | #xB7 | [#x0300-#x036F] | [#x203F-#x2040]
pub open spec fn name_char(c: char) -> bool {
    let u = c as u32;
    name_start_char(c) || u == 0x2d || u == 0x2e || (0x30 <= u <= 0x39) || u == 0xb7 || (0x300 <= u <= 0x36f) || (0x203f <= u <= 0x2040)
}
/// [5] Name ::= NameStartChar (NameChar)*
pub open spec fn is_xml_name(s: Seq<char>) -> bool {
    s.len() > 0 && name_start_char(s[0]) && forall|i: int| 0 <= i < s.len() ==> name_char(#[trigger] s[i])
}

#[verifier::external_type_specification]
#[verifier::external_body]
pub struct ExUtf8Error(core::str::Utf8Error);
/// hand transcription of serialize::SeError (the Io variant, never constructed by the verified functions, is left out)
pub enum SeError { Custom(String), Fmt(core::fmt::Error), Unsupported(Cow<'static, str>), NonEncodable(core::str::Utf8Error) }

pub mod strshim {
    use vstd::prelude::*;
    /// assumed contract of `s.chars().next()`: the first character, if any
    #[verifier::external_body]
    pub fn first_char(s: &str) -> (r: Option<char>)
        ensures match r { Some(c) => s@.len() > 0 && c == s@[0], None => s@.len() == 0 }
    { s.chars().next() }
    /// assumed contract of `s.matches(pred).next()`: Some(_) iff some character satisfies the predicate
    #[verifier::external_body]
    pub fn first_match<'a, F: Fn(char) -> bool>(s: &'a str, f: F) -> (r: Option<&'a str>)
        requires forall|c: char| f.requires((c,)),
        ensures match r {
            Some(_) => exists|i: int| 0 <= i < s@.len() && f.ensures((#[trigger] s@[i],), true),
            None => forall|i: int| 0 <= i < s@.len() ==> f.ensures((#[trigger] s@[i],), false),
        }
    { s.matches(|c: char| f(c)).next() }
    /// error message text: outside the property
    #[verifier::external_body]
    pub fn msg() -> (r: std::borrow::Cow<'static, str>) { std::borrow::Cow::Borrowed("") }
}

//@extract se::is_xml11_name_start_char | src/se/mod.rs :: fn is_xml11_name_start_char | serves=C13 features=serialize
 fn is_xml11_name_start_char(ch: char) -> (r: bool)
    ensures r == name_start_char(ch)
 {
    match ch {
        ':'
        | 'A'..='Z'
        | '_'
        | 'a'..='z'
        | '\u{00C0}'..='\u{00D6}'
        | '\u{00D8}'..='\u{00F6}'
        | '\u{00F8}'..='\u{02FF}'
        | '\u{0370}'..='\u{037D}'
        | '\u{037F}'..='\u{1FFF}'
        | '\u{200C}'..='\u{200D}'
        | '\u{2070}'..='\u{218F}'
        | '\u{2C00}'..='\u{2FEF}'
        | '\u{3001}'..='\u{D7FF}'
        | '\u{F900}'..='\u{FDCF}'
        | '\u{FDF0}'..='\u{FFFD}'
        | '\u{10000}'..='\u{EFFFF}' => true,
        _ => false,
    }
}
//@end

//@extract se::is_xml11_name_char | src/se/mod.rs :: fn is_xml11_name_char | serves=C13 features=serialize
 fn is_xml11_name_char(ch: char) -> (r: bool)
    ensures r == name_char(ch)
 {
    match ch {
        '-' | '.' | '0'..='9' | '\u{00B7}' | '\u{0300}'..='\u{036F}' | '\u{203F}'..='\u{2040}' => {
            true
        }
        _ => is_xml11_name_start_char(ch),
    }
}
//@end

//@extract se::XmlName | src/se/mod.rs :: struct XmlName | serves=C13 features=serialize
 #[derive(Clone, Copy)]
 pub struct XmlName<'n>(pub &'n str);
//@end

impl<'n> XmlName<'n> {
//@extract se::XmlName::try_from | src/se/mod.rs :: impl<'n> XmlName<'n> :: fn try_from | serves=C13 features=serialize
//@rewrite name.chars().next() ==> strshim::first_char(name)
//@rewrite name.matches(|ch| ==> strshim::first_match(name, |ch: char|
//@rewrite ).next() { Some(s) ==> ) { Some(s)
//@rewrite-opt "an XML name cannot be empty".into() ==> strshim::msg()
//@rewrite format!("character `{ch}` is not allowed at the start of an XML name `{name}`") .into() ==> strshim::msg()
//@rewrite format!("character `{s}` is not allowed in an XML name `{name}`").into() ==> strshim::msg()
 pub fn try_from(name: &'n str) -> (r: Result<XmlName<'n>, SeError>)
        ensures
            // C13: exactly the legal XML names are accepted (others are rejected with an error)
            (r is Ok) == is_xml_name(name@),
            r matches Ok(x) ==> x.0@ == name@,
 {
        //TODO: Customization point: allow user to decide if he want to reject or encode the name
        match strshim::first_char(name) {
            // https://www.w3.org/TR/xml11/#NT-Name: a name has at least one character
            None => Err(SeError::Unsupported(
                strshim::msg(),
            )),
            Some(ch) if !is_xml11_name_start_char(ch) => Err(SeError::Unsupported(
                strshim::msg(),
            )),
            _ => match strshim::first_match(name, |ch: char| -> (b: bool) ensures b == !name_char(ch) { !is_xml11_name_char(ch) }) {
                Some(s) => Err(SeError::Unsupported(
                    strshim::msg(),
                )),
                None => Ok(XmlName(name)),
            },
        }
    }
//@end
}
}
