// ---------------------------------------------------------------------------------------------
// U-state: ReaderState's emitters (src/reader/state.rs), real text.
// ---------------------------------------------------------------------------------------------
impl<'a> AsRef<[u8]> for QName<'a> {
//@extract name::QName::as_ref | src/name.rs :: impl<'a> AsRef<[u8]> for QName<'a> :: fn as_ref | serves=C04
    fn as_ref(&self) -> (r: &[u8])
        ensures r@ == self.0@
    {
        self.0
    }
//@end
}

//@extract name::LocalName | src/name.rs :: struct LocalName | serves=C04
//@rewrite pub(crate) &'a [u8] ==> pub &'a [u8]
 pub struct LocalName<'a>(pub &'a [u8]);
//@end
impl<'a> QName<'a> {
//@extract name::QName::index | src/name.rs :: impl<'a> QName<'a> :: fn index | serves=C01,C04,C05
    fn index(&self) -> (r: Option<usize>)
        ensures match r {
            Some(i) => first_colon(self.0@, i as int),
            None => forall|j: int| 0 <= j < self.0@.len() ==> #[trigger] self.0@[j] != 0x3a,
        }
    {
        memchr(b':', self.0)
    }
//@end
}
impl<'a> AsRef<[u8]> for LocalName<'a> {
//@extract name::LocalName::as_ref | src/name.rs :: impl<'a> AsRef<[u8]> for LocalName<'a> :: fn as_ref | serves=C04
    fn as_ref(&self) -> (r: &[u8])
        ensures r@ == self.0@
    {
        self.0
    }
//@end
}
impl<'a> vstd::std_specs::convert::FromSpecImpl<QName<'a>> for LocalName<'a> {
    open spec fn obeys_from_spec() -> bool { false }
    open spec fn from_spec(e: QName<'a>) -> Self { arbitrary() }
}
impl<'a> From<QName<'a>> for LocalName<'a> {
//@extract name::LocalName::from | src/name.rs :: impl<'a> From<QName<'a>> for LocalName<'a> :: fn from | serves=C01,C04,C05
    fn from(name: QName<'a>) -> (r: Self)
        ensures r.0@ == spec_local_name(name.0@)
    {
        proof { axiom_slice_len(name.0); lemma_local_name(name.0@); }
        Self(name.index().map_or(name.0, |i: usize| -> (q: &'a [u8]) requires first_colon(name.0@, i as int) ensures q@ == name.0@.subrange(i + 1, name.0@.len() as int) { &name.0[i + 1..] }))
    }
//@end
}
impl<'a> BytesStart<'a> {
//@extract events::BytesStart::local_name | src/events/mod.rs :: impl<'a> BytesStart<'a> :: fn local_name | serves=C01,C04
 fn local_name(&self) -> (r: LocalName)
        requires self.name_len <= self.buf@.len()
        ensures r.0@ == spec_local_name(self.buf@.subrange(0, self.name_len as int))
 {
        self.name().into()
    }
//@end
}

pub mod state_ {
use super::*;
use vstd::prelude::*;
pub type Result<T> = core::result::Result<T, Error>;

impl ReaderState {
//@extract state::ReaderState::emit_text | src/reader/state.rs :: impl ReaderState :: fn emit_text | serves=C01,C03,C08,C16
//@rewrite bytes.iter().rposition(|&b| ==> shim::rposition(bytes, |b: u8|
 pub(crate) fn emit_text<'b>(&mut self, bytes: &'b [u8]) -> (r: BytesText<'b>)
        ensures
            *final(self) == *old(self),
            r.content@ == (if old(self).config.trim_text_end { trimmed_end(bytes@) } else { bytes@ }),
 {
        let mut content = bytes;

        if self.config.trim_text_end {
            // Skip the ending '<'
            proof { axiom_slice_len(bytes); }
            let len = shim::rposition(bytes, |b: u8| -> (r: bool) ensures r == !is_ws(b) { !is_whitespace(b) })
                .map_or(0, |p: usize| -> (q: usize) requires p < usize::MAX ensures q == p + 1 { p + 1 });
            proof {
                if len == 0 { lemma_trimmed_end_all_ws(bytes@); } else { lemma_trimmed_end(bytes@, len - 1); }
            }
            content = &bytes[..len];
        }
        BytesText::wrap(content, self.decoder())
    }
//@end

//@extract state::ReaderState::emit_bang | src/reader/state.rs :: impl ReaderState :: fn emit_bang | serves=C01,C03,C08,C16,C17
//@rewrite $X.iter().position(|&b| ==> shim::position(&$X, |b: u8|
 #[verifier::loop_isolation(false)]
 pub(crate) fn emit_bang<'b>(&mut self, bang_type: BangType, buf: &'b [u8]) -> (r: Result<Event<'b>>)
        requires
            // established by read_bang_element (the source contract + BangType::parse)
            buf@.len() >= 1, buf@[0] == 0x21,
            old(self).offset >= buf@.len() + 2,
            bang_type is Comment ==> buf@.len() >= 5 && buf@[buf@.len() - 1] == 0x2d && buf@[buf@.len() - 2] == 0x2d,
            bang_type is CData ==> buf@.len() >= 2 && buf@[buf@.len() - 1] == 0x5d && buf@[buf@.len() - 2] == 0x5d,
        ensures
            post_emit_bang(old(self), final(self), bang_type, buf@, r),
 {
        assert!(
            buf.first() ==
            Some(&b'!'));

        let uncased_starts_with = |string: &[u8], prefix: &[u8]| -> (r: bool)
            ensures r == uncased_sw(string@, prefix@)
        {
            string.len() >= prefix.len() && string[..prefix.len()].eq_ignore_ascii_case(prefix)
        };

        let len = buf.len();
        match bang_type {
            BangType::Comment if buf.starts_with(&[b'!', b'-', b'-']) => {
                assert!(buf.ends_with(&[b'-', b'-']));
                if self.config.check_comments {
                    // search if '--' not in comments
                    let mut haystack = &buf[3..len - 2];
                    let mut off = 0;
                    loop
                        invariant off <= len - 5, haystack@ == buf@.subrange(3 + off as int, len as int - 2),
                            *self == *old(self),
                            forall|q: int| 3 <= q < 3 + off as int ==> !double_hyphen_at(buf@, q),
                        decreases haystack@.len()
                    { match memchr::memchr(b'-', haystack) { Some(p) => {
                        proof {
                            assert forall|q: int| 3 + off as int <= q < 3 + off as int + p as int implies !double_hyphen_at(buf@, q) by {
                                assert(haystack@[q - 3 - off as int] == buf@[q]);
                            }
                            assert(haystack@[p as int] == buf@[3 + off as int + p as int]);
                        }
                        off += p + 1;
                        // if next byte after `-` is also `-`, return an error
                        if buf[3 + off] == b'-' {
                            // Explanation of the magic:
                            //
                            // - `self.offset`` just after `>`,
                            // - `buf` contains `!-- con--tent --`
                            // - `p` is counted from byte after `<!--`
                            //
                            // <!-- con--tent -->:
                            //  ~~~~~~~~~~~~~~~~ : - buf
                            //   : ===========   : - zone of search (possible values of `p`)
                            //   : |---p         : - p is counted from | (| is 0)
                            //   : :   :         ^ - self.offset
                            //   ^ :   :           - self.offset - len
                            //     ^   :           - self.offset - len + 2
                            //         ^           - self.offset - len + 2 + p
                            self.last_error_offset = self.offset - len as u64 + 2 + p as u64;
                            proof { assert(double_hyphen_at(buf@, 3 + off as int - 1)); }
                            return Err(Error::IllFormed(IllFormedError::DoubleHyphenInComment));
                        }
                        proof { assert(!double_hyphen_at(buf@, 3 + off as int - 1)); }
                        // Continue search after single `-` (+1 to skip it)
                        haystack = &haystack[p + 1..];
                    } _ => { proof {
                        assert forall|q: int| 3 + off as int <= q < len as int - 2 implies !double_hyphen_at(buf@, q) by {
                            assert(haystack@[q - 3 - off as int] == buf@[q]);
                        }
                    } break; } } }
                }
                Ok(Event::Comment(BytesText::wrap(
                    // Cut of `!--` and `--` from start and end
                    &buf[3..len - 2],
                    self.decoder(),
                )))
            }
            // XML requires uppercase only:
            // https://www.w3.org/TR/xml11/#sec-cdata-sect
            // Even HTML5 required uppercase only:
            // https://html.spec.whatwg.org/multipage/parsing.html#markup-declaration-open-state
            BangType::CData if buf.starts_with(&[b'!', b'[', b'C', b'D', b'A', b'T', b'A', b'[']) => {
                assert!(buf.ends_with(&[b']', b']']));
                Ok(Event::CData(BytesCData::wrap(
                    // Cut of `![CDATA[` and `]]` from start and end
                    &buf[8..len - 2],
                    self.decoder(),
                )))
            }
            // XML requires uppercase only, but we will check that on validation stage:
            // https://www.w3.org/TR/xml11/#sec-prolog-dtd
            // HTML5 allows mixed case for doctype declarations:
            // https://html.spec.whatwg.org/multipage/parsing.html#markup-declaration-open-state
            BangType::DocType(0) if uncased_starts_with(buf, &[b'!', b'D', b'O', b'C', b'T', b'Y', b'P', b'E']) => {
                match shim::position(&buf[8..], |b: u8| -> (r: bool) ensures r == !is_ws(b) { !is_whitespace(b) }) {
                    Some(start) => { proof {
                        let t = buf@.subrange(8, len as int);
                        lemma_trimmed_start(t, start as int);
                        assert(t.subrange(start as int, t.len() as int) =~= buf@.subrange(8 + start, len as int));
                        assert(!is_ws(buf@[8 + start]));
                    } Ok(Event::DocType(BytesText::wrap(
                        // Cut of `!DOCTYPE` and any number of spaces from start
                        &buf[8 + start..],
                        self.decoder(),
                    ))) },
                    None => {
                        proof {
                            let t = buf@.subrange(8, len as int);
                            assert forall|i: int| 8 <= i < len implies is_ws(buf@[i]) by { assert(is_ws(t[i - 8])); }
                        }
                        // Because we here, we at least read `<!DOCTYPE>` and offset after `>`.
                        // We want report error at place where name is expected - this is just
                        // before `>`
                        self.last_error_offset = self.offset - 1;
                        return Err(Error::IllFormed(IllFormedError::MissingDoctypeName));
                    }
                }
            }
            _ => {
                // <!....>
                //  ^^^^^ - `buf` does not contain `<` and `>`, but `self.offset` is after `>`.
                // ^------- We report error at that position, so we need to subtract 2 and buf len
                self.last_error_offset = self.offset - len as u64 - 2;
                Err(bang_type.to_err().into())
            }
        }
    }
//@end

//@extract state::ReaderState::emit_end | src/reader/state.rs :: impl ReaderState :: fn emit_end | serves=C01,C03,C04,C08,C16,C17
//@rewrite content.iter().rposition(|&b| ==> shim::rposition(content, |b: u8|
 pub(crate) fn emit_end<'b>(&mut self, buf: &'b [u8]) -> (r: Result<Event<'b>>)
        requires
            old(self).wf(), buf@.len() >= 1, buf@[0] == 0x2f,
            old(self).offset >= buf@.len() + 2,
        ensures
            post_emit_end(old(self), final(self), buf@, r),
 {
        assert!(
            buf.first() ==
            Some(&b'/'));

        // Strip the `/` character. `content` contains data between `</` and `>`
        let content = &buf[1..];
        // XML standard permits whitespaces after the markup name in closing tags.
        // Let's strip them from the buffer before comparing tag names.
        let name = if self.config.trim_markup_names_in_closing_tags {
            if let Some(pos_end_name) = shim::rposition(content, |b: u8| -> (r: bool) ensures r == !is_ws(b) { !is_whitespace(b) }) {
                proof { lemma_trimmed_end(content@, pos_end_name as int); }
                &content[..pos_end_name + 1]
            } else {
                proof { lemma_trimmed_end_all_ws(content@); }
                content
            }
        } else {
            content
        };

        assert(name@ == end_name(buf@.subrange(1, buf@.len() as int), self.config.trim_markup_names_in_closing_tags));
        let decoder = self.decoder();

        // Get the index in self.opened_buffer of the name of the last opened tag
        match self.opened_starts.pop() {
            Some(start) => {
                if self.config.check_end_names {
                    let expected = &self.opened_buffer[start..];
                    assert(expected@ == old(self).stack().last());
                    if name != expected {
                        let expected = decoder.decode(expected).unwrap_or_default().into_owned();
                        // #513: In order to allow error recovery we should drop content of the buffer
                        self.opened_buffer.truncate(start);

                        // Report error at start of the end tag at `<` character
                        // -2 for `<` and `>`
                        self.last_error_offset = self.offset - buf.len() as u64 - 2;
                        proof { ReaderState::lemma_pop_truncate(old(self), self); }
                        return Err(Error::IllFormed(IllFormedError::MismatchedEndTag {
                            expected,
                            found: decoder.decode(name).unwrap_or_default().into_owned(),
                        }));
                    }
                    proof { assert(name@ =~= expected@); }
                }

                self.opened_buffer.truncate(start);
                proof { ReaderState::lemma_pop_truncate(old(self), self); }
            }
            None => {
                if !self.config.allow_unmatched_ends {
                    // Report error at start of the end tag at `<` character
                    // -2 for `<` and `>`
                    self.last_error_offset = self.offset - buf.len() as u64 - 2;
                    proof { assert(self.stack() =~= old(self).stack()); }
                    return Err(Error::IllFormed(IllFormedError::UnmatchedEndTag(
                        decoder.decode(name).unwrap_or_default().into_owned(),
                    )));
                }
                proof { assert(self.stack() =~= old(self).stack()); }
            }
        }

        Ok(Event::End(BytesEnd::wrap(name.into())))
    }
//@end

//@extract state::ReaderState::emit_question_mark | src/reader/state.rs :: impl ReaderState :: fn emit_question_mark | serves=C01,C03,C08,C17
 pub(crate) fn emit_question_mark<'b>(&mut self, buf: &'b [u8]) -> (r: Result<Event<'b>>)
        requires
            buf@.len() >= 1, buf@[0] == 0x3f,
            old(self).offset >= buf@.len() + 2,
        ensures
            post_emit_question_mark(old(self), final(self), buf@, r),
 {
        assert!(buf.len() > 0);
        assert!(buf[0] == b'?');

        let len = buf.len();
        // We accept at least <??>
        //                     ~~ - len = 2
        if len > 1 && buf[len - 1] == b'?' {
            // Cut of `?` and `?` from start and end
            let content = &buf[1..len - 1];
            let len = content.len();

            if content.starts_with(&[b'x', b'm', b'l']) && (len == 3 || is_whitespace(content[3])) {
                let event = BytesDecl::from_start(BytesStart::wrap(content, 3));

                Ok(Event::Decl(event))
            } else {
                Ok(Event::PI(BytesPI::wrap(content, name_len(content))))
            }
        } else {
            // <?....EOF
            //  ^^^^^ - `buf` does not contains `<`, but we want to report error at `<`,
            //          so we move offset to it (-2 for `<` and `>`)
            self.last_error_offset = self.offset - len as u64 - 2;
            Err(Error::Syntax(SyntaxError::UnclosedPIOrXmlDecl))
        }
    }
//@end

//@extract state::ReaderState::emit_start | src/reader/state.rs :: impl ReaderState :: fn emit_start | serves=C01,C03,C04,C08,C16,C17
 pub(crate) fn emit_start<'b>(&mut self, content: &'b [u8]) -> (r: Event<'b>)
        requires old(self).wf()
        ensures
            post_emit_start(old(self), final(self), content@, r),
 {
        proof { axiom_pattern_array::<u8, 1>(); }
        if let Some(content) = content.strip_suffix(&[b'/']) {
            // This is self-closed tag `<something/>`
            let event = BytesStart::wrap(content, name_len(content));

            if self.config.expand_empty_elements {
                self.state = ParseState::InsideEmpty;
                self.opened_starts.push(self.opened_buffer.len());
                proof { axiom_items_slice::<u8>(); }
                self.opened_buffer.extend(event.name().as_ref());
                proof { ReaderState::lemma_push(old(self), self, event.buf@.subrange(0, event.name_len as int)); }
                Event::Start(event)
            } else {
                proof { assert(self.stack() =~= old(self).stack()); }
                Event::Empty(event)
            }
        } else {
            let event = BytesStart::wrap(content, name_len(content));

            // #514: Always store names event when .check_end_names == false,
            // because checks can be temporary disabled and when they would be
            // enabled, we should have that information
            self.opened_starts.push(self.opened_buffer.len());
            proof { axiom_items_slice::<u8>(); }
            self.opened_buffer.extend(event.name().as_ref());
            proof { ReaderState::lemma_push(old(self), self, event.buf@.subrange(0, event.name_len as int)); }
            Event::Start(event)
        }
    }
//@end

//@extract state::ReaderState::close_expanded_empty | src/reader/state.rs :: impl ReaderState :: fn close_expanded_empty | serves=C01,C03,C04,C16,C17
 pub(crate) fn close_expanded_empty(&mut self) -> (r: BytesEnd<'static>)
        requires old(self).wf(), old(self).stack().len() > 0
        ensures
            final(self).wf(), final(self).offset == old(self).offset, final(self).config == old(self).config,
            final(self).last_error_offset == old(self).last_error_offset,
            final(self).state is InsideText,
//@if encoding
            final(self).encoding == old(self).encoding,
//@endif
            r.name@ == old(self).stack().last(),
            final(self).stack() == old(self).stack().drop_last(),
 {
        self.state = ParseState::InsideText;
        let name = self
            .opened_buffer
            .split_off(self.opened_starts.pop().unwrap());
        proof { ReaderState::lemma_pop_truncate(old(self), self); }
        BytesEnd::wrap(name.into())
    }
//@end

//@extract state::ReaderState::decoder | src/reader/state.rs :: impl ReaderState :: fn decoder | serves=C01,C17
 pub(crate) fn decoder(&self) -> (r: Decoder)
        ensures r == self.decoder_spec()
 {
        Decoder {
        }
    }
//@end
}
}
