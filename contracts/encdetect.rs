// ---------------------------------------------------------------------------------------------
// Encoding detection from the first bytes (XML 1.0 appendix F.1; C17 "detected encodings", C08: only a
// byte-order mark is ever stripped). The table is the one of the recommendation:
//   FE FF -> UTF-16BE (BOM, 2 bytes)   FF FE -> UTF-16LE (BOM, 2 bytes)   EF BB BF -> UTF-8 (BOM, 3 bytes)
//   00 3C 00 3F -> 16-bit BE, no BOM   3C 00 3F 00 -> 16-bit LE, no BOM   3C 3F 78 6D -> ASCII compatible, no BOM
// ---------------------------------------------------------------------------------------------
/// the `encoding="…"` label of an XML declaration, mapped by encoding_rs (assumed, uninterpreted)
pub uninterp spec fn spec_encoder(decl: Seq<u8>) -> Option<&'static Encoding>;
impl<'a> BytesDecl<'a> {
    #[verifier::external_body]
    pub fn encoder(&self) -> (r: Option<&'static Encoding>)
        ensures r == spec_encoder(self.content.buf@)
    { unimplemented!() }
}

pub mod encdetect_ {
use super::*;
use vstd::prelude::*;
use crate::encoding::UTF8_BOM;

pub open spec fn has_prefix(s: Seq<u8>, p: Seq<u8>) -> bool {
    p.len() <= s.len() && s.subrange(0, p.len() as int) =~= p
}
/// (encoding: 0 = UTF-8, 1 = UTF-16BE, 2 = UTF-16LE; number of BOM bytes to strip)
pub open spec fn spec_detect(s: Seq<u8>) -> Option<(u8, usize)> {
    if has_prefix(s, seq![0xFEu8, 0xFF]) { Some((1u8, 2usize)) }
    else if has_prefix(s, seq![0xFFu8, 0xFE]) { Some((2u8, 2usize)) }
    else if has_prefix(s, seq![0xEFu8, 0xBB, 0xBF]) { Some((0u8, 3usize)) }
    else if has_prefix(s, seq![0x00u8, 0x3C, 0x00, 0x3F]) { Some((1u8, 0usize)) }
    else if has_prefix(s, seq![0x3Cu8, 0x00, 0x3F, 0x00]) { Some((2u8, 0usize)) }
    else if has_prefix(s, seq![0x3Cu8, 0x3F, 0x78, 0x6D]) { Some((0u8, 0usize)) }
    else { None }
}

//@extract encoding::UTF16_LE_BOM | src/encoding.rs :: const UTF16_LE_BOM | serves=C17 features=encoding
 pub exec const UTF16_LE_BOM: &'static [u8]
    ensures UTF16_LE_BOM@ =~= seq![0xFFu8, 0xFE]
 { &[0xFF, 0xFE] }
//@end
//@extract encoding::UTF16_BE_BOM | src/encoding.rs :: const UTF16_BE_BOM | serves=C17 features=encoding
 pub exec const UTF16_BE_BOM: &'static [u8]
    ensures UTF16_BE_BOM@ =~= seq![0xFEu8, 0xFF]
 { &[0xFE, 0xFF] }
//@end

//@extract encoding::detect_encoding | src/encoding.rs :: fn detect_encoding | serves=C17,C08 features=encoding
pub fn detect_encoding(bytes: &[u8]) -> (r: Option<(&'static Encoding, usize)>)
    // C17 / C08: the encoding and the number of bytes to strip follow the table of XML 1.0 F.1; without a
    // byte-order mark nothing is stripped
    ensures match r {
        Some((e, n)) => spec_detect(bytes@) == Some((e.id, n)),
        None => spec_detect(bytes@) is None,
    }
{
    match bytes {
        // with BOM
        _ if bytes.starts_with(UTF16_BE_BOM) => Some((UTF_16BE, 2)),
        _ if bytes.starts_with(UTF16_LE_BOM) => Some((UTF_16LE, 2)),
        _ if bytes.starts_with(UTF8_BOM) => Some((UTF_8, 3)),

        // without BOM
        _ if bytes.starts_with(&[0x00, b'<', 0x00, b'?']) => Some((UTF_16BE, 0)), // Some BE encoding, for example, UTF-16 or ISO-10646-UCS-2
        _ if bytes.starts_with(&[b'<', 0x00, b'?', 0x00]) => Some((UTF_16LE, 0)), // Some LE encoding, for example, UTF-16 or ISO-10646-UCS-2
        _ if bytes.starts_with(&[b'<', b'?', b'x', b'm']) => Some((UTF_8, 0)), // Some ASCII compatible

        _ => None,
    }
}
//@end
}

