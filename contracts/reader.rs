// ---------------------------------------------------------------------------------------------
// U-reader: Reader<R>, generic over any source that satisfies the XmlSource contract.
// read_event_impl!/read_until_close!/read_to_end! are transcribed at their invocation sites.
// ---------------------------------------------------------------------------------------------
//@extract reader::Reader | src/reader/mod.rs :: struct Reader | serves=C01
 pub struct Reader<R> {
    /// Source of data for parse
    pub reader: R,
    /// Configuration and current parse state
    pub state: ReaderState,
}
//@end

impl<R> Reader<R> {
//@extract reader::Reader::config_mut | src/reader/mod.rs :: impl<R> Reader<R> :: fn config_mut | serves=C12
 fn config_mut(&mut self) -> (r: &mut Config)
        ensures *r == old(self).state.config, final(self).reader == old(self).reader,
            final(self).state == (ReaderState { config: *final(r), ..old(self).state }),
 {
        &mut self.state.config
    }
//@end

//@extract reader::Reader::buffer_position | src/reader/mod.rs :: impl<R> Reader<R> :: fn buffer_position | serves=C03,C08,C12,C16
 fn buffer_position(&self) -> (r: u64)
        requires self.state.state is InsideMarkup ==> self.state.offset >= 1
        ensures r == self.bufpos()
 {
        // when internal state is InsideMarkup, we have actually read until '<',
        // which we don't want to show
        if let ParseState::InsideMarkup = self.state.state {
            self.state.offset - 1
        } else {
            self.state.offset
        }
    }
//@end

//@extract reader::Reader::error_position | src/reader/mod.rs :: impl<R> Reader<R> :: fn error_position | serves=C03,C16
 fn error_position(&self) -> (r: u64)
        ensures r == self.state.last_error_offset
 {
        self.state.last_error_offset
    }
//@end

//@extract reader::Reader::decoder | src/reader/mod.rs :: impl<R> Reader<R> :: fn decoder | serves=C12,C17
 fn decoder(&self) -> (r: Decoder)
        ensures r == self.state.decoder_spec()
 {
        self.state.decoder()
    }
//@end

//@extract reader::Reader::read_event_impl | src/reader/mod.rs :: impl<R> Reader<R> :: fn read_event_impl | serves=C01,C02,C03,C04,C05,C08,C12,C16,C17,C18 expand=read_event_impl n11=@remove_utf8_bom,@detect_encoding,@skip_whitespace
    /// Read text into the given buffer, and return an event that borrows from
    /// either that buffer or from the input itself, based on the type of the
    /// reader.
    #[verifier::loop_isolation(false)]
    #[verifier::allow_complex_invariants]
    fn read_event_impl<'i, B>(&mut self, mut buf: B) -> (r: Result<Event<'i>, Error>)
    where
        R: XmlSource<'i, B>,
        requires
            old(self).inv(),
            // A-size: the input that is left is addressable and its end position is representable
            !(old(self).state.state is Done) ==> old(self).state.offset + old(self).reader.remaining().len() <= u64::MAX,
            old(self).reader.remaining().len() <= usize::MAX,
        ensures
            final(self).inv(),
            final(self).reader.faults() >= old(self).reader.faults(),
            event_post(old(self).state, old(self).reader.remaining(), old(self).reader.after_bom(), final(self).state, final(self).reader.remaining(), r,
                final(self).reader.faults() > old(self).reader.faults()),
            // C03: progress, monotone positions, Eof is final
            continues(r) ==> measure(final(self).state, final(self).reader.remaining()) < measure(old(self).state, old(self).reader.remaining()),
            final(self).state.offset >= old(self).state.offset,
            continues(r) ==> final(self).state.offset + final(self).reader.remaining().len() <= old(self).state.offset + old(self).reader.remaining().len(),
            final(self).reader.remaining().len() <= old(self).reader.remaining().len(),
            r matches Ok(ev) ==> ev_wf(ev),
            final(self).state.config == old(self).state.config,
            !continues(r) && !(r matches Err(Error::Io(_))) ==> final(self).state.state is Done,
            final(self).bufpos() >= old(self).bufpos(),
            // C03: after Eof (and after any error that ended the document) every further call returns Eof
            old(self).state.state is Done ==> (r matches Ok(Event::Eof)) && final(self).state == old(self).state,
            stack_effect(old(self).state, final(self).state, r),
//@if encoding
            // C17: the encoding in force after the call: the sniff of the first bytes (only in the very first call,
            // only over an implicit default), then the XML declaration if this call returned one (only over an implicit
            // or sniffed choice). An encoding fixed by from_str (Explicit) or by a declaration is never changed.
            enc_post(old(self).state, old(self).reader.bom_enc(), final(self).state, r),
//@endif
    {
        let ghost pre = self.state;
        let ghost rem = self.reader.remaining();
        let ghost f0 = self.reader.faults();
//@if encoding
        let ghost benc0 = self.reader.bom_enc();
//@endif
        let ghost mut gcur = self.state;
        let ghost mut grem = self.reader.remaining();
        let ghost brem = self.reader.after_bom();
        let ghost mut gbrem = self.reader.after_bom();
        proof { self.reader.law_after_bom(); }
        {
        let event; loop
            invariant_except_break
                self.inv(),
                self.reader.faults() == f0,
                !(self.state.state is Done) ==> self.state.offset + self.reader.remaining().len() <= u64::MAX,
                self.reader.remaining().len() <= usize::MAX,
                self.state.config == pre.config,
                measure(self.state, self.reader.remaining()) <= measure(pre, rem),
                self.state.state is InsideText ==> (pre.state is Init || pre.state is InsideText),
                self.state.state is Init ==> pre.state is Init,
                self.state.same_stack(&pre),
                !(pre.state is Init || pre.state is InsideText) ==> self.state == pre && self.reader.remaining() == rem,
                self.state.offset >= pre.offset,
                self.reader.remaining().len() <= rem.len(),
                !(pre.state is Done) ==> self.state.offset + self.reader.remaining().len() <= pre.offset + rem.len(),
                forall|post: ReaderState, rem2: Seq<u8>, r: core::result::Result<Event<'i>, Error>, fault: bool|
                    #[trigger] event_post(self.state, self.reader.remaining(), self.reader.after_bom(), post, rem2, r, fault) ==> event_post(pre, rem, brem, post, rem2, r, fault),
//@if encoding
                enc_inv(pre, benc0, self.state),
                self.state.state is Init ==> self.reader.bom_enc() == benc0,
//@endif
            ensures
                self.state.wf(), self.state.config == pre.config,
                self.reader.faults() >= f0,
                forall|post: ReaderState, rem2: Seq<u8>, r: core::result::Result<Event<'i>, Error>, fault: bool|
                    #[trigger] event_post(gcur, grem, gbrem, post, rem2, r, fault) ==> event_post(pre, rem, brem, post, rem2, r, fault),
                arm_post(gcur, grem, gbrem, self.state, self.reader.remaining(), event, self.reader.faults() > f0),
                self.state.state is InsideMarkup ==> self.state.offset >= 1 && self.state.last_error_offset <= self.state.offset - 1,
                self.state.state is InsideEmpty ==> self.state.stack().len() > 0,
                self.state.last_error_offset <= self.state.offset,
                continues(event) ==> measure(self.state, self.reader.remaining()) < measure(pre, rem),
                self.state.offset >= pre.offset,
                continues(event) ==> self.state.offset + self.reader.remaining().len() <= pre.offset + rem.len(),
                self.reader.remaining().len() <= rem.len(),
                event matches Ok(ev) ==> ev_wf(ev),
                !continues(event) && !(event matches Err(Error::Io(_))) ==> self.state.state is Done || (event is Err) || (event matches Ok(Event::Eof)),
                self.state.state is InsideMarkup ==> self.state.offset >= pre.offset + 1 && !(pre.state is InsideMarkup),
            decreases (match self.state.state { ParseState::Init => 2int, ParseState::InsideText => 1int, _ => 0int })
        {
            proof { gcur = self.state; grem = self.reader.remaining(); gbrem = self.reader.after_bom(); self.reader.law_after_bom(); }
            { event = match self.state.state {
                ParseState::Init => {

                    // Removes UTF-8 BOM if it is present
                    match self.reader.remove_utf8_bom() { Ok(v__) => v__, Err(e__) => { proof {
                        assert forall|r: core::result::Result<Event<'i>, Error>| (r matches Err(Error::Io(_))) implies
                            event_post(pre, rem, brem, self.state, self.reader.remaining(), r, true) by {
                            assert(io_fail(gcur, grem, self.state, r, true)) by { reveal(io_fail); }
                            assert(event_post(gcur, grem, gbrem, self.state, self.reader.remaining(), r, true)) by { reveal(event_post); }
                        }
                    } return Err(From::from(e__)) } };

                    self.state.state = ParseState::InsideText;
                    proof {
                        assert forall|post: ReaderState, rem2: Seq<u8>, r: core::result::Result<Event<'i>, Error>, fault: bool|
                            #[trigger] event_post(self.state, self.reader.remaining(), self.reader.after_bom(), post, rem2, r, fault) implies event_post(pre, rem, brem, post, rem2, r, fault) by {
                            reveal(event_post);
                            if io_fail(self.state, self.reader.remaining(), post, r, fault) {
                                assert(io_fail(gcur, grem, post, r, fault)) by { reveal(io_fail); }
                            } else {
                                let m = choose|m: ReaderState| #[trigger] arm_post(self.state, self.reader.remaining(), self.reader.after_bom(), m, rem2, r, fault) && post == finish(m, r);
//@if encoding
                                assert(bom_refines(gcur.encoding, self.state.encoding));
                                assert(self.state == (ReaderState { state: ParseState::InsideText, encoding: self.state.encoding, ..gcur }));
//@endif
                                assert(arm_post(gcur, grem, gbrem, m, rem2, r, fault)) by { reveal(arm_post); }
                            }
                            assert(event_post(gcur, grem, gbrem, post, rem2, r, fault));
                        }
                    }
                    continue;
                },
                ParseState::InsideText => { // Go to InsideMarkup or Done state
                    if self.state.config.trim_text_start {
                        match self.reader.skip_whitespace(&mut self.state.offset) { Ok(v__) => v__, Err(e__) => { proof {
                        assert forall|r: core::result::Result<Event<'i>, Error>| (r matches Err(Error::Io(_))) implies
                            event_post(pre, rem, brem, self.state, self.reader.remaining(), r, true) by {
                            assert(io_fail(gcur, grem, self.state, r, true)) by { reveal(io_fail); }
                            assert(event_post(gcur, grem, gbrem, self.state, self.reader.remaining(), r, true)) by { reveal(event_post); }
                        }
                    } return Err(From::from(e__)) } };
                    }

                    let ghost r1 = self.reader.remaining();
                    let ghost base = self.state.offset;
                    proof {
                        if gcur.config.trim_text_start { assert(r1 == trimmed_start(grem)); } else { assert(r1 == grem); }
                    }
                    match self.reader.read_text(buf, &mut self.state.offset) {
                        ReadTextResult::Markup(buf_m) => {
                            self.state.state = ParseState::InsideMarkup;
                            // Pass `buf` to the next next iteration of parsing loop
                            buf = buf_m;
                            proof {
                                assert forall|i: int| first_lt(r1, i) implies i == 0 by { if i > 0 { assert(r1[0] != 0x3c); } }
                                assert forall|post: ReaderState, rem2: Seq<u8>, r: core::result::Result<Event<'i>, Error>, fault: bool|
                                    #[trigger] event_post(self.state, self.reader.remaining(), self.reader.after_bom(), post, rem2, r, fault) implies event_post(pre, rem, brem, post, rem2, r, fault) by {
                                    reveal(event_post);
                                    if io_fail(self.state, self.reader.remaining(), post, r, fault) {
                                        assert(io_fail(gcur, grem, post, r, fault)) by { reveal(io_fail); }
                                    } else {
                                        let m = choose|m: ReaderState| #[trigger] arm_post(self.state, self.reader.remaining(), self.reader.after_bom(), m, rem2, r, fault) && post == finish(m, r);
                                        assert(markup_post(self.state, self.reader.remaining(), m, rem2, r, fault)) by { reveal(arm_post); }
                                        assert(!no_lt(r1));
                                        assert(text_post(gcur, grem, m, rem2, r, fault)) by { reveal(text_post); }
                                        assert(arm_post(gcur, grem, gbrem, m, rem2, r, fault)) by { reveal(arm_post); }
                                    }
                                    assert(event_post(gcur, grem, gbrem, post, rem2, r, fault));
                                }
                            }
                            continue;
                        }
                        ReadTextResult::UpToMarkup(bytes) => {
                            proof {
                                assert forall|i: int| first_lt(r1, i) implies i == bytes@.len() by {
                                    if i < bytes@.len() { assert(r1[i] != 0x3c); } else if i > bytes@.len() { assert(r1[bytes@.len() as int] != 0x3c); }
                                }
                                assert(!no_lt(r1)) by { assert(r1[bytes@.len() as int] == 0x3c); }
                            }
                            self.state.state = ParseState::InsideMarkup;
                            // FIXME: Can produce an empty event if:
                            // - event contains only spaces
                            // - trim_text_start = false
                            // - trim_text_end = true
                            Ok(Event::Text(self.state.emit_text(bytes)))
                        }
                        ReadTextResult::UpToEof(bytes) => {
                            self.state.state = ParseState::Done;
                            // Trim bytes from end if required
                            let event = self.state.emit_text(bytes);
                            if event.is_empty() {
                                Ok(Event::Eof)
                            } else {
                                Ok(Event::Text(event))
                            }
                        }
                        ReadTextResult::Err(e) => Err(Error::Io(e.into())),
                    }
                },
                // Go to InsideText state in next two arms
                ParseState::InsideMarkup => self.read_until_close(buf),
                ParseState::InsideEmpty => Ok(Event::End(self.state.close_expanded_empty())),
                ParseState::Done => Ok(Event::Eof),
            }; proof {
                assert(arm_post(gcur, grem, gbrem, self.state, self.reader.remaining(), event, self.reader.faults() > f0)) by {
                    reveal(arm_post); reveal(text_post); reveal(io_fail);
                }
                assert(self.state.state is InsideMarkup ==> self.state.offset >= 1 && self.state.last_error_offset <= self.state.offset - 1) by {
                    reveal(arm_post); reveal(text_post); reveal(io_fail); reveal(markup_post);
                }
                assert(self.state.state is InsideEmpty ==> self.state.stack().len() > 0) by {
                    reveal(arm_post); reveal(text_post); reveal(io_fail); reveal(markup_post);
                }
                assert(self.state.last_error_offset <= self.state.offset) by {
                    reveal(arm_post); reveal(text_post); reveal(io_fail); reveal(markup_post);
                }
                assert(self.state.wf() && self.state.config == pre.config) by {
                    reveal(arm_post); reveal(text_post); reveal(io_fail); reveal(markup_post);
                }
                assert(continues(event) ==> measure(self.state, self.reader.remaining()) < measure(gcur, grem)) by {
                    reveal(arm_post); reveal(text_post); reveal(io_fail); reveal(markup_post);
                }
                assert(self.state.offset >= gcur.offset && (continues(event) ==> self.state.offset + self.reader.remaining().len() <= gcur.offset + grem.len())) by {
                    reveal(arm_post); reveal(text_post); reveal(io_fail); reveal(markup_post);
                }
                assert(self.reader.remaining().len() <= grem.len()) by {
                    reveal(arm_post); reveal(text_post); reveal(io_fail); reveal(markup_post);
                }
                assert(stack_effect(gcur, self.state, event)) by {
                    reveal(arm_post); reveal(text_post); reveal(io_fail); reveal(markup_post);
                }
                assert(event matches Ok(ev) ==> ev_wf(ev)) by {
                    reveal(arm_post); reveal(text_post); reveal(io_fail); reveal(markup_post);
                }
                assert(self.state.state is InsideMarkup ==> self.state.offset >= gcur.offset + 1 && (gcur.state is InsideText)) by {
                    reveal(arm_post); reveal(text_post); reveal(io_fail); reveal(markup_post);
                }
//@if encoding
                assert(self.state.encoding == decl_refines(gcur.encoding, event)) by { reveal(markup_post); }
                assert(enc_inv(pre, benc0, gcur) && !(gcur.state is Init));
                assert(!(self.state.state is Init)) by { reveal(markup_post); }
//@endif
            } break; };
        };
        let ghost m = self.state;
        let ghost rem2 = self.reader.remaining();
        let ghost fault = self.reader.faults() > f0;
        assert(arm_post(gcur, grem, gbrem, m, rem2, event, fault));
        match event {
            // #513: In case of ill-formed errors we already consume the wrong data
            // and change the state. We can continue parsing if we wish
            Err(Error::IllFormed(_)) => {}
            Err(_) | Ok(Event::Eof) => self.state.state = ParseState::Done,
            _ => {}
        }
        proof {
            assert(self.state == finish(m, event));
            assert(self.reader.remaining() == rem2 && fault == (self.reader.faults() > f0));
            assert(arm_post(gcur, grem, gbrem, m, rem2, event, fault) && self.state == finish(m, event));
            assert(event_post(gcur, grem, gbrem, self.state, rem2, event, fault)) by { reveal(event_post); }
//@if encoding
            assert(enc_post(pre, benc0, self.state, event)) by {
                if pre.state is Init { assert(bom_step(pre.encoding, benc0, gcur.encoding)); }
            }
//@endif
        }
        event
    }
    }
//@end

// AUDIT COPY (known finding, C16): the same real function under the contract that the property statement
// asks for -- "text events that become empty are dropped". Nothing calls it. It is expected to fail exactly
// the added clause (see known_findings.txt); any other failure of it is a new violation.
//@extract reader::Reader::read_event_impl#audit | - | clone_of=reader::Reader::read_event_impl rename=read_event_impl:read_event_impl__audit serves=C16 audit=1 nocanary=1
//@patch stack_effect(old(self).state, final(self).state, r), ==> stack_effect(old(self).state, final(self).state, r),\n            r matches Ok(Event::Text(e)) ==> e.content@.len() > 0, // C16: an emptied text event is dropped
//@end

//@extract reader::Reader::read_until_close | src/reader/mod.rs :: impl<R> Reader<R> :: fn read_until_close | serves=C01,C02,C03,C04,C05,C08,C12,C16,C17,C18 expand=read_until_close
    /// Private function to read until `>` is found. This function expects that
    /// it was called just after encounter a `<` symbol.
    fn read_until_close<'i, B>(&mut self, buf: B) -> (r: Result<Event<'i>, Error>)
    where
        R: XmlSource<'i, B>,
        requires
            old(self).state.wf(), old(self).state.offset >= 1,
            old(self).state.last_error_offset <= old(self).state.offset - 1,
            old(self).state.offset + old(self).reader.remaining().len() <= u64::MAX,
            old(self).reader.remaining().len() <= usize::MAX,
        ensures
            final(self).reader.faults() >= old(self).reader.faults(),
            final(self).reader.remaining().len() <= old(self).reader.remaining().len(),
            markup_post(old(self).state, old(self).reader.remaining(), final(self).state, final(self).reader.remaining(), r,
                final(self).reader.faults() > old(self).reader.faults()),
    {
        let ghost pre = self.state;
        let ghost rem = self.reader.remaining();
        proof {
            reveal(markup_post);
            lemma_tag_bounds(ElementParser::Outside, rem);
            lemma_pi_first(false, rem);
        }
        {
        self.state.state = ParseState::InsideText;

        let start = self.state.offset;
        match self.reader.peek_one() {
            // `<!` - comment, CDATA or DOCTYPE declaration
            Ok(Some(b'!')) => match self.reader
                .read_bang_element(buf, &mut self.state.offset)
            {
                Ok((bang_type, bytes)) => self.state.emit_bang(bang_type, bytes),
                Err(e) => {
                    // We want to report error at `<`, but offset was increased,
                    // so return it back (-1 for `<`)
                    self.state.last_error_offset = start - 1;
                    Err(e)
                }
            },
            // `</` - closing tag
            // #776: We parse using ElementParser which allows us to have attributes
            // in close tags. While such tags are not allowed by the specification,
            // we anyway allow to parse them because:
            // - we do not check constraints during parsing. This is performed by the
            //   optional validate step which user should call manually
            // - if we just look for `>` we will parse `</tag attr=">" >` as end tag
            //   `</tag attr=">` and text `" >` which probably no one existing parser
            //   does. This is malformed XML, however it is tolerated by some parsers
            //   (e.g. the one used by Adobe Flash) and such documents do exist in the wild.
            Ok(Some(b'/')) => match self.reader
                .read_with(ElementParser::Outside, buf, &mut self.state.offset)
            {
                Ok(bytes) => self.state.emit_end(bytes),
                Err(e) => {
                    // We want to report error at `<`, but offset was increased,
                    // so return it back (-1 for `<`)
                    self.state.last_error_offset = start - 1;
                    Err(e)
                }
            },
            // `<?` - processing instruction
            Ok(Some(b'?')) => match self.reader
                .read_with(PiParser(false), buf, &mut self.state.offset)
            {
                Ok(bytes) => self.state.emit_question_mark(bytes),
                Err(e) => {
                    // We want to report error at `<`, but offset was increased,
                    // so return it back (-1 for `<`)
                    self.state.last_error_offset = start - 1;
                    Err(e)
                }
            },
            // `<...` - opening or self-closed tag
            Ok(Some(_)) => match self.reader
                .read_with(ElementParser::Outside, buf, &mut self.state.offset)
            {
                Ok(bytes) => Ok(self.state.emit_start(bytes)),
                Err(e) => {
                    // We want to report error at `<`, but offset was increased,
                    // so return it back (-1 for `<`)
                    self.state.last_error_offset = start - 1;
                    Err(e)
                }
            },
            // `<` - syntax error, tag not closed
            Ok(None) => {
                // We want to report error at `<`, but offset was increased,
                // so return it back (-1 for `<`)
                self.state.last_error_offset = start - 1;
                Err(Error::Syntax(SyntaxError::UnclosedTag))
            }
            Err(e) => Err(Error::Io(e.into())),
        }
    }
    }
//@end
}

pub mod slice_reader_ {
use super::*;
use vstd::prelude::*;
pub type Result<T> = core::result::Result<T, Error>;
pub type Span = core::ops::Range<u64>;

impl<'a> Reader<&'a [u8]> {
//@extract slice_reader::Reader::read_event | src/reader/slice_reader.rs :: impl<'a> Reader<&'a [u8]> :: fn read_event | serves=C01,C02,C03,C04,C05,C08,C12,C16,C17,C18
 fn read_event(&mut self) -> (r: Result<Event<'a>>)
        requires
            old(self).inv(),
            !(old(self).state.state is Done) ==> old(self).state.offset + old(self).reader.remaining().len() <= u64::MAX,
            old(self).reader.remaining().len() <= usize::MAX,
        ensures
            final(self).inv(),
            final(self).reader.faults() >= old(self).reader.faults(),
            event_post(old(self).state, old(self).reader.remaining(), old(self).reader.after_bom(), final(self).state, final(self).reader.remaining(), r,
                final(self).reader.faults() > old(self).reader.faults()),
            continues(r) ==> measure(final(self).state, final(self).reader.remaining()) < measure(old(self).state, old(self).reader.remaining()),
            final(self).bufpos() >= old(self).bufpos(),
            final(self).state.config == old(self).state.config,
//@if encoding
            enc_post(old(self).state, old(self).reader.bom_enc(), final(self).state, r),
//@endif
 {
        self.read_event_impl(())
    }
//@end

//@extract slice_reader::Reader::read_text | src/reader/slice_reader.rs :: impl<'a> Reader<&'a [u8]> :: fn read_text | serves=C12 n11=2
 pub(crate) fn read_text(&mut self, end: QName) -> (r: Result<Cow<'a, str>>)
        requires
            old(self).inv(),
            // called after a Start event: the reader stands right behind the start tag
            old(self).state.state is InsideText,
            old(self).state.offset + old(self).reader.remaining().len() <= u64::MAX,
            old(self).reader.remaining().len() <= usize::MAX,
        ensures
            final(self).inv(), final(self).state.config == old(self).state.config,
            skip_domain(old(self).state, end.0@) && r is Ok ==> final(self).state.stack() == old(self).state.stack().drop_last(),
            // C12: the text returned is exactly the input between the start tag and the end tag that was skipped to:
            // the decoding of the first `n` bytes that were left, n = length of the span reported by read_to_end
            r matches Ok(t) ==> exists|n: int| 0 <= n <= old(self).reader.remaining().len()
                && n <= final(self).bufpos() - old(self).bufpos()
                && #[trigger] spec_decode(final(self).state.decoder_spec(), old(self).reader.remaining().subrange(0, n)) == Ok::<Cow<'a, str>, EncodingError>(t),
 {
        // self.reader will be changed, so store original reference
        let buffer = self.reader;
        let span = self.read_to_end(end)?;

        let len = span.end - span.start;
        // SAFETY: `span` can only contain indexes up to usize::MAX because it
        // was created from offsets from a single &[u8] slice
        Ok(match self.decoder().decode(&buffer[0..len as usize]) { Ok(v__) => v__, Err(e__) => return Err(From::from(e__)) })
    }
//@end

//@extract slice_reader::Reader::read_to_end | src/reader/slice_reader.rs :: impl<'a> Reader<&'a [u8]> :: fn read_to_end | serves=C03,C05,C12,C16 expand=read_to_end macro_files=src/reader/mod.rs
 #[verifier::loop_isolation(false)]
 #[verifier::allow_complex_invariants]
 pub(crate) fn read_to_end(&mut self, end: QName) -> (r: Result<Span>)
        requires
            old(self).inv(),
            !(old(self).state.state is Done) ==> old(self).state.offset + old(self).reader.remaining().len() <= u64::MAX,
            old(self).reader.remaining().len() <= usize::MAX,
        ensures
            final(self).inv(),
            final(self).reader.faults() >= old(self).reader.faults(),
            // the temporarily changed trimming switch is restored on EVERY exit (C12)
            final(self).state.config == old(self).state.config,
            final(self).bufpos() >= old(self).bufpos(),
            match r {
                // the span starts where the reader stood and ends before the end tag that was read last
                Ok(span) => span.start == old(self).bufpos() && span.start <= span.end <= final(self).bufpos()
                    // the span lies inside the input that was left
                    && (!(old(self).state.state is Done) ==> span.end <= old(self).state.offset + old(self).reader.remaining().len()),
                Err(_) => true,
            },
            // C12 (matching): with end names checked, skipping the innermost open element consumes input exactly up
            // to and including ITS end tag, counting nested elements of the same name: the element is closed, nothing else
            skip_domain(old(self).state, end.0@) && r is Ok ==> final(self).state.stack() == old(self).state.stack().drop_last(),
 {
        let ghost cfg0 = self.state.config;
        let ghost pos0 = self.bufpos();
        let ghost s0 = self.state.stack();
        let ghost lim0 = self.state.offset + self.reader.remaining().len();
        let ghost done0 = self.state.state is Done;
        let ghost good = skip_domain(self.state, end.0@);
        let ghost mut t: Seq<Seq<u8>> = Seq::empty();
        proof { assert(s0 + t =~= s0); }
        Ok({
        // Because we take position after the event before the End event,
        // it is important that this position indicates beginning of the End event.
        // If between last event and the End event would be only spaces, then we
        // take position before the spaces, but spaces would be skipped without
        // generating event if `trim_text_start` is set to `true`. To prevent that
        // we temporary disable start text trimming.
        //
        // We also cannot take position after getting End event, because if
        // `trim_markup_names_in_closing_tags` is set to `true` (which is the default),
        // we do not known the real size of the End event that it is occupies in
        // the source and cannot correct the position after the End event.
        // So, we in any case should tweak parser configuration.
        let config = self.config_mut();
        let trim = config.trim_text_start;
        config.trim_text_start = false;

        let start = self.buffer_position();
        let mut depth = 0;
        let __lv1: core::ops::Range<u64>; loop
            invariant_except_break
                self.inv(),
                self.reader.faults() >= old(self).reader.faults(),
                !(self.state.state is Done) ==> self.state.offset + self.reader.remaining().len() <= u64::MAX,
                self.reader.remaining().len() <= usize::MAX,
                depth >= 0,
                !done0 ==> self.state.offset + self.reader.remaining().len() <= lim0,
                good ==> self.state.stack() == s0 + t && depth as int == count_name(t, end.0@),
                self.state.config == (Config { trim_text_start: false, ..cfg0 }),
                trim == cfg0.trim_text_start,
                start == pos0, start <= self.bufpos(),
            ensures
                self.inv(), self.reader.faults() >= old(self).reader.faults(),
                self.state.config == cfg0,
                __lv1.start == pos0 && __lv1.start <= __lv1.end <= self.bufpos(),
                !done0 ==> __lv1.end <= lim0,
                good ==> self.state.stack() == s0.drop_last(),
            decreases measure(self.state, self.reader.remaining())
        {
            // A-depth (stated assumption, not replayable here): fewer than 2^31 - 1 nested same-name elements
            assume(depth < 0x7fff_ffff);
            {}
            let end_m = self.buffer_position();
            let ghost st_before = self.state.stack();
            match self.read_event_impl(()) {
                Err(e) => {
                    self.config_mut().trim_text_start = trim;
                    return Err(e);
                }

                Ok(Event::Start(e)) if e.name() == end => { proof {
                    if good {
                        let n = e.buf@.subrange(0, e.name_len as int);
                        lemma_count_push(t, n, end.0@);
                        assert((s0 + t).push(n) =~= s0 + t.push(n));
                        t = t.push(n);
                    }
                } depth += 1 },
                Ok(Event::End(e)) if e.name() == end => {
                    proof {
                        if good {
                            if t.len() > 0 {
                                assert((s0 + t).last() == t.last());
                                lemma_count_push(t.drop_last(), t.last(), end.0@);
                                assert(t.drop_last().push(t.last()) =~= t);
                                assert((s0 + t).drop_last() =~= s0 + t.drop_last());
                                t = t.drop_last();
                            } else {
                                assert(s0 + t =~= s0);
                            }
                        }
                    }
                    if depth == 0 {
                        self.config_mut().trim_text_start = trim;
                        { __lv1 = start..end_m; break; };
                    }
                    depth -= 1;
                }
                Ok(Event::Eof) => {
                    self.config_mut().trim_text_start = trim;
                    return Err(Error::missed_end(end, self.decoder()));
                }
                _ => (),
            }
            proof {
                // the remaining cases: a Start / End of another name, or an event that leaves the stack alone
                if good && self.state.stack() != s0 + t {
                    if self.state.stack().len() == st_before.len() + 1 {
                        let n = self.state.stack().last();
                        assert(self.state.stack() =~= st_before.push(n));
                        lemma_count_push(t, n, end.0@);
                        assert((s0 + t).push(n) =~= s0 + t.push(n));
                        t = t.push(n);
                    } else if self.state.stack().len() + 1 == st_before.len() {
                        if t.len() > 0 {
                            assert((s0 + t).last() == t.last());
                            lemma_count_push(t.drop_last(), t.last(), end.0@);
                            assert(t.drop_last().push(t.last()) =~= t);
                            assert((s0 + t).drop_last() =~= s0 + t.drop_last());
                            t = t.drop_last();
                        } else {
                            assert(s0 + t =~= s0);
                        }
                    }
                }
            }
        } __lv1
    })
    }
//@end
}
}

pub mod buffered_reader_ {
use super::*;
use vstd::prelude::*;
pub type Result<T> = core::result::Result<T, Error>;
pub type Span = core::ops::Range<u64>;

impl<R: BufRead> Reader<R> {
//@extract buffered_reader::Reader::read_event_into | src/reader/buffered_reader.rs :: impl<R: BufRead> Reader<R> :: fn read_event_into | serves=C01,C02,C03,C04,C05,C08,C12,C16,C17,C18
 fn read_event_into<'b>(&mut self, buf: &'b mut Vec<u8>) -> (r: Result<Event<'b>>)
        requires
            old(self).inv(),
            !(old(self).state.state is Done) ==> old(self).state.offset + old(self).reader.remaining().len() <= u64::MAX,
            old(self).reader.remaining().len() <= usize::MAX,
        ensures
            final(self).inv(),
            final(self).reader.faults() >= old(self).reader.faults(),
            event_post(old(self).state, old(self).reader.remaining(), old(self).reader.after_bom(), final(self).state, final(self).reader.remaining(), r,
                final(self).reader.faults() > old(self).reader.faults()),
            continues(r) ==> measure(final(self).state, final(self).reader.remaining()) < measure(old(self).state, old(self).reader.remaining()),
            final(self).bufpos() >= old(self).bufpos(),
            final(self).state.config == old(self).state.config,
//@if encoding
            enc_post(old(self).state, old(self).reader.bom_enc(), final(self).state, r),
//@endif
 {
        self.read_event_impl(buf)
    }
//@end

//@extract buffered_reader::Reader::read_to_end_into | src/reader/buffered_reader.rs :: impl<R: BufRead> Reader<R> :: fn read_to_end_into | serves=C03,C05,C12,C16 expand=read_to_end macro_files=src/reader/mod.rs
 #[verifier::loop_isolation(false)]
 #[verifier::allow_complex_invariants]
 pub(crate) fn read_to_end_into(&mut self, end: QName, buf: &mut Vec<u8>) -> (r: Result<Span>)
        requires
            old(self).inv(),
            !(old(self).state.state is Done) ==> old(self).state.offset + old(self).reader.remaining().len() <= u64::MAX,
            old(self).reader.remaining().len() <= usize::MAX,
        ensures
            final(self).inv(),
            final(self).reader.faults() >= old(self).reader.faults(),
            // the temporarily changed trimming switch is restored on EVERY exit (C12)
            final(self).state.config == old(self).state.config,
            final(self).bufpos() >= old(self).bufpos(),
            match r {
                // the span starts where the reader stood and ends before the end tag that was read last
                Ok(span) => span.start == old(self).bufpos() && span.start <= span.end <= final(self).bufpos()
                    // the span lies inside the input that was left
                    && (!(old(self).state.state is Done) ==> span.end <= old(self).state.offset + old(self).reader.remaining().len()),
                Err(_) => true,
            },
            // C12 (matching): with end names checked, skipping the innermost open element consumes input exactly up
            // to and including ITS end tag, counting nested elements of the same name: the element is closed, nothing else
            skip_domain(old(self).state, end.0@) && r is Ok ==> final(self).state.stack() == old(self).state.stack().drop_last(),
 {
        let ghost cfg0 = self.state.config;
        let ghost pos0 = self.bufpos();
        let ghost s0 = self.state.stack();
        let ghost lim0 = self.state.offset + self.reader.remaining().len();
        let ghost done0 = self.state.state is Done;
        let ghost good = skip_domain(self.state, end.0@);
        let ghost mut t: Seq<Seq<u8>> = Seq::empty();
        proof { assert(s0 + t =~= s0); }
        Ok({
        // Because we take position after the event before the End event,
        // it is important that this position indicates beginning of the End event.
        // If between last event and the End event would be only spaces, then we
        // take position before the spaces, but spaces would be skipped without
        // generating event if `trim_text_start` is set to `true`. To prevent that
        // we temporary disable start text trimming.
        //
        // We also cannot take position after getting End event, because if
        // `trim_markup_names_in_closing_tags` is set to `true` (which is the default),
        // we do not known the real size of the End event that it is occupies in
        // the source and cannot correct the position after the End event.
        // So, we in any case should tweak parser configuration.
        let config = self.config_mut();
        let trim = config.trim_text_start;
        config.trim_text_start = false;

        let start = self.buffer_position();
        let mut depth = 0;
        let __lv1: core::ops::Range<u64>; loop
            invariant_except_break
                self.inv(),
                self.reader.faults() >= old(self).reader.faults(),
                !(self.state.state is Done) ==> self.state.offset + self.reader.remaining().len() <= u64::MAX,
                self.reader.remaining().len() <= usize::MAX,
                depth >= 0,
                !done0 ==> self.state.offset + self.reader.remaining().len() <= lim0,
                good ==> self.state.stack() == s0 + t && depth as int == count_name(t, end.0@),
                self.state.config == (Config { trim_text_start: false, ..cfg0 }),
                trim == cfg0.trim_text_start,
                start == pos0, start <= self.bufpos(),
            ensures
                self.inv(), self.reader.faults() >= old(self).reader.faults(),
                self.state.config == cfg0,
                __lv1.start == pos0 && __lv1.start <= __lv1.end <= self.bufpos(),
                !done0 ==> __lv1.end <= lim0,
                good ==> self.state.stack() == s0.drop_last(),
            decreases measure(self.state, self.reader.remaining())
        {
            // A-depth (stated assumption, not replayable here): fewer than 2^31 - 1 nested same-name elements
            assume(depth < 0x7fff_ffff);
            {
            buf.clear();
        }
            let end_m = self.buffer_position();
            let ghost st_before = self.state.stack();
            match self.read_event_impl(buf) {
                Err(e) => {
                    self.config_mut().trim_text_start = trim;
                    return Err(e);
                }

                Ok(Event::Start(e)) if e.name() == end => { proof {
                    if good {
                        let n = e.buf@.subrange(0, e.name_len as int);
                        lemma_count_push(t, n, end.0@);
                        assert((s0 + t).push(n) =~= s0 + t.push(n));
                        t = t.push(n);
                    }
                } depth += 1 },
                Ok(Event::End(e)) if e.name() == end => {
                    proof {
                        if good {
                            if t.len() > 0 {
                                assert((s0 + t).last() == t.last());
                                lemma_count_push(t.drop_last(), t.last(), end.0@);
                                assert(t.drop_last().push(t.last()) =~= t);
                                assert((s0 + t).drop_last() =~= s0 + t.drop_last());
                                t = t.drop_last();
                            } else {
                                assert(s0 + t =~= s0);
                            }
                        }
                    }
                    if depth == 0 {
                        self.config_mut().trim_text_start = trim;
                        { __lv1 = start..end_m; break; };
                    }
                    depth -= 1;
                }
                Ok(Event::Eof) => {
                    self.config_mut().trim_text_start = trim;
                    return Err(Error::missed_end(end, self.decoder()));
                }
                _ => (),
            }
            proof {
                // the remaining cases: a Start / End of another name, or an event that leaves the stack alone
                if good && self.state.stack() != s0 + t {
                    if self.state.stack().len() == st_before.len() + 1 {
                        let n = self.state.stack().last();
                        assert(self.state.stack() =~= st_before.push(n));
                        lemma_count_push(t, n, end.0@);
                        assert((s0 + t).push(n) =~= s0 + t.push(n));
                        t = t.push(n);
                    } else if self.state.stack().len() + 1 == st_before.len() {
                        if t.len() > 0 {
                            assert((s0 + t).last() == t.last());
                            lemma_count_push(t.drop_last(), t.last(), end.0@);
                            assert(t.drop_last().push(t.last()) =~= t);
                            assert((s0 + t).drop_last() =~= s0 + t.drop_last());
                            t = t.drop_last();
                        } else {
                            assert(s0 + t =~= s0);
                        }
                    }
                }
            }
        } __lv1
    })
    }
//@end
}
}
