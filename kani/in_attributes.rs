//! Kani harness for C11, compiled only under `cfg(kani)` as a child module of
//! `quick_xml::events::attributes` (the fields of `IterState` are private to that module).
//!
//! Contract style, bounded: ONE call of the real `IterState::next` from an ARBITRARY iterator state
//! (`Done | Next(o) | SkipValue(o) | SkipEqValue(o)`, any `html`, any `check_duplicates`, up to one
//! previously seen key) over a slice of `N` symbolic bytes is compared with `ref_next`, an executable
//! reference step written from the documentation of `Attributes` / `AttrError` (item kinds, key and
//! value ranges, the five error kinds with their positions, the documented recovery positions).
//! Whole-tag iteration follows by induction on the number of calls (argument in DESIGN.md, not
//! machine-checked).  Bound: slice length N (see `N` below); all 256 byte values.
use super::*;

/// slice length bound; chosen by the driver through the environment (quick: 4, thorough: 5)
const fn bound(s: Option<&str>) -> usize {
    match s {
        Some(x) => { let b = x.as_bytes(); if b.len() == 1 && b[0] >= b'1' && b[0] <= b'6' { (b[0] - b'0') as usize } else { 4 } }
        None => 4,
    }
}
const N: usize = bound(option_env!("VX_KANI_N"));

fn ws(b: u8) -> bool {
    b == b' ' || b == b'\t' || b == b'\r' || b == b'\n'
}

#[derive(Clone, Copy, PartialEq, Eq)]
enum RState { Done, Next(usize), SkipValue(usize), SkipEqValue(usize) }

#[derive(PartialEq, Eq)]
enum RItem { DoubleQ(usize, usize, usize, usize), SingleQ(usize, usize, usize, usize), Unquoted(usize, usize, usize, usize), Empty(usize, usize) }

#[derive(PartialEq, Eq)]
enum RErr { ExpectedEq(usize), ExpectedValue(usize), UnquotedValue(usize), ExpectedQuote(usize, u8), Duplicated(usize, usize) }

/// first index >= from whose byte satisfies / does not satisfy `ws`
fn find_ws(s: &[u8], from: usize, want_ws: bool) -> Option<usize> {
    let mut i = from;
    while i < s.len() {
        if ws(s[i]) == want_ws { return Some(i); }
        i += 1;
    }
    None
}
fn find_byte(s: &[u8], from: usize, b: u8) -> Option<usize> {
    let mut i = from;
    while i < s.len() {
        if s[i] == b { return Some(i); }
        i += 1;
    }
    None
}

/// where parsing of the next attribute is attempted (documentation of `AttrError`: "recovery position")
fn ref_recover(st: RState, s: &[u8]) -> Option<usize> {
    match st {
        RState::Done => None,
        RState::Next(o) => Some(o),
        // after UnquotedValue: behind the unquoted value = the first whitespace after it
        RState::SkipValue(o) => find_ws(s, o, true),
        // after Duplicated (o = position of `=`): behind the whole value, quoted or not
        RState::SkipEqValue(o) => {
            let v = find_ws(s, o + 1, false)?;
            if s[v] == b'"' || s[v] == b'\'' {
                find_byte(s, v + 1, s[v]).map(|e| e + 1)
            } else {
                find_ws(s, v, true)
            }
        }
    }
}

/// the reference step: (result, successor state); `prev` = the key range seen before (if any)
fn ref_next(st: RState, html: bool, check: bool, prev: Option<(usize, usize)>, s: &[u8]) -> (Option<Result<RItem, RErr>>, RState, Option<(usize, usize)>) {
    let offset = match ref_recover(st, s) { Some(o) => o, None => return (None, st, None) };
    // skip blanks before the key
    let k0 = match find_ws(s, offset, false) { Some(k) => k, None => return (None, RState::Done, None) };
    // the key is at least one byte long (a leading `=` belongs to it) and ends at the next `=` or blank
    let mut k1 = k0 + 1;
    while k1 < s.len() && s[k1] != b'=' && !ws(s[k1]) { k1 += 1; }
    let key_only = |pos: usize, next: RState| -> (Option<Result<RItem, RErr>>, RState, Option<(usize, usize)>) {
        if html {
            if check { if let Some((p0, p1)) = prev { if s[p0..p1] == s[k0..k1] { return (Some(Err(RErr::Duplicated(k0, p0))), next, None); } } }
            (Some(Ok(RItem::Empty(k0, k1))), next, if check { Some((k0, k1)) } else { None })
        } else {
            (Some(Err(RErr::ExpectedEq(pos))), next, None)
        }
    };
    if k1 == s.len() { return key_only(s.len(), RState::Done); }
    let eq = if s[k1] == b'=' { k1 } else {
        match find_ws(s, k1, false) {
            None => return key_only(s.len(), RState::Done),
            Some(p) if s[p] == b'=' => p,
            Some(p) => return key_only(p, RState::Next(p)),
        }
    };
    // a repeated key (when checking)
    if check { if let Some((p0, p1)) = prev { if s[p0..p1] == s[k0..k1] { return (Some(Err(RErr::Duplicated(k0, p0))), RState::SkipEqValue(eq), None); } } }
    let pushed = if check { Some((k0, k1)) } else { None };
    // the value
    let v = match find_ws(s, eq + 1, false) { Some(v) => v, None => return (Some(Err(RErr::ExpectedValue(s.len()))), RState::Done, pushed) };
    if s[v] == b'"' || s[v] == b'\'' {
        match find_byte(s, v + 1, s[v]) {
            Some(e) => {
                let item = if s[v] == b'"' { RItem::DoubleQ(k0, k1, v + 1, e) } else { RItem::SingleQ(k0, k1, v + 1, e) };
                (Some(Ok(item)), RState::Next(e + 1), pushed)
            }
            None => (Some(Err(RErr::ExpectedQuote(s.len(), s[v]))), RState::Done, pushed),
        }
    } else if html {
        let e = find_ws(s, v, true).unwrap_or(s.len());
        (Some(Ok(RItem::Unquoted(k0, k1, v, e))), RState::Next(e), pushed)
    } else {
        (Some(Err(RErr::UnquotedValue(v))), RState::SkipValue(v), pushed)
    }
}

fn conv_state(s: State) -> RState {
    match s { State::Done => RState::Done, State::Next(o) => RState::Next(o), State::SkipValue(o) => RState::SkipValue(o), State::SkipEqValue(o) => RState::SkipEqValue(o) }
}
fn conv_result(r: Option<AttrResult>) -> Option<Result<RItem, RErr>> {
    r.map(|x| match x {
        Ok(Attr::DoubleQ(k, v)) => Ok(RItem::DoubleQ(k.start, k.end, v.start, v.end)),
        Ok(Attr::SingleQ(k, v)) => Ok(RItem::SingleQ(k.start, k.end, v.start, v.end)),
        Ok(Attr::Unquoted(k, v)) => Ok(RItem::Unquoted(k.start, k.end, v.start, v.end)),
        Ok(Attr::Empty(k)) => Ok(RItem::Empty(k.start, k.end)),
        Err(AttrError::ExpectedEq(p)) => Err(RErr::ExpectedEq(p)),
        Err(AttrError::ExpectedValue(p)) => Err(RErr::ExpectedValue(p)),
        Err(AttrError::UnquotedValue(p)) => Err(RErr::UnquotedValue(p)),
        Err(AttrError::ExpectedQuote(p, q)) => Err(RErr::ExpectedQuote(p, q)),
        Err(AttrError::Duplicated(a, b)) => Err(RErr::Duplicated(a, b)),
    })
}

fn check_one_call(kind: u8) {
    let bytes: [u8; N] = kani::any();
    let len: usize = kani::any();
    kani::assume(len <= N);
    let slice = &bytes[..len];

    // arbitrary, type-valid iterator state of the given kind
    let o: usize = kani::any();
    kani::assume(o <= len);
    let st = match kind {
        0 => State::Done,
        1 => State::Next(o),
        2 => State::SkipValue(o),
        _ => {
            // SkipEqValue is only ever entered at the position of an `=`
            kani::assume(o < len && slice[o] == b'=');
            State::SkipEqValue(o)
        }
    };
    let html: bool = kani::any();
    let check: bool = kani::any();
    // at most one key seen so far (a well-formed, non-empty range)
    let has_prev: bool = kani::any();
    let p0: usize = kani::any();
    let p1: usize = kani::any();
    kani::assume(p0 < p1 && p1 <= len);
    let mut keys: Vec<Range<usize>> = Vec::new();
    if has_prev && check { keys.push(p0..p1); }
    let prev = if has_prev && check { Some((p0, p1)) } else { None };

    let mut it = IterState { state: st, html, check_duplicates: check, keys };
    let got = it.next(slice);

    let (want, want_state, pushed) = ref_next(conv_state(st), html, check, prev, slice);
    assert!(conv_result(got) == want, "item / error and its ranges and positions");
    assert!(conv_state(it.state) == want_state, "successor state = documented recovery point");
    // the key list grows exactly by the key of a successfully started attribute
    match pushed {
        Some((a, b)) => assert!(it.keys.len() == (if has_prev && check { 2 } else { 1 }) && it.keys[it.keys.len() - 1] == (a..b)),
        None => assert!(it.keys.len() == (if has_prev && check { 1 } else { 0 })),
    }
    // "ends and stays ended": when the result is None the successor state is Done, or the state is
    // unchanged -- the same call on the same slice is then None again (the step is a function of state and slice)
    if want.is_none() {
        assert!(want_state == RState::Done || want_state == conv_state(st));
    }
}

#[kani::proof]
#[kani::unwind(8)]
fn next_from_done() { check_one_call(0) }
#[kani::proof]
#[kani::unwind(8)]
fn next_from_next() { check_one_call(1) }
#[kani::proof]
#[kani::unwind(8)]
fn next_from_skip_value() { check_one_call(2) }
#[kani::proof]
#[kani::unwind(8)]
fn next_from_skip_eq_value() { check_one_call(3) }
