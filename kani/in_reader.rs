//! Kani refuter harnesses for the byte scanners, compiled only under `cfg(kani)` as a child module of
//! `quick_xml::reader` (`BangType` is private to it).
//!
//! These harnesses do not decide anything: the scanners are decided by Verus for all inputs. They are
//! run only AFTER a Verus obligation of a scanner failed, to look -- within a small bound -- for a
//! concrete input on which the real function disagrees with an executable reference written from
//! the XML grammar; Kani's concrete playback then gives bytes that are replayed against the real code.
//! Bound: N bytes in total (buffer + chunk), every split point.
use super::*;
use crate::parser::{ElementParser, Parser, PiParser};

const fn bound(s: Option<&str>) -> usize {
    match s {
        Some(x) => { let b = x.as_bytes(); if b.len() == 1 && b[0] >= b'1' && b[0] <= b'8' { (b[0] - b'0') as usize } else { 7 } }
        None => 7,
    }
}
const N: usize = bound(option_env!("VX_KANI_N"));

/// AttValue ::= '"' [^"]* '"' | "'" [^']* "'" : index of the first '>' outside quotes, and the quote state
fn ref_tag_end(mut q: u8, s: &[u8]) -> (Option<usize>, u8) {
    let mut i = 0;
    while i < s.len() {
        let b = s[i];
        if q == 0 {
            if b == b'>' { return (Some(i), q); }
            if b == b'\'' { q = 1; } else if b == b'"' { q = 2; }
        } else if q == 1 {
            if b == b'\'' { q = 0; }
        } else if b == b'"' { q = 0; }
        i += 1;
    }
    (None, q)
}
fn q_of(p: ElementParser) -> u8 { match p { ElementParser::Outside => 0, ElementParser::SingleQ => 1, ElementParser::DoubleQ => 2 } }

/// the element scanner fed in two pieces finds the same '>' as the reference on the whole
#[kani::proof]
#[kani::unwind(10)]
fn refute_element_feed() {
    let bytes: [u8; N] = kani::any();
    let len: usize = kani::any();
    let cut: usize = kani::any();
    kani::assume(len <= N && cut <= len);
    let mut p = match kani::any::<u8>() % 3 { 0 => ElementParser::Outside, 1 => ElementParser::SingleQ, _ => ElementParser::DoubleQ };
    let q0 = q_of(p);
    let (want, want_q) = ref_tag_end(q0, &bytes[..len]);
    let got = match p.feed(&bytes[..cut]) {
        Some(i) => Some(i),
        None => p.feed(&bytes[cut..len]).map(|j| cut + j),
    };
    assert!(got == want, "ElementParser::feed: first '>' outside quotes");
    if want.is_none() { assert!(q_of(p) == want_q, "ElementParser::feed: quote state after the bytes"); }
}

/// first "?>" (the '?' may be the last byte of the previous piece)
fn ref_pi_end(s: &[u8]) -> Option<usize> {
    let mut i = 1;
    while i < s.len() {
        if s[i] == b'>' && s[i - 1] == b'?' { return Some(i); }
        i += 1;
    }
    None
}
#[kani::proof]
#[kani::unwind(10)]
fn refute_pi_feed() {
    let bytes: [u8; N] = kani::any();
    let len: usize = kani::any();
    let cut: usize = kani::any();
    // refills are never empty
    kani::assume(len <= N && 1 <= cut && cut < len);
    let mut p = PiParser(false);
    let want = ref_pi_end(&bytes[..len]);
    let got = match p.feed(&bytes[..cut]) {
        Some(i) => Some(i),
        None => p.feed(&bytes[cut..len]).map(|j| cut + j),
    };
    assert!(got == want, "PiParser::feed: first '?>' also across a refill");
}

/// first terminator of a `<!` construct; `t` are the bytes after '<'
fn ref_bang_end(kind: u8, t: &[u8]) -> Option<usize> {
    let mut k = 0;
    let mut bal: i64 = 0;
    while k < t.len() {
        if t[k] == b'>' {
            let hit = match kind {
                0 => k >= 5 && t[k - 1] == b'-' && t[k - 2] == b'-',           // comment: "-->" after "<!--"
                1 => k >= 2 && t[k - 1] == b']' && t[k - 2] == b']',           // CDATA: "]]>"
                _ => bal == 0,                                                   // DOCTYPE: '>' at nesting depth 0
            };
            if hit { return Some(k); }
            bal -= 1;
        } else if t[k] == b'<' { bal += 1; }
        k += 1;
    }
    None
}
#[kani::proof]
#[kani::unwind(10)]
fn refute_bang_parse() {
    let t: [u8; N] = kani::any();
    let len: usize = kani::any();
    let cut: usize = kani::any();
    kani::assume(2 <= len && len <= N && 1 <= cut && cut <= len && t[0] == b'!');
    // the kind of construct is announced by the byte after '!' (BangType::new), as in the real reader
    let kind: u8 = match BangType::new(Some(t[1])) {
        Ok(BangType::Comment) => 0,
        Ok(BangType::CData) => 1,
        Ok(BangType::DocType(_)) => 2,
        Err(_) => { kani::assume(false); 3 }
    };
    // the buffer holds no terminator yet (the caller would have stopped there)
    let want = ref_bang_end(kind, &t[..len]);
    if let Some(k) = want { kani::assume(k >= cut); }
    // DOCTYPE: the balance of the buffer
    let mut bal: u64 = 0;
    let mut i = 0;
    while i < cut { if t[i] == b'<' { bal += 1; } else if t[i] == b'>' && bal > 0 { bal -= 1; } i += 1; }
    let mut ty = match kind { 0 => BangType::Comment, 1 => BangType::CData, _ => BangType::DocType(bal) };
    let got = ty.parse(&t[..cut], &t[cut..len]);
    match (got, want) {
        (Some((content, used)), Some(k)) => {
            assert!(cut + used == k + 1, "BangType::parse: consumed up to and including the first terminator");
            assert!(content.len() + 1 == used, "BangType::parse: content is the chunk before the terminator");
        }
        (None, None) => {}
        _ => assert!(false, "BangType::parse: terminator found iff the reference finds one"),
    }
}
