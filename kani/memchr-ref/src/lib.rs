//! Naive reference implementation of the subset of memchr used by quick-xml.
pub fn memchr(n: u8, hay: &[u8]) -> Option<usize> {
    let mut i = 0;
    while i < hay.len() { if hay[i] == n { return Some(i); } i += 1; }
    None
}
pub fn memchr2(n1: u8, n2: u8, hay: &[u8]) -> Option<usize> {
    let mut i = 0;
    while i < hay.len() { if hay[i] == n1 || hay[i] == n2 { return Some(i); } i += 1; }
    None
}
pub struct Memchr<'h> { n: u8, hay: &'h [u8], pos: usize }
pub struct Memchr2<'h> { n1: u8, n2: u8, hay: &'h [u8], pos: usize }
pub struct Memchr3<'h> { n1: u8, n2: u8, n3: u8, hay: &'h [u8], pos: usize }
pub fn memchr_iter<'h>(n: u8, hay: &'h [u8]) -> Memchr<'h> { Memchr { n, hay, pos: 0 } }
pub fn memchr2_iter<'h>(n1: u8, n2: u8, hay: &'h [u8]) -> Memchr2<'h> { Memchr2 { n1, n2, hay, pos: 0 } }
pub fn memchr3_iter<'h>(n1: u8, n2: u8, n3: u8, hay: &'h [u8]) -> Memchr3<'h> { Memchr3 { n1, n2, n3, hay, pos: 0 } }
impl<'h> Iterator for Memchr<'h> { type Item = usize;
    fn next(&mut self) -> Option<usize> {
        while self.pos < self.hay.len() { let p = self.pos; self.pos += 1; if self.hay[p] == self.n { return Some(p); } }
        None
    } }
impl<'h> Iterator for Memchr2<'h> { type Item = usize;
    fn next(&mut self) -> Option<usize> {
        while self.pos < self.hay.len() { let p = self.pos; self.pos += 1; let b = self.hay[p]; if b == self.n1 || b == self.n2 { return Some(p); } }
        None
    } }
impl<'h> Iterator for Memchr3<'h> { type Item = usize;
    fn next(&mut self) -> Option<usize> {
        while self.pos < self.hay.len() { let p = self.pos; self.pos += 1; let b = self.hay[p]; if b == self.n1 || b == self.n2 || b == self.n3 { return Some(p); } }
        None
    } }
