use std::collections::BTreeMap;
#[test]
fn empty_names_are_rejected() {
    assert!(quick_xml::se::to_string_with_root("", &"x").is_err(), "empty root name");
    let mut m = BTreeMap::new();
    m.insert("".to_string(), "v".to_string());
    assert!(quick_xml::se::to_string_with_root("r", &m).is_err(), "empty element name from a map key");
    let mut m = BTreeMap::new();
    m.insert("@".to_string(), "v".to_string());
    assert!(quick_xml::se::to_string_with_root("r", &m).is_err(), "empty attribute name from a map key");
}
