use quick_xml::events::Event;
use quick_xml::name::{Namespace, ResolveResult};
use quick_xml::reader::NsReader;
#[test]
fn scope_left_after_read_to_end() {
    let mut r = NsReader::from_str(r#"<r><a xmlns:p="u" xmlns="d"><x/></a><p:b/><c/></r>"#);
    assert!(matches!(r.read_event().unwrap(), Event::Start(_)));
    let e = r.read_event().unwrap();
    let name = if let Event::Start(e) = e { e.name().as_ref().to_vec() } else { panic!() };
    r.read_to_end(quick_xml::name::QName(&name)).unwrap();
    let (res, ev) = r.read_resolved_event().unwrap();
    assert!(matches!(ev, Event::Empty(_)));
    assert_eq!(res, ResolveResult::Unknown(b"p".to_vec()), "p must be out of scope");
    let (res, _) = r.read_resolved_event().unwrap();
    assert_eq!(res, ResolveResult::Unbound, "default namespace must be out of scope");
    assert_eq!(r.prefixes().count(), 0);
    let _ = Namespace(b"x");
}
