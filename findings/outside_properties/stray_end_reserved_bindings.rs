//! Observation outside the listed properties (see README.md in this directory).
//! Build as a test/example against /repo (no features needed):
//!   cp this file to <worktree>/tests/stray_end.rs && cargo test --test stray_end -- --nocapture
use quick_xml::events::Event;
use quick_xml::name::ResolveResult;
use quick_xml::reader::NsReader;

#[test]
fn stray_end_then_reserved_prefix_and_size_hint() {
    let mut r = NsReader::from_str(r#"</a><b xml:lang="en" xmlns:p="urn:p"/>"#);
    r.config_mut().allow_unmatched_ends = true;
    assert!(matches!(r.read_event().unwrap(), Event::End(_)));
    match r.read_event().unwrap() {
        Event::Empty(e) => {
            let a = e.attributes().next().unwrap().unwrap();
            let (ns, _) = r.resolve_attribute(a.key);
            // the reserved `xml` prefix is gone: prints Unknown([120, 109, 108]) instead of Bound(http://www.w3.org/XML/1998/namespace)
            println!("xml:lang resolves to {:?}", ns);
            assert!(matches!(ns, ResolveResult::Unknown(_)));
            // and the in-scope prefix list is empty although xmlns:p is declared on this very element
            println!("prefixes: {}", r.prefixes().count());
        }
        e => panic!("{:?}", e),
    }
    // debug build: `attempt to subtract with overflow` at src/name.rs (PrefixIter::size_hint)
    let res = std::panic::catch_unwind(std::panic::AssertUnwindSafe(|| r.prefixes().size_hint()));
    println!("size_hint: {:?}", res.as_ref().map_err(|_| "panicked"));
}
