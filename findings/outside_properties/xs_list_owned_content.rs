use serde::Deserialize;
#[derive(Debug, Deserialize, PartialEq)]
struct RootA { #[serde(rename = "@list")] items: Vec<String> }
#[derive(Debug, Deserialize, PartialEq)]
struct Root { #[serde(rename = "$text")] items: Vec<String> }
fn main() {
    // a document that declares a non-UTF-8 encoding: every decoded string is owned
    let doc: &[u8] = b"<?xml version=\"1.0\" encoding=\"windows-1252\"?><root list=\"a b c\"/>";
    let b: Result<RootA, _> = quick_xml::de::from_reader(doc);
    println!("attr list  from_reader (windows-1252): {:?}", b);
    let doc: &[u8] = b"<?xml version=\"1.0\" encoding=\"windows-1252\"?><root list=\"a\xe9 b c\"/>";
    let b: Result<RootA, _> = quick_xml::de::from_reader(doc);
    println!("attr list  from_reader (windows-1252, non-ascii): {:?}", b);
    let doc: &[u8] = b"<?xml version=\"1.0\" encoding=\"windows-1252\"?><root>x\xe9 y z</root>";
    let b: Result<Root, _> = quick_xml::de::from_reader(doc);
    println!("text list  from_reader (windows-1252, non-ascii): {:?}", b);
}
