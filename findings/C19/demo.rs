//! C19 (serde serializer): indentation goes only in front of markup that does NOT follow text.
//! Run against /repo:  cp demo.rs <worktree>/tests/c19_demo.rs && cargo test --offline --features serialize --test c19_demo -- --nocapture
use serde::Serialize;

fn both<T: Serialize>(v: &T) -> (String, String) {
    let plain = quick_xml::se::to_string(v).unwrap();
    let mut s = String::new();
    let mut ser = quick_xml::se::Serializer::new(&mut s);
    ser.indent(' ', 2);
    v.serialize(ser).unwrap();
    (plain, s)
}

/// FIXED by the `fix:` commit recorded in known_findings.txt: an element field that writes nothing (an empty sequence)
/// re-enabled the indent although the last thing written was the text of the `$text` field.
#[derive(Serialize)]
struct EmptySeqAfterText {
    #[serde(rename = "$text")]
    t: String,
    v: Vec<u32>,
    e: u32,
}
#[derive(Serialize)]
struct EmptySeqLast {
    #[serde(rename = "$text")]
    t: String,
    v: Vec<u32>,
}
#[test]
fn empty_sequence_field_after_text() {
    let (plain, ind) = both(&EmptySeqAfterText { t: "x".into(), v: vec![], e: 1 });
    println!("{plain:?}\n{ind:?}");
    assert_eq!(plain, "<EmptySeqAfterText>x<e>1</e></EmptySeqAfterText>");
    // before the fix: "<EmptySeqAfterText>x\n  <e>1</e>\n</EmptySeqAfterText>"
    assert_eq!(ind, "<EmptySeqAfterText>x<e>1</e>\n</EmptySeqAfterText>");
    let (plain, ind) = both(&EmptySeqLast { t: "x".into(), v: vec![] });
    assert_eq!(plain, "<EmptySeqLast>x</EmptySeqLast>");
    // before the fix: "<EmptySeqLast>x\n</EmptySeqLast>"
    assert_eq!(ind, "<EmptySeqLast>x</EmptySeqLast>");
}

/// KNOWN FINDING (recorded, not repaired): a unit in a `$value` field is classified `WriteResult::Nothing`, which allows the
/// indent whatever was written before it.
#[derive(Serialize)]
struct UnitAfterText {
    #[serde(rename = "$text")]
    t: String,
    #[serde(rename = "$value")]
    v: (),
    e: u32,
}
#[test]
fn unit_value_after_text_known_finding() {
    let (plain, ind) = both(&UnitAfterText { t: "x".into(), v: (), e: 1 });
    println!("{plain:?}\n{ind:?}");
    assert_eq!(plain, "<UnitAfterText>x<e>1</e></UnitAfterText>");
    // C19 asks for "<UnitAfterText>x<e>1</e>\n</UnitAfterText>"; the pinned tree gives:
    assert_eq!(ind, "<UnitAfterText>x\n  <e>1</e>\n</UnitAfterText>");
}

/// KNOWN FINDING (recorded, not repaired): a NESTED empty sequence as an item of a sequence field writes nothing, yet the next item
/// is indented -- right after the text.
#[derive(Serialize)]
struct NestedEmptySeq {
    #[serde(rename = "$text")]
    t: String,
    v: Vec<Vec<u32>>,
}
#[test]
fn nested_empty_sequence_known_finding() {
    let (plain, ind) = both(&NestedEmptySeq { t: "x".into(), v: vec![vec![], vec![1]] });
    println!("{plain:?}\n{ind:?}");
    assert_eq!(plain, "<NestedEmptySeq>x<v>1</v></NestedEmptySeq>");
    // C19 asks for "<NestedEmptySeq>x<v>1</v>\n</NestedEmptySeq>"; the tree gives:
    assert_eq!(ind, "<NestedEmptySeq>x\n  <v>1</v>\n</NestedEmptySeq>");
}
