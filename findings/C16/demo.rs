//! Replays the recorded C16 finding against the real code (cargo test --offline --test c16demo).
//! The test asserts what the property demands; it FAILS on the current tree (known finding).
use quick_xml::events::Event;
use quick_xml::Reader;
#[test]
fn whitespace_only_text_is_dropped_with_trim_text_end() {
    let mut r = Reader::from_str("<a> </a>");
    r.config_mut().trim_text_end = true; // trim_text_start stays false
    let mut kinds = Vec::new();
    loop {
        match r.read_event().unwrap() {
            Event::Eof => break,
            Event::Text(t) => kinds.push(format!("Text({:?})", String::from_utf8_lossy(&t))),
            Event::Start(_) => kinds.push("Start".into()),
            Event::End(_) => kinds.push("End".into()),
            _ => kinds.push("other".into()),
        }
    }
    assert_eq!(kinds, vec!["Start".to_string(), "End".to_string()], "an emptied text event must be dropped");
}
