use quick_xml::events::attributes::{AttrError, Attributes};
fn collect(s: &str) -> Vec<Result<(String, String), AttrError>> {
    Attributes::new(s, 3)
        .map(|r| r.map(|a| (String::from_utf8_lossy(a.key.as_ref()).to_string(), String::from_utf8_lossy(&a.value).to_string())))
        .collect()
}
#[test]
fn recovery_after_duplicate_skips_the_whole_quoted_value() {
    // value with a space: the recovery point must be after the closing quote, not inside the value
    assert_eq!(collect("tag a=\"1\" a=\"x y\" b=\"3\""),
        vec![Ok(("a".into(), "1".into())), Err(AttrError::Duplicated(10, 4)), Ok(("b".into(), "3".into()))]);
    // spaces around '='
    assert_eq!(collect("tag a='1' a = 'x'  b='3'"),
        vec![Ok(("a".into(), "1".into())), Err(AttrError::Duplicated(10, 4)), Ok(("b".into(), "3".into()))]);
    // no attribute may be fabricated from the inside of a quoted value
    assert_eq!(collect("tag a='1' a='2 c=\"9\"' b='3'"),
        vec![Ok(("a".into(), "1".into())), Err(AttrError::Duplicated(10, 4)), Ok(("b".into(), "3".into()))]);
}
