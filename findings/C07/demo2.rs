//! C07 (deserialization returns in bounded time) -- genuine defect, repaired by c1238b1.
//! Deserializer::deserialize_option returned `None` for an empty Text event (an empty CDATA section) WITHOUT consuming it;
//! the top-level SeqAccess then asked for the next element again, forever: the call below never returned and its Vec grew
//! without bound. Obligation: `de::Deserializer::deserialize_option::postcondition not satisfied[.. self.opt_post()]`
//! (unit dexr: an Option answered None for an empty text has consumed that text).
//! Build against /repo with `--features serialize` (e.g. as tests/c07_demo2.rs); run under a timeout before the fix.
#[test]
fn options_at_top_level_end() {
    let r: Vec<Option<String>> = quick_xml::de::from_str("<![CDATA[]]>").unwrap();
    assert_eq!(r, vec![None]);
    let r: Vec<Option<String>> = quick_xml::de::from_reader("<![CDATA[]]>".as_bytes()).unwrap();
    assert_eq!(r, vec![None]);
    let r: Vec<Option<String>> = quick_xml::de::from_str("<![CDATA[x]]>").unwrap();
    assert_eq!(r, vec![Some("x".to_string())]);
}
