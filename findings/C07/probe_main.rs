use serde::Deserialize;
use std::collections::HashMap;
#[derive(Debug, Deserialize, PartialEq)]
struct A { a: String }
#[derive(Debug, Deserialize, PartialEq)]
struct T { #[serde(rename = "$text")] t: String }
#[derive(Debug, Deserialize, PartialEq)]
struct V { #[serde(rename = "$value")] v: Vec<E> }
#[derive(Debug, Deserialize, PartialEq)]
enum E { X, Y(String), #[serde(rename = "$text")] Text(String) }
#[derive(Debug, Deserialize, PartialEq)]
struct O { a: Option<String>, b: Option<u32> }
#[derive(Debug, Deserialize, PartialEq)]
struct U { a: (), b: Vec<u8> }
#[derive(Debug, Deserialize, PartialEq)]
struct Tup(String, String);
fn run<T: for<'a> Deserialize<'a> + std::fmt::Debug>(name: &str, doc: &str) {
    let d = doc.to_string();
    let r = std::panic::catch_unwind(move || { let a: Result<T, _> = quick_xml::de::from_str(&d); format!("{:?}", a.is_ok()) });
    if r.is_err() { println!("PANIC {name}: {doc}"); }
    let d = doc.to_string();
    let r = std::panic::catch_unwind(move || { let a: Result<T, _> = quick_xml::de::from_reader(d.as_bytes()); format!("{:?}", a.is_ok()) });
    if r.is_err() { println!("PANIC(reader) {name}: {doc}"); }
}
fn main() {
    std::panic::set_hook(Box::new(|_| {}));
    let docs = [
        "<r><a>t<!DOCTYPE x>m</a></r>", "<r>t<!DOCTYPE x>m</r>", "<r><!DOCTYPE x>m</r>", "<r><a>t</a><!DOCTYPE x>m</r>",
        "<r><a>t<![CDATA[c]]><!DOCTYPE x><![CDATA[d]]></a></r>", "<r><X/>t<!DOCTYPE x>m<Y>q</Y></r>", "<r><a/><b>1<!DOCTYPE x>2</b></r>",
        "<r>t<!DOCTYPE x><a>q</a></r>", "<!DOCTYPE x><r><a>t</a></r>", "<r><a>t</a></r><!DOCTYPE x>tail", "<r><a>t<!DOCTYPE x></a></r>",
        "<r><a><!DOCTYPE x>t</a></r>", "<r><a>t<!DOCTYPE x>m<!DOCTYPE y>n</a></r>", "<r><a>t <!DOCTYPE x> m</a><b>1 <!DOCTYPE q>2</b></r>",
        "t<!DOCTYPE x>m", "<a>t</a>", "</a>", "<r></r></r>", "<r><a>t</a></x>", "<r><a>&unknown;</a></r>", "<r><a>t<!DOCTYPE x [<!ENTITY e \"v\">]>&e;</a></r>",
    ];
    for d in docs {
        run::<A>("A", d); run::<T>("T", d); run::<V>("V", d); run::<O>("O", d); run::<U>("U", d); run::<Tup>("Tup", d);
        run::<String>("String", d); run::<HashMap<String, String>>("Map", d); run::<Vec<String>>("Vec", d); run::<()>("unit", d);
    }
    println!("done");
}
