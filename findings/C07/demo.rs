//! C07 (deserialization never panics) -- genuine defect found by the failing obligation
//! `de::XmlReader::drain_text::loop invariant not satisfied[break;]` (unit dexr: after a Text has been returned the
//! look-ahead must not be Text, CData or a DOCTYPE).
//!
//! A `<!DOCTYPE ..>` between two text pieces is reported by the reader as an event; XmlReader::next returned the first
//! piece as a Text, skipped the DOCTYPE on the next call and returned the second piece as ANOTHER Text, so
//! Deserializer::read_text ran into `DeEvent::Text(_) => unreachable!()` (src/de/mod.rs:2787) and panicked.
//!
//! Build against /repo with `--features serialize` (e.g. as tests/c07_demo.rs). Before the fix the first assertion
//! fails with a panic ("internal error: entered unreachable code"); after it all pass.
use serde::Deserialize;

#[derive(Debug, Deserialize, PartialEq)]
struct Root {
    a: String,
}

#[test]
fn doctype_between_text_pieces_does_not_panic() {
    for doc in [
        "<root><a>text<!DOCTYPE x>more</a></root>",
        "<root><a>t<![CDATA[c]]><!DOCTYPE x><![CDATA[d]]></a></root>",
        "<root><a>t<!DOCTYPE x>m<!DOCTYPE y>n</a></root>",
    ] {
        let d = doc.to_string();
        let r = std::panic::catch_unwind(move || quick_xml::de::from_str::<Root>(&d).map(|r| r.a));
        assert!(r.is_ok(), "from_str panicked on {doc}");
        let d = doc.to_string();
        let r = std::panic::catch_unwind(move || quick_xml::de::from_reader::<_, Root>(d.as_bytes()).map(|r| r.a));
        assert!(r.is_ok(), "from_reader panicked on {doc}");
    }
    // the pieces around the DOCTYPE are merged, as around a comment
    assert_eq!(quick_xml::de::from_str::<Root>("<root><a>text<!DOCTYPE x>more</a></root>").unwrap().a, "textmore");
    assert_eq!(quick_xml::de::from_str::<Root>("<root><a>text<!--c-->more</a></root>").unwrap().a, "textmore");
}
