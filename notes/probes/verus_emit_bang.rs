use vstd::prelude::*;
use vstd::std_specs::iter::IteratorSpec;
verus! {

pub open spec fn spec_is_ws(b: u8) -> bool { b == 0x20 || b == 0x0d || b == 0x0a || b == 0x09 }
pub const fn is_whitespace(b: u8) -> (r: bool) ensures r == spec_is_ws(b)
{ matches!(b, b' ' | b'\r' | b'\n' | b'\t') }

pub mod memchr {
    use vstd::prelude::*;
    pub fn memchr(needle: u8, hay: &[u8]) -> (r: Option<usize>)
        ensures match r {
            Some(i) => i < hay@.len() && hay@[i as int] == needle && forall|j: int| 0 <= j < i ==> hay@[j] != needle,
            None => forall|j: int| 0 <= j < hay@.len() ==> hay@[j] != needle }
    {
        let mut i = 0;
        while i < hay.len()
            invariant i <= hay@.len(), forall|j: int| 0 <= j < i ==> hay@[j] != needle
            decreases hay@.len() - i
        { if hay[i] == needle { return Some(i); } i += 1; }
        None
    }
}

// assumed std contracts
pub assume_specification<'a, T, P: FnMut(&'a T) -> bool> [<core::slice::Iter<'a, T> as Iterator>::position] (it: &mut core::slice::Iter<'a, T>, p: P) -> (r: Option<usize>)
    where core::slice::Iter<'a, T>: Sized
    requires
        IteratorSpec::obeys_prophetic_iter_laws(old(it)),
        forall|x: &'a T| p.requires((x,)),
    ensures
        match r {
            Some(i) => {
                &&& IteratorSpec::peek(old(it), i as int) is Some
                &&& p.ensures((IteratorSpec::peek(old(it), i as int).unwrap(),), true)
                &&& forall|j: int| 0 <= j < i ==> IteratorSpec::peek(old(it), j) is Some && p.ensures((IteratorSpec::peek(old(it), j).unwrap(),), false)
            },
            None => forall|j: int| 0 <= j && IteratorSpec::peek(old(it), j) is Some ==> p.ensures((IteratorSpec::peek(old(it), j).unwrap(),), false),
        }
;
pub uninterp spec fn lower(b: u8) -> u8;
pub assume_specification [<[u8]>::eq_ignore_ascii_case] (a: &[u8], b: &[u8]) -> (r: bool)
    ensures r == (a@.len() == b@.len() && forall|i: int| 0 <= i < a@.len() ==> lower(a@[i]) == lower(b@[i]));

// crate-local shims
pub struct Decoder {}
pub struct BytesText<'a> { pub content: &'a [u8] }
impl<'a> BytesText<'a> { pub fn wrap(content: &'a [u8], d: Decoder) -> (r: Self) ensures r.content@ == content@ { BytesText { content } } }
pub struct BytesCData<'a> { pub content: &'a [u8] }
impl<'a> BytesCData<'a> { pub fn wrap(content: &'a [u8], d: Decoder) -> (r: Self) ensures r.content@ == content@ { BytesCData { content } } }
pub enum Event<'a> { Comment(BytesText<'a>), CData(BytesCData<'a>), DocType(BytesText<'a>) }
pub enum IllFormedError { DoubleHyphenInComment, MissingDoctypeName }
pub enum SyntaxError { UnclosedCData, UnclosedComment, UnclosedDoctype }
pub enum Error { IllFormed(IllFormedError), Syntax(SyntaxError) }
impl vstd::std_specs::convert::FromSpecImpl<SyntaxError> for Error {
    open spec fn obeys_from_spec() -> bool { true }
    open spec fn from_spec(e: SyntaxError) -> Error { Error::Syntax(e) }
}
impl From<SyntaxError> for Error { fn from(e: SyntaxError) -> (r: Error) { Error::Syntax(e) } }
pub type Result<T> = core::result::Result<T, Error>;
pub enum BangType { CData, Comment, DocType(i32) }
impl BangType {
    const fn to_err(&self) -> SyntaxError {
        match self {
            Self::CData => SyntaxError::UnclosedCData,
            Self::Comment => SyntaxError::UnclosedComment,
            Self::DocType(_) => SyntaxError::UnclosedDoctype,
        }
    }
}
pub struct Config { pub check_comments: bool }
pub struct ReaderState { pub offset: u64, pub last_error_offset: u64, pub config: Config }

impl ReaderState {
    pub const fn decoder(&self) -> Decoder { Decoder {} }

    // ===== real text of src/reader/state.rs ReaderState::emit_bang; N4 (while let), N6 (debug_assert), N7 (|&b|), N8 applied =====
    #[verifier::loop_isolation(false)]
    pub fn emit_bang<'b>(&mut self, bang_type: BangType, buf: &'b [u8]) -> (r: Result<Event<'b>>)
        requires
            buf@.len() >= 1, buf@[0] == 0x21,
            old(self).offset >= buf@.len() + 2, old(self).last_error_offset <= old(self).offset,
            bang_type is Comment ==> buf@.len() >= 5 && buf@[buf@.len() - 1] == 0x2d && buf@[buf@.len() - 2] == 0x2d,
            bang_type is CData ==> buf@.len() >= 2 && buf@[buf@.len() - 1] == 0x5d && buf@[buf@.len() - 2] == 0x5d,
        ensures
            final(self).offset == old(self).offset, final(self).config == old(self).config,
            final(self).last_error_offset <= final(self).offset,
    {
        assert!(buf.first() == Some(&b'!'));

        let uncased_starts_with = |string: &[u8], prefix: &[u8]| -> (r: bool)
            ensures r == (string@.len() >= prefix@.len() && forall|i: int| 0 <= i < prefix@.len() ==> lower(string@[i]) == lower(prefix@[i]))
        {
            string.len() >= prefix.len() && string[..prefix.len()].eq_ignore_ascii_case(prefix)
        };

        let len = buf.len();
        match bang_type {
            BangType::Comment if buf.starts_with(&[b'!', b'-', b'-']) => {
                assert!(buf.ends_with(&[b'-', b'-']));
                if self.config.check_comments {
                    // search if '--' not in comments
                    let mut haystack = &buf[3..len - 2];
                    let mut off = 0;
                    loop
                        invariant off <= len - 5, haystack@ == buf@.subrange(3 + off as int, len - 2),
                            self.last_error_offset == old(self).last_error_offset, self.offset == old(self).offset, self.config == old(self).config,
                        decreases haystack@.len()
                    { match memchr::memchr(b'-', haystack) { Some(p) => {
                        off += p + 1;
                        // if next byte after `-` is also `-`, return an error
                        if buf[3 + off] == b'-' {
                            self.last_error_offset = self.offset - len as u64 + 2 + p as u64;
                            return Err(Error::IllFormed(IllFormedError::DoubleHyphenInComment));
                        }
                        // Continue search after single `-` (+1 to skip it)
                        haystack = &haystack[p + 1..];
                    }, _ => break } }
                }
                Ok(Event::Comment(BytesText::wrap(
                    // Cut of `!--` and `--` from start and end
                    &buf[3..len - 2],
                    self.decoder(),
                )))
            }
            BangType::CData if buf.starts_with(&[b'!', b'[', b'C', b'D', b'A', b'T', b'A', b'[']) => {
                assert!(buf.ends_with(&[b']', b']']));
                Ok(Event::CData(BytesCData::wrap(
                    // Cut of `![CDATA[` and `]]` from start and end
                    &buf[8..len - 2],
                    self.decoder(),
                )))
            }
            BangType::DocType(0) if uncased_starts_with(buf, &[b'!', b'D', b'O', b'C', b'T', b'Y', b'P', b'E']) => {
                match buf[8..].iter().position(|b_: &u8| -> (r: bool) ensures r == !spec_is_ws(*b_) { let b = *b_; !is_whitespace(b) }) {
                    Some(start) => Ok(Event::DocType(BytesText::wrap(
                        // Cut of `!DOCTYPE` and any number of spaces from start
                        &buf[8 + start..],
                        self.decoder(),
                    ))),
                    None => {
                        self.last_error_offset = self.offset - 1;
                        return Err(Error::IllFormed(IllFormedError::MissingDoctypeName));
                    }
                }
            }
            _ => {
                self.last_error_offset = self.offset - len as u64 - 2;
                Err(bang_type.to_err().into())
            }
        }
    }
}

} // verus!
fn main() {}
