use vstd::prelude::*;
verus! {

// ---------- shim: io + chunked source (trusted model of BufRead) ----------
pub mod io {
    use vstd::prelude::*;
    #[derive(PartialEq, Eq, Clone, Copy)]
    pub enum ErrorKind { Interrupted, Other }
    pub struct Error { pub k: ErrorKind }
    impl Error {
        pub fn kind(&self) -> (r: ErrorKind) ensures r == self.k { self.k }
    }
    pub type Result<T> = core::result::Result<T, Error>;
}

pub enum SyntaxError { UnclosedTag, UnclosedPIOrXmlDecl }
pub enum Error { Io(io::Error), Syntax(SyntaxError) }
pub type Result<T> = core::result::Result<T, Error>;

pub trait Parser: Sized {
    spec fn inv(&self) -> bool;
    /// abstract scan: position of terminator in `bytes` when starting from this state
    spec fn spec_feed(&self, bytes: Seq<u8>) -> Option<int>;
    spec fn spec_next(&self, bytes: Seq<u8>) -> Self;
    fn feed(&mut self, bytes: &[u8]) -> (r: Option<usize>)
        ensures
            match r { Some(i) => old(self).spec_feed(bytes@) == Some(i as int) && i < bytes@.len(),
                      None => old(self).spec_feed(bytes@).is_none() && *final(self) == old(self).spec_next(bytes@) };
    fn eof_error() -> SyntaxError;
}

/// Model of a BufRead: remaining data plus an oracle deciding chunk sizes and faults.
pub struct Src { pub data: Vec<u8>, pub pos: usize, pub intr: Ghost<nat> }
impl Src {
    pub open spec fn wf(&self) -> bool { self.pos <= self.data@.len() }
    pub open spec fn rest(&self) -> Seq<u8> { self.data@.subrange(self.pos as int, self.data@.len() as int) }
    #[verifier::external_body]
    pub fn fill_buf(&mut self) -> (r: io::Result<&[u8]>)
        requires old(self).wf()
        ensures final(self).wf(), final(self).data == old(self).data, final(self).pos == old(self).pos,
            match r {
                Ok(n) => n@.len() <= old(self).rest().len() && n@ == old(self).rest().subrange(0, n@.len() as int)
                         && (n@.len() == 0 ==> old(self).rest().len() == 0),
                Err(e) => e.k == io::ErrorKind::Interrupted ==> final(self).intr@ < old(self).intr@,
            }
    { unimplemented!() }
    pub fn consume(&mut self, amt: usize)
        requires old(self).wf(), amt <= old(self).rest().len()
        ensures final(self).wf(), final(self).data == old(self).data, final(self).pos == old(self).pos + amt, final(self).intr == old(self).intr
    { self.pos = self.pos + amt; }
}

impl Src {
        fn read_with<'b, P: Parser>(
            &mut self,
            mut parser: P,
            buf: &'b mut Vec<u8>,
            position: &mut u64,
        ) -> Result<&'b [u8]>
            requires old(self).wf(), *old(position) + old(self).rest().len() <= u64::MAX,
            ensures final(self).wf(), final(self).data == old(self).data,
                *final(position) == *old(position) + (final(self).pos - old(self).pos),
        {
            let mut read = 0;
            let start = buf.len();
            loop
                invariant self.wf(), self.data == old(self).data, old(self).pos <= self.pos,
                    read == self.pos - old(self).pos, *position == *old(position),
                    *old(position) + old(self).rest().len() <= u64::MAX,
                    start <= buf@.len(),
                decreases self.rest().len() + self.intr@
            {
                let available = match self.fill_buf() {
                    Ok(n) if n.is_empty() => break,
                    Ok(n) => n,
                    Err(ref e) if e.kind() == io::ErrorKind::Interrupted => continue,
                    Err(e) => {
                        *position += read;
                        return Err(Error::Io(e.into()));
                    }
                };

                if let Some(i) = parser.feed(available) {
                    buf.extend_from_slice(&available[..i]);

                    // +1 for `>` which we do not include
                    self.consume(i + 1);
                    read += i as u64 + 1;

                    *position += read;
                    return Ok(&buf[start..]);
                }

                // The `>` symbol not yet found, continue reading
                buf.extend_from_slice(available);

                let used = available.len();
                self.consume(used);
                read += used as u64;
            }

            *position += read;
            Err(Error::Syntax(P::eof_error()))
        }
}

} // verus!
fn main() {}
