use vstd::prelude::*;
verus! {

pub struct QName<'a>(pub &'a [u8]);
pub struct BytesStart { pub name: Vec<u8> }
pub struct BytesEnd { pub name: Vec<u8> }
impl BytesStart { pub fn name(&self) -> (r: QName) ensures r.0@ == self.name@ { QName(self.name.as_slice()) } }
impl BytesEnd { pub fn name(&self) -> (r: QName) ensures r.0@ == self.name@ { QName(self.name.as_slice()) } }
impl<'a> QName<'a> {
    /// `e.name() == $end` on QName (derived PartialEq on the byte slice)
    pub fn eq(&self, o: &QName) -> (r: bool) ensures r == (self.0@ == o.0@) {
        let r = self.0 == o.0;
        proof { if r { assert(self.0@ =~= o.0@); } }
        r
    }
}
pub enum Event { Start(BytesStart), End(BytesEnd), Text, Eof }
pub struct Error {}
pub type Result<T> = core::result::Result<T, Error>;
pub type Span = core::ops::Range<u64>;
pub struct Decoder {}
pub struct Config { pub trim_text_start: bool, pub trim_text_end: bool, pub check_end_names: bool }
impl Error { #[verifier::external_body] pub fn missed_end(name: QName, d: Decoder) -> Error { unimplemented!() } }

/// abstract of Reader for this probe: position + config; read_event_impl keeps config (proved in U-reader)
pub struct Reader { pub pos: u64, pub config: Config }
impl Reader {
    pub fn config_mut(&mut self) -> (r: &mut Config)
        ensures *r == old(self).config, final(self).config == *final(r), final(self).pos == old(self).pos
    { &mut self.config }
    pub fn buffer_position(&self) -> (r: u64) ensures r == self.pos { self.pos }
    pub fn decoder(&self) -> Decoder { Decoder {} }
    #[verifier::external_body]
    pub fn read_event_impl(&mut self, buf: ()) -> (r: Result<Event>)
        ensures final(self).config == old(self).config, final(self).pos >= old(self).pos
    { unimplemented!() }

    // ===== real text: read_to_end!(self, end, (), read_event_impl, {}) as instantiated in Reader::<&[u8]>::read_to_end (N3) =====
    #[verifier::exec_allows_no_decreases_clause]
    pub fn read_to_end(&mut self, end: QName) -> (res: Result<Span>)
        ensures
            final(self).config == old(self).config,                         // restored on every exit
            res matches Ok(span) ==> span.start == old(self).pos && span.start <= span.end <= final(self).pos,
    {
        Ok({
        let config = self.config_mut();
        let trim = config.trim_text_start;
        config.trim_text_start = false;

        let start = self.buffer_position();
        let mut depth = 0;
        let __brk; loop
            invariant self.config.trim_text_end == old(self).config.trim_text_end, self.config.check_end_names == old(self).config.check_end_names,
                self.config.trim_text_start == false, trim == old(self).config.trim_text_start,
                start == old(self).pos, start <= self.pos,
        {
            {}
            let end_ = self.buffer_position();
            match self.read_event_impl(()) {
                Err(e) => {
                    self.config_mut().trim_text_start = trim;
                    return Err(e);
                }

                Ok(Event::Start(e)) if e.name().eq(&end) => depth += 1,
                Ok(Event::End(e)) if e.name().eq(&end) => {
                    if depth == 0 {
                        self.config_mut().trim_text_start = trim;
                        __brk = start..end_; break;
                    }
                    depth -= 1;
                }
                Ok(Event::Eof) => {
                    self.config_mut().trim_text_start = trim;
                    return Err(Error::missed_end(end, self.decoder()));
                }
                _ => (),
            }
        }
        __brk })
    }
}

} // verus!
fn main() {}
