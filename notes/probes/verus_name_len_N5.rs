use vstd::prelude::*;
verus! {
/// Rust: every slice has at most isize::MAX bytes (trusted, A-size)
pub broadcast axiom fn axiom_slice_len<T>(s: &[T]) ensures #[trigger] s@.len() <= usize::MAX;
pub open spec fn spec_is_ws(b: u8) -> bool { b == 0x20 || b == 0x0d || b == 0x0a || b == 0x09 }
pub const fn is_whitespace(b: u8) -> (r: bool) ensures r == spec_is_ws(b) { matches!(b, b' ' | b'\r' | b'\n' | b'\t') }
pub open spec fn spec_name_len(s: Seq<u8>) -> nat decreases s.len() {
    if s.len() == 0 || spec_is_ws(s[0]) { 0 } else { 1 + spec_name_len(s.subrange(1, s.len() as int)) }
}
// ===== real text of src/utils.rs name_len, N5 applied (slice pattern -> split_first) =====
pub fn name_len(mut bytes: &[u8]) -> (r: usize)
    ensures r == spec_name_len(bytes@), r <= bytes@.len()
{
    let ghost b0 = bytes@;
    proof { axiom_slice_len(bytes); }
    assert(b0.subrange(0, b0.len() as int) =~= b0);
    // Note: A pattern matching based approach (instead of indexing) allows
    // making the function const.
    let mut len = 0;
    loop
        invariant b0.len() <= usize::MAX, len + bytes@.len() == b0.len(), bytes@ == b0.subrange(len as int, b0.len() as int),
            spec_name_len(b0) == len + spec_name_len(bytes@),
        ensures spec_name_len(bytes@) == 0,
        decreases bytes@.len()
    { match bytes.split_first() { Some((first, rest)) => {
        if is_whitespace(*first) {
            break;
        }
        len += 1;
        proof { assert(rest@ =~= b0.subrange(len as int, b0.len() as int)); }
        bytes = rest;
    }, _ => break } }
    len
}
} // verus!
fn main() {}
