use vstd::prelude::*;
use std::collections::VecDeque;
use core::num::NonZeroUsize;
verus! {

pub struct DeEvent { pub id: u64 }
pub enum DeError { TooManyEvents(NonZeroUsize), Other }
pub struct XmlReader { pub future: Ghost<Seq<DeEvent>> }
impl XmlReader {
    #[verifier::external_body]
    pub fn next(&mut self) -> (r: Result<DeEvent, DeError>)
        ensures match r { Ok(e) => old(self).future@.len() > 0 && e == old(self).future@[0] && final(self).future@ == old(self).future@.subrange(1, old(self).future@.len() as int),
                          Err(_) => final(self).future@ == old(self).future@ }
    { unimplemented!() }
}

pub struct Deserializer {
    pub reader: XmlReader,
    pub read: VecDeque<DeEvent>,
    pub write: VecDeque<DeEvent>,
    pub limit: Option<NonZeroUsize>,
}

impl Deserializer {
    /// events still to be delivered, in document order
    pub open spec fn pending(&self) -> Seq<DeEvent> { self.read@ + self.reader.future@ }
    /// events skipped and held for replay
    pub open spec fn held(&self) -> Seq<DeEvent> { self.write@ }

    // ===== real text: src/de/mod.rs (feature overlapped-lists) =====
    fn next(&mut self) -> (r: Result<DeEvent, DeError>)
        ensures final(self).held() == old(self).held(), final(self).limit == old(self).limit,
            match r {
                Ok(e) => old(self).pending().len() > 0 && e == old(self).pending()[0]
                    && final(self).pending() == old(self).pending().subrange(1, old(self).pending().len() as int),
                Err(_) => final(self).pending() == old(self).pending(),
            }
    {
        // Replay skipped or peeked events
        if let Some(event) = self.read.pop_front() {
            proof { assert(self.pending() =~= old(self).pending().subrange(1, old(self).pending().len() as int)); }
            return Ok(event);
        }
        let r = self.reader.next();
        proof { if r is Ok { assert(self.pending() =~= old(self).pending().subrange(1, old(self).pending().len() as int)); } else { assert(self.pending() =~= old(self).pending()); } }
        r
    }

    fn skip_checkpoint(&self) -> (r: usize) ensures r == self.held().len() {
        self.write.len()
    }

    fn skip_event(&mut self, event: DeEvent) -> (r: Result<(), DeError>)
        ensures final(self).pending() == old(self).pending(), final(self).limit == old(self).limit,
            match r {
                Ok(_) => final(self).held() == old(self).held().push(event)
                    && (old(self).limit matches Some(max) ==> old(self).held().len() < max.get()),
                Err(e) => final(self).held() == old(self).held()
                    && (old(self).limit matches Some(max) && old(self).held().len() >= max.get() && e == DeError::TooManyEvents(max)),
            }
    {
        if let Some(max) = self.limit {
            if self.write.len() >= max.get() {
                return Err(DeError::TooManyEvents(max));
            }
        }
        self.write.push_back(event);
        Ok(())
    }

    fn start_replay(&mut self, checkpoint: usize)
        requires checkpoint <= old(self).held().len()
        ensures
            final(self).pending() == old(self).held().subrange(checkpoint as int, old(self).held().len() as int) + old(self).pending(),
            final(self).held() == old(self).held().subrange(0, checkpoint as int),
            final(self).limit == old(self).limit,
    {
        if checkpoint == 0 {
            self.write.append(&mut self.read);
            std::mem::swap(&mut self.read, &mut self.write);
        } else {
            let mut read = self.write.split_off(checkpoint);
            read.append(&mut self.read);
            self.read = read;
        }
        proof {
            assert(self.pending() =~= old(self).held().subrange(checkpoint as int, old(self).held().len() as int) + old(self).pending());
            assert(self.held() =~= old(self).held().subrange(0, checkpoint as int));
        }
    }
}

} // verus!
fn main() {}
