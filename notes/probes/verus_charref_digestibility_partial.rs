use vstd::prelude::*;
verus! {

pub enum ParseCharRefError { UnexpectedSign, InvalidNumber(core::num::ParseIntError), InvalidCodepoint(u32), IllegalCharacter(u32) }

fn parse_number(num: &str) -> Result<char, ParseCharRefError> {
    let code = if let Some(hex) = num.strip_prefix('x') {
        from_str_radix(hex, 16)?
    } else {
        from_str_radix(num, 10)?
    };
    if code == 0 {
        return Err(ParseCharRefError::IllegalCharacter(code));
    }
    match std::char::from_u32(code) {
        Some(c) => Ok(c),
        None => Err(ParseCharRefError::InvalidCodepoint(code)),
    }
}

fn from_str_radix(src: &str, radix: u32) -> Result<u32, ParseCharRefError> {
    match src.as_bytes().first().copied() {
        // We should not allow sign numbers, but u32::from_str_radix will accept `+`.
        // We also handle `-` to be consistent in returned errors
        Some(b'+') | Some(b'-') => Err(ParseCharRefError::UnexpectedSign),
        _ => u32::from_str_radix(src, radix).map_err(|e| ParseCharRefError::InvalidNumber(e)),
    }
}

} // verus!
fn main() {}
