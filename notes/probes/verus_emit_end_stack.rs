#![feature(slice_pattern)]
#![feature(allocator_api)]
use vstd::prelude::*;
use std::alloc::Allocator;
verus! {

// ---------------- assumed std contracts ----------------
pub assume_specification<'a, T: PartialEq, P: core::slice::SlicePattern<Item = T> + ?Sized> [<[T]>::strip_suffix] (s: &'a [T], suffix: &P) -> (r: Option<&'a [T]>);
pub uninterp spec fn spec_items<'a, T: 'a, I: IntoIterator<Item = &'a T>>(i: I) -> Seq<T>;
pub assume_specification<'a, T: Copy + 'a, A: Allocator, I: IntoIterator<Item = &'a T>> [<Vec<T, A> as Extend<&'a T>>::extend] (v: &mut Vec<T, A>, i: I)
    ensures final(v)@ == old(v)@ + spec_items::<T, I>(i);
pub broadcast axiom fn axiom_items_slice<'a, T>(s: &'a [T]) ensures #[trigger] spec_items::<T, &'a [T]>(s) == s@;

pub open spec fn spec_is_ws(b: u8) -> bool { b == 0x20 || b == 0x0d || b == 0x0a || b == 0x09 }
pub const fn is_whitespace(b: u8) -> (r: bool) ensures r == spec_is_ws(b) { matches!(b, b' ' | b'\r' | b'\n' | b'\t') }
pub open spec fn spec_name_len(s: Seq<u8>) -> nat decreases s.len() {
    if s.len() == 0 || spec_is_ws(s[0]) { 0 } else { 1 + spec_name_len(s.subrange(1, s.len() as int)) }
}
#[verifier::external_body]
pub fn name_len(bytes: &[u8]) -> (r: usize) ensures r == spec_name_len(bytes@), r <= bytes@.len() { unimplemented!() }

pub mod shim {
    use vstd::prelude::*;
    /// contract of `s.iter().rposition(f)` (std: search from the back, index from the front)
    pub fn rposition<F: Fn(u8) -> bool>(s: &[u8], f: F) -> (r: Option<usize>)
        requires forall|b: u8| f.requires((b,)),
        ensures match r {
            Some(i) => i < s@.len() && f.ensures((s@[i as int],), true)
                && forall|j: int| i < j < s@.len() ==> f.ensures((#[trigger] s@[j],), false),
            None => forall|j: int| 0 <= j < s@.len() ==> f.ensures((#[trigger] s@[j],), false),
        }
    {
        let mut i = s.len();
        while i > 0
            invariant i <= s@.len(), forall|b: u8| f.requires((b,)),
                forall|j: int| i <= j < s@.len() ==> f.ensures((#[trigger] s@[j],), false),
            decreases i
        {
            i = i - 1;
            if f(s[i]) { return Some(i); }
        }
        None
    }
}

// ---------------- crate-local shims ----------------
#[derive(Clone, Copy)]
pub struct Decoder {}
pub uninterp spec fn dec(s: Seq<u8>) -> Seq<char>;
pub struct DecodedString { pub s: Ghost<Seq<char>> }
impl Decoder {
    #[verifier::external_body]
    pub fn decode_owned(&self, bytes: &[u8]) -> (r: DecodedString) ensures r.s@ == dec(bytes@) { unimplemented!() }
}
pub struct QName<'a>(pub &'a [u8]);
impl<'a> QName<'a> { pub fn as_ref(&self) -> (r: &'a [u8]) ensures r@ == self.0@ { self.0 } }
pub struct BytesStart<'a> { pub buf: &'a [u8], pub name_len: usize }
impl<'a> BytesStart<'a> {
    pub fn wrap(content: &'a [u8], name_len: usize) -> (r: Self) ensures r.buf@ == content@, r.name_len == name_len { BytesStart { buf: content, name_len } }
    pub fn name(&self) -> (r: QName) requires self.name_len <= self.buf@.len() ensures r.0@ == self.buf@.subrange(0, self.name_len as int) { QName(&self.buf[..self.name_len]) }
}
pub struct BytesEnd { pub name: Vec<u8> }
impl BytesEnd {
    pub fn wrap_borrowed(name: &[u8]) -> (r: Self) ensures r.name@ == name@ { let mut v = Vec::new(); v.extend_from_slice(name); BytesEnd { name: v } }
    pub fn wrap_owned(name: Vec<u8>) -> (r: Self) ensures r.name@ == name@ { BytesEnd { name } }
}
pub enum Event<'a> { Start(BytesStart<'a>), Empty(BytesStart<'a>), End(BytesEnd) }
pub enum IllFormedError { MismatchedEndTag { expected: DecodedString, found: DecodedString }, UnmatchedEndTag(DecodedString) }
pub enum Error { IllFormed(IllFormedError) }
pub type Result<T> = core::result::Result<T, Error>;
pub enum ParseState { Init, InsideMarkup, InsideText, InsideEmpty, Done }
pub struct Config {
    pub allow_unmatched_ends: bool, pub check_end_names: bool, pub expand_empty_elements: bool,
    pub trim_markup_names_in_closing_tags: bool,
}

pub struct ReaderState {
    pub offset: u64,
    pub last_error_offset: u64,
    pub state: ParseState,
    pub config: Config,
    pub opened_buffer: Vec<u8>,
    pub opened_starts: Vec<usize>,
}

// ---------------- spec vocabulary: abstract stack of open names ----------------
impl ReaderState {
    pub open spec fn wf(&self) -> bool {
        &&& forall|i: int| 0 <= i < self.opened_starts@.len() ==> self.opened_starts@[i] <= self.opened_buffer@.len()
        &&& forall|i: int, j: int| 0 <= i <= j < self.opened_starts@.len() ==> self.opened_starts@[i] <= self.opened_starts@[j]
    }
    pub open spec fn name_at(&self, i: int) -> Seq<u8> {
        let lo = self.opened_starts@[i] as int;
        let hi = if i + 1 < self.opened_starts@.len() { self.opened_starts@[i + 1] as int } else { self.opened_buffer@.len() as int };
        self.opened_buffer@.subrange(lo, hi)
    }
    pub open spec fn stack(&self) -> Seq<Seq<u8>> {
        Seq::new(self.opened_starts@.len(), |i: int| self.name_at(i))
    }
    pub const fn decoder(&self) -> Decoder { Decoder {} }
}
pub open spec fn trimmed_end(s: Seq<u8>) -> Seq<u8> decreases s.len() {
    if s.len() == 0 { s } else if spec_is_ws(s.last()) { trimmed_end(s.drop_last()) } else { s }
}
/// XML: ETag ::= '</' Name S? '>' ; with trimming the name is the content without trailing S;
/// an all-whitespace content is left as is (code behaviour, statement silent).
pub open spec fn end_name(content: Seq<u8>, trim: bool) -> Seq<u8> {
    if trim && trimmed_end(content).len() > 0 { trimmed_end(content) } else { content }
}

proof fn lemma_trimmed_end(s: Seq<u8>, p: int)
    requires 0 <= p < s.len(), !spec_is_ws(s[p]), forall|j: int| p < j < s.len() ==> spec_is_ws(s[j])
    ensures trimmed_end(s) == s.subrange(0, p + 1)
    decreases s.len()
{
    if spec_is_ws(s.last()) {
        lemma_trimmed_end(s.drop_last(), p);
        assert(s.drop_last().subrange(0, p + 1) =~= s.subrange(0, p + 1));
    } else {
        assert(p == s.len() - 1);
        assert(s.subrange(0, p + 1) =~= s);
    }
}
proof fn lemma_trimmed_end_all_ws(s: Seq<u8>)
    requires forall|j: int| 0 <= j < s.len() ==> spec_is_ws(s[j])
    ensures trimmed_end(s).len() == 0
    decreases s.len()
{
    if s.len() > 0 { lemma_trimmed_end_all_ws(s.drop_last()); }
}

impl ReaderState {
    proof fn lemma_pop_truncate(pre: &ReaderState, post: &ReaderState)
        requires pre.wf(), pre.opened_starts@.len() > 0,
            post.opened_starts@ == pre.opened_starts@.drop_last(),
            post.opened_buffer@ == pre.opened_buffer@.subrange(0, pre.opened_starts@.last() as int),
        ensures post.wf(), post.stack() == pre.stack().drop_last()
    {
        let n = pre.opened_starts@.len() as int;
        assert forall|i: int| 0 <= i < n - 1 implies post.name_at(i) == pre.name_at(i) by {
            assert(pre.opened_starts@[i] <= pre.opened_starts@[i + 1]);
            assert(pre.opened_starts@[i + 1] <= pre.opened_starts@[n - 1]);
            assert(post.name_at(i) =~= pre.name_at(i));
        }
        assert(post.stack() =~= pre.stack().drop_last());
        assert forall|i: int| 0 <= i < post.opened_starts@.len() implies post.opened_starts@[i] <= post.opened_buffer@.len() by {
            assert(pre.opened_starts@[i] <= pre.opened_starts@[n - 1]);
        }
    }

    // ===== real text of src/reader/state.rs ReaderState::emit_end (N2, N6, N7; decode(..).unwrap_or_default().into_owned() abbreviated by the prelude's decode_owned) =====
    pub fn emit_end<'b>(&mut self, buf: &'b [u8]) -> (r: Result<Event<'b>>)
        requires
            old(self).wf(), buf@.len() >= 1, buf@[0] == 0x2f,
            old(self).offset >= buf@.len() + 2,
        ensures
            final(self).wf(), final(self).offset == old(self).offset, final(self).config == old(self).config,
            ({
                let s = old(self).stack();
                let name = end_name(buf@.subrange(1, buf@.len() as int), old(self).config.trim_markup_names_in_closing_tags);
                if s.len() > 0 {
                    &&& final(self).stack() == s.drop_last()
                    &&& if !old(self).config.check_end_names || name == s.last() {
                            r matches Ok(Event::End(e)) && e.name@ == name
                        } else {
                            r matches Err(Error::IllFormed(IllFormedError::MismatchedEndTag { expected, found }))
                                && expected.s@ == dec(s.last()) && found.s@ == dec(name)
                                && final(self).last_error_offset == old(self).offset - buf@.len() - 2
                        }
                } else {
                    &&& final(self).stack() == s
                    &&& if old(self).config.allow_unmatched_ends {
                            r matches Ok(Event::End(e)) && e.name@ == name
                        } else {
                            r matches Err(Error::IllFormed(IllFormedError::UnmatchedEndTag(found))) && found.s@ == dec(name)
                                && final(self).last_error_offset == old(self).offset - buf@.len() - 2
                        }
                }
            }),
    {
        assert!(buf.first() == Some(&b'/'));

        // Strip the `/` character. `content` contains data between `</` and `>`
        let content = &buf[1..];
        // XML standard permits whitespaces after the markup name in closing tags.
        // Let's strip them from the buffer before comparing tag names.
        let name = if self.config.trim_markup_names_in_closing_tags {
            if let Some(pos_end_name) = shim::rposition(content, |b: u8| -> (r: bool) ensures r == !spec_is_ws(b) { !is_whitespace(b) }) {
                proof { lemma_trimmed_end(content@, pos_end_name as int); }
                &content[..pos_end_name + 1]
            } else {
                proof { lemma_trimmed_end_all_ws(content@); }
                content
            }
        } else {
            content
        };

        assert(name@ == end_name(buf@.subrange(1, buf@.len() as int), self.config.trim_markup_names_in_closing_tags));
        let decoder = self.decoder();

        // Get the index in self.opened_buffer of the name of the last opened tag
        match self.opened_starts.pop() {
            Some(start) => {
                if self.config.check_end_names {
                    let expected = &self.opened_buffer[start..];
                    assert(expected@ == old(self).stack().last());
                    if name != expected {
                        let expected = decoder.decode_owned(expected);
                        // #513: In order to allow error recovery we should drop content of the buffer
                        self.opened_buffer.truncate(start);

                        // Report error at start of the end tag at `<` character
                        // -2 for `<` and `>`
                        self.last_error_offset = self.offset - buf.len() as u64 - 2;
                        proof { Self::lemma_pop_truncate(old(self), self); }
                        return Err(Error::IllFormed(IllFormedError::MismatchedEndTag {
                            expected,
                            found: decoder.decode_owned(name),
                        }));
                    }
                    proof { assert(name@ =~= expected@); }
                }

                self.opened_buffer.truncate(start);
                proof { Self::lemma_pop_truncate(old(self), self); }
            }
            None => {
                if !self.config.allow_unmatched_ends {
                    // Report error at start of the end tag at `<` character
                    // -2 for `<` and `>`
                    self.last_error_offset = self.offset - buf.len() as u64 - 2;
                    proof { assert(self.stack() =~= old(self).stack()); }
                    return Err(Error::IllFormed(IllFormedError::UnmatchedEndTag(
                        decoder.decode_owned(name),
                    )));
                }
                proof { assert(self.stack() =~= old(self).stack()); }
            }
        }

        Ok(Event::End(BytesEnd::wrap_borrowed(name)))
    }
}

} // verus!
fn main() {}
