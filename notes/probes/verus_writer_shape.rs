use vstd::prelude::*;
use std::ops::Deref;
verus! {

pub struct BytesStart<'a> { pub buf: &'a [u8], pub name_len: usize }
impl<'a> Deref for BytesStart<'a> {
    type Target = [u8];
    fn deref(&self) -> (r: &[u8]) ensures r@ == self.buf@ { self.buf }
}
pub struct BytesText<'a> { pub content: &'a [u8] }
impl<'a> Deref for BytesText<'a> {
    type Target = [u8];
    fn deref(&self) -> (r: &[u8]) ensures r@ == self.content@ { self.content }
}
pub enum Event<'a> { Start(BytesStart<'a>), Text(BytesText<'a>), Eof }

pub struct Sink { pub out: Vec<u8> }
impl Sink {
    pub fn write_all(&mut self, v: &[u8]) -> (r: core::result::Result<(), ()>)
        ensures final(self).out@ == old(self).out@ + v@, r.is_ok()
    { self.out.extend_from_slice(v); Ok(()) }
}
pub struct Indentation { pub should_line_break: bool }
pub struct Writer { pub writer: Sink, pub indent: Option<Indentation> }

impl Writer {
    pub fn write_event<'a, E: Into<Event<'a>>>(&mut self, event: E) -> core::result::Result<(), ()> {
        let mut next_should_line_break = true;
        let result = match event.into() {
            Event::Start(e) => {
                let result = self.write_wrapped(b"<", &e, b">");
                result
            }
            Event::Text(e) => {
                next_should_line_break = false;
                self.write(&e)
            }
            Event::Eof => Ok(()),
        };
        if let Some(i) = self.indent.as_mut() {
            i.should_line_break = next_should_line_break;
        }
        result
    }
    pub fn write(&mut self, value: &[u8]) -> core::result::Result<(), ()> {
        self.writer.write_all(value).map_err(Into::into)
    }
    fn write_wrapped(&mut self, before: &[u8], value: &[u8], after: &[u8]) -> core::result::Result<(), ()> {
        if let Some(ref i) = self.indent {
            if i.should_line_break {
                self.writer.write_all(b"\n")?;
            }
        }
        self.write(before)?;
        self.write(value)?;
        self.write(after)?;
        Ok(())
    }
}

} // verus!
fn main() {}
