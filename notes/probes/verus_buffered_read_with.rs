use vstd::prelude::*;
verus! {

pub mod io {
    use vstd::prelude::*;
    #[derive(Clone, Copy)]
    pub enum ErrorKind { Interrupted, Other }
    impl vstd::std_specs::cmp::PartialEqSpecImpl for ErrorKind {
        open spec fn obeys_eq_spec() -> bool { true }
        open spec fn eq_spec(&self, o: &Self) -> bool { *self == *o }
    }
    impl PartialEq for ErrorKind {
        fn eq(&self, o: &Self) -> bool {
            match (self, o) { (ErrorKind::Interrupted, ErrorKind::Interrupted) => true, (ErrorKind::Other, ErrorKind::Other) => true, _ => false }
        }
    }
    pub struct Error { pub k: ErrorKind }
    impl Error { pub fn kind(&self) -> (r: ErrorKind) ensures r == self.k { self.k } }
    pub type Result<T> = core::result::Result<T, Error>;
}
pub enum SyntaxError { UnclosedTag, UnclosedPIOrXmlDecl }
pub enum Error { Io(io::Error), Syntax(SyntaxError) }
pub type Result<T> = core::result::Result<T, Error>;

/// real trait text (src/parser/mod.rs) + spec methods, laws and the contract of `feed`
pub trait Parser: Sized {
    spec fn end(&self, bytes: Seq<u8>) -> Option<int>;
    spec fn after(&self, bytes: Seq<u8>) -> Self;
    proof fn law_bounds(&self, s: Seq<u8>)
        ensures self.end(s) matches Some(i) ==> 0 <= i < s.len();
    proof fn law_concat(&self, a: Seq<u8>, b: Seq<u8>)
        ensures
            self.end(a + b) == (match self.end(a) {
                Some(i) => Some(i),
                None => match self.after(a).end(b) { Some(j) => Some(a.len() + j), None => None },
            }),
            self.end(a) is None ==> self.after(a + b) == self.after(a).after(b);
    proof fn law_empty(&self)
        ensures self.end(Seq::<u8>::empty()) is None, self.after(Seq::<u8>::empty()) == *self;

    fn feed(&mut self, bytes: &[u8]) -> (r: Option<usize>)
        ensures match r {
            Some(i) => old(self).end(bytes@) == Some(i as int),
            None => old(self).end(bytes@) is None && *final(self) == old(self).after(bytes@),
        };
    fn eof_error() -> SyntaxError;
}

/// Model of BufRead (assumed): arbitrary non-empty prefix, finite interrupts, arbitrary other error
pub struct Src { pub data: Vec<u8>, pub pos: usize, pub intr: Ghost<nat> }
impl Src {
    pub open spec fn wf(&self) -> bool { self.pos <= self.data@.len() }
    pub open spec fn rest(&self) -> Seq<u8> { self.data@.subrange(self.pos as int, self.data@.len() as int) }
    #[verifier::external_body]
    pub fn fill_buf(&mut self) -> (r: io::Result<&[u8]>)
        requires old(self).wf()
        ensures final(self).wf(), final(self).data == old(self).data, final(self).pos == old(self).pos,
            match r {
                Ok(n) => n@.len() <= usize::MAX && n@.len() <= old(self).rest().len() && n@ == old(self).rest().subrange(0, n@.len() as int)
                         && (n@.len() == 0 ==> old(self).rest().len() == 0) && final(self).intr == old(self).intr,
                Err(e) => if e.k == io::ErrorKind::Interrupted { final(self).intr@ < old(self).intr@ } else { final(self).intr == old(self).intr },
            }
    { unimplemented!() }
    pub fn consume(&mut self, amt: usize)
        requires old(self).wf(), amt <= old(self).rest().len()
        ensures final(self).wf(), final(self).data == old(self).data, final(self).pos == old(self).pos + amt, final(self).intr == old(self).intr
    { let n = self.data.len(); self.pos = self.pos + amt; }
}

impl Src {
        // ===== real text: impl_buffered_source!() :: read_with, sync instantiation =====
        #[verifier::loop_isolation(false)]
        fn read_with<'b, P: Parser>(
            &mut self,
            mut parser: P,
            buf: &'b mut Vec<u8>,
            position: &mut u64,
        ) -> (res: Result<&'b [u8]>)
            requires old(self).wf(), *old(position) + old(self).rest().len() <= u64::MAX,
            ensures
                final(self).wf(), final(self).data == old(self).data,
                match res {
                    Ok(bytes) => {
                        &&& parser.end(old(self).rest()) == Some(bytes@.len() as int)
                        &&& bytes@ == old(self).rest().subrange(0, bytes@.len() as int)
                        &&& final(buf)@ == old(buf)@ + bytes@
                        &&& final(self).pos == old(self).pos + bytes@.len() + 1
                        &&& *final(position) == *old(position) + bytes@.len() + 1
                    },
                    Err(Error::Syntax(_)) => {
                        &&& parser.end(old(self).rest()) is None
                        &&& final(self).pos == old(self).data@.len()
                        &&& *final(position) == *old(position) + old(self).rest().len()
                    },
                    Err(Error::Io(e)) => {
                        &&& *final(position) == *old(position) + (final(self).pos - old(self).pos)
                    },
                },
        {
            let ghost r0 = self.rest();
            let ghost p0 = parser;
            proof { p0.law_empty(); assert(r0.subrange(0, 0) =~= Seq::<u8>::empty()); }
            let mut read = 0;
            let start = buf.len();
            loop
                invariant
                    self.wf(), self.data == old(self).data, old(self).pos <= self.pos,
                    read == self.pos - old(self).pos,
                    *position == *old(position),
                    buf@ == old(buf)@ + r0.subrange(0, read as int),
                    start == old(buf)@.len(),
                    p0.end(r0.subrange(0, read as int)) is None,
                    parser == p0.after(r0.subrange(0, read as int)),
                    r0 == old(self).rest(),
                decreases self.rest().len() + self.intr@
            {
                let available = match self.fill_buf() {
                    Ok(n) if n.is_empty() => break,
                    Ok(n) => n,
                    Err(ref e) if e.kind() == io::ErrorKind::Interrupted => continue,
                    Err(e) => {
                        *position += read;
                        return Err(Error::Io(e.into()));
                    }
                };
                proof {
                    let c = r0.subrange(0, read as int);
                    assert(c + available@ =~= r0.subrange(0, read + available@.len()));
                    p0.law_concat(c, available@);
                    p0.law_concat(r0.subrange(0, read + available@.len()), r0.subrange(read + available@.len(), r0.len() as int));
                    assert(r0.subrange(0, read + available@.len()) + r0.subrange(read + available@.len(), r0.len() as int) =~= r0);
                    parser.law_bounds(available@);
                }

                let ghost pre = parser;
                if let Some(i) = parser.feed(available) {
                    proof { pre.law_bounds(available@); }
                    buf.extend_from_slice(&available[..i]);

                    // +1 for `>` which we do not include
                    self.consume(i + 1);
                    read += i as u64 + 1;

                    *position += read;
                    proof {
                        assert(r0.subrange(0, (read - i - 1) as int) + available@.subrange(0, i as int) =~= r0.subrange(0, (read - 1) as int));
                    }
                    return Ok(&buf[start..]);
                }

                // The `>` symbol not yet found, continue reading
                buf.extend_from_slice(available);

                let used = available.len();
                self.consume(used);
                read += used as u64;
            }

            *position += read;
            proof { assert(r0.subrange(0, read as int) =~= r0); }
            Err(Error::Syntax(P::eof_error()))
        }
}

} // verus!
fn main() {}
