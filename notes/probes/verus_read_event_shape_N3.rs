use vstd::prelude::*;
verus! {
pub enum ParseState { Init, InsideMarkup, InsideText, InsideEmpty, Done }
pub enum Event { Text(u8), End, Eof }
pub enum Error { IllFormed(u8), Syntax }
pub struct St { pub state: ParseState, pub n: u8 }
pub struct Rd { pub state: St }
impl Rd {
    fn read_until_close(&mut self, buf: ()) -> core::result::Result<Event, Error> { Ok(Event::End) }
    fn read_event_impl(&mut self, mut buf: ()) -> core::result::Result<Event, Error> {
        let event; loop
            decreases 0int
        {
            event = match self.state.state {
                ParseState::Init => {
                    self.state.state = ParseState::InsideText;
                    continue;
                },
                ParseState::InsideText => {
                    if self.state.n > 3 {
                        self.state.state = ParseState::InsideMarkup;
                        buf = ();
                        continue;
                    }
                    self.state.state = ParseState::Done;
                    Ok(Event::Text(1))
                },
                ParseState::InsideMarkup => self.read_until_close(buf),
                ParseState::InsideEmpty => Ok(Event::End),
                ParseState::Done => Ok(Event::Eof),
            }; break;
        }
        match event {
            Err(Error::IllFormed(_)) => {}
            Err(_) | Ok(Event::Eof) => self.state.state = ParseState::Done,
            _ => {}
        }
        event
    }
}
} // verus!
fn main() {}
