use vstd::prelude::*;
use std::ops::Deref;
verus! {

// ---------- prelude: Sink model of io::Write (assumed), event shims ----------
pub mod io { pub struct Error {} pub type Result<T> = core::result::Result<T, Error>; }
pub struct Sink { pub out: Vec<u8>, pub failed: bool }
impl Sink {
    /// io::Write::write_all: on Ok the bytes were appended in order; on Err a prefix may have been written
    #[verifier::external_body]
    pub fn write_all(&mut self, v: &[u8]) -> (r: io::Result<()>)
        ensures match r {
            Ok(_) => final(self).out@ == old(self).out@ + v@,
            Err(_) => exists|k: int| 0 <= k <= v@.len() && final(self).out@ == old(self).out@ + v@.subrange(0, k),
        }
    { unimplemented!() }
}


pub struct BytesStart<'a> { pub content: &'a [u8] }
impl<'a> Deref for BytesStart<'a> { type Target = [u8]; fn deref(&self) -> (r: &[u8]) ensures r@ == self.content@ { self.content } }
pub struct BytesEnd<'a> { pub content: &'a [u8] }
impl<'a> Deref for BytesEnd<'a> { type Target = [u8]; fn deref(&self) -> (r: &[u8]) ensures r@ == self.content@ { self.content } }
pub struct BytesText<'a> { pub content: &'a [u8] }
impl<'a> Deref for BytesText<'a> { type Target = [u8]; fn deref(&self) -> (r: &[u8]) ensures r@ == self.content@ { self.content } }
pub struct BytesCData<'a> { pub content: &'a [u8] }
impl<'a> Deref for BytesCData<'a> { type Target = [u8]; fn deref(&self) -> (r: &[u8]) ensures r@ == self.content@ { self.content } }
pub struct BytesDecl<'a> { pub content: &'a [u8] }
impl<'a> Deref for BytesDecl<'a> { type Target = [u8]; fn deref(&self) -> (r: &[u8]) ensures r@ == self.content@ { self.content } }
pub struct BytesPI<'a> { pub content: &'a [u8] }
impl<'a> Deref for BytesPI<'a> { type Target = [u8]; fn deref(&self) -> (r: &[u8]) ensures r@ == self.content@ { self.content } }
pub enum Event<'a> {
    Start(BytesStart<'a>), End(BytesEnd<'a>), Empty(BytesStart<'a>), Text(BytesText<'a>), CData(BytesCData<'a>),
    Comment(BytesText<'a>), Decl(BytesDecl<'a>), PI(BytesPI<'a>), DocType(BytesText<'a>), Eof,
}

// ---------- spec vocabulary ----------
pub open spec fn payload(e: Event) -> Seq<u8> {
    match e {
        Event::Start(x) => x.content@, Event::End(x) => x.content@, Event::Empty(x) => x.content@, Event::Text(x) => x.content@,
        Event::CData(x) => x.content@, Event::Comment(x) => x.content@, Event::Decl(x) => x.content@, Event::PI(x) => x.content@,
        Event::DocType(x) => x.content@, Event::Eof => Seq::empty(),
    }
}
/// what the plain writer must emit (XML delimiters around the payload)
pub open spec fn render(e: Event) -> Seq<u8> {
    match e {
        Event::Start(x) => seq![0x3cu8] + x.content@ + seq![0x3eu8],
        Event::End(x) => seq![0x3cu8, 0x2fu8] + x.content@ + seq![0x3eu8],
        Event::Empty(x) => seq![0x3cu8] + x.content@ + seq![0x2fu8, 0x3eu8],
        Event::Text(x) => x.content@,
        Event::Comment(x) => seq![0x3cu8, 0x21u8, 0x2du8, 0x2du8] + x.content@ + seq![0x2du8, 0x2du8, 0x3eu8],
        Event::CData(x) => seq![0x3cu8, 0x21, 0x5b, 0x43, 0x44, 0x41, 0x54, 0x41, 0x5b] + x.content@ + seq![0x5du8, 0x5d, 0x3e],
        Event::Decl(x) => seq![0x3cu8, 0x3f] + x.content@ + seq![0x3fu8, 0x3e],
        Event::PI(x) => seq![0x3cu8, 0x3f] + x.content@ + seq![0x3fu8, 0x3e],
        Event::DocType(x) => seq![0x3cu8, 0x21, 0x44, 0x4f, 0x43, 0x54, 0x59, 0x50, 0x45, 0x20] + x.content@ + seq![0x3eu8],
        Event::Eof => Seq::empty(),
    }
}
pub open spec fn is_markup(e: Event) -> bool { !(e is Text || e is CData || e is Eof) }

// ===== real text: src/writer.rs Indentation =====
pub struct Indentation {
    pub should_line_break: bool,
    pub indent_char: u8,
    pub indent_size: usize,
    pub indents: Vec<u8>,
    pub current_indent_len: usize,
}
impl Indentation {
    pub open spec fn inv(&self) -> bool {
        &&& self.current_indent_len <= self.indents@.len()
        &&& forall|i: int| 0 <= i < self.indents@.len() ==> self.indents@[i] == self.indent_char
    }
    pub fn grow(&mut self)
        requires old(self).inv(), old(self).current_indent_len + old(self).indent_size <= usize::MAX
        ensures final(self).inv(), final(self).current_indent_len == old(self).current_indent_len + old(self).indent_size,
            final(self).indent_char == old(self).indent_char, final(self).indent_size == old(self).indent_size, final(self).should_line_break == old(self).should_line_break
    {
        self.current_indent_len += self.indent_size;
        self.ensure(self.current_indent_len);
    }
    pub fn shrink(&mut self)
        requires old(self).inv()
        ensures final(self).inv(), final(self).indent_char == old(self).indent_char, final(self).indent_size == old(self).indent_size, final(self).should_line_break == old(self).should_line_break,
            final(self).current_indent_len == if old(self).current_indent_len >= old(self).indent_size { old(self).current_indent_len - old(self).indent_size } else { 0 }
    {
        self.current_indent_len = self.current_indent_len.saturating_sub(self.indent_size);
    }
    pub fn current(&self) -> (r: &[u8])
        requires self.inv()
        ensures r@.len() == self.current_indent_len, forall|i: int| 0 <= i < r@.len() ==> r@[i] == self.indent_char
    {
        &self.indents[..self.current_indent_len]
    }
    fn ensure(&mut self, new_len: usize)
        requires forall|i: int| 0 <= i < old(self).indents@.len() ==> old(self).indents@[i] == old(self).indent_char
        ensures final(self).indents@.len() >= new_len, final(self).indents@.len() >= old(self).indents@.len(),
            forall|i: int| 0 <= i < final(self).indents@.len() ==> final(self).indents@[i] == final(self).indent_char,
            final(self).indent_char == old(self).indent_char, final(self).indent_size == old(self).indent_size,
            final(self).current_indent_len == old(self).current_indent_len, final(self).should_line_break == old(self).should_line_break
    {
        if self.indents.len() < new_len {
            self.indents.resize(new_len, self.indent_char);
            proof {
                let n0 = old(self).indents@.len() as int;
                assert(self.indents@.subrange(0, n0) == old(self).indents@);
                assert forall|i: int| 0 <= i < self.indents@.len() implies self.indents@[i] == self.indent_char by {
                    if i < n0 { assert(self.indents@[i] == self.indents@.subrange(0, n0)[i]); }
                }
            }
        }
    }
}

pub struct Writer { pub writer: Sink, pub indent: Option<Indentation> }

impl Writer {
    pub open spec fn inv(&self) -> bool { self.indent matches Some(i) ==> i.inv() && i.current_indent_len + i.indent_size <= usize::MAX }
    /// the only bytes indentation may add: "\n" + indent chars, and only before markup when the flag is set
    pub open spec fn pre(&self, e: Event) -> Seq<u8> {
        match self.indent {
            Some(i) => if i.should_line_break && is_markup(e) {
                // an End tag is indented at the level of its Start tag, i.e. after shrinking
                let lvl = if e is End { if i.current_indent_len >= i.indent_size { (i.current_indent_len - i.indent_size) as nat } else { 0nat } } else { i.current_indent_len as nat };
                seq![0x0au8] + Seq::new(lvl, |k: int| i.indent_char)
            } else { Seq::empty() },
            None => Seq::empty(),
        }
    }

    // ===== real text: src/writer.rs Writer::write_event / write / write_wrapped (N8) =====
    pub fn write_event<'a>(&mut self, event: Event<'a>) -> (res: io::Result<()>)
        requires old(self).inv(),
            // depth bound so that `grow` cannot overflow usize (A-size for the writer)
            old(self).indent matches Some(i) ==> i.current_indent_len + 2 * i.indent_size <= usize::MAX,
        ensures
            res is Ok ==> final(self).writer.out@ == old(self).writer.out@ + old(self).pre(event) + render(event),
            old(self).indent is None ==> final(self).indent is None,
            res is Ok ==> (old(self).indent matches Some(i0) ==> (final(self).indent matches Some(i1)
                && i1.inv() && i1.indent_char == i0.indent_char && i1.indent_size == i0.indent_size
                && i1.should_line_break == !(event is Text || event is CData)
                && i1.current_indent_len as int == (if event is Start { i0.current_indent_len + i0.indent_size }
                      else if event is End { if i0.current_indent_len >= i0.indent_size { i0.current_indent_len - i0.indent_size } else { 0int } }
                      else { i0.current_indent_len as int }))),
    {
        let mut next_should_line_break = true;
        let result = match event {
            Event::Start(e) => {
                let result = self.write_wrapped(&[b'<'], &e, &[b'>']);
                if let Some(i) = self.indent.as_mut() {
                    i.grow();
                }
                result
            }
            Event::End(e) => {
                if let Some(i) = self.indent.as_mut() {
                    i.shrink();
                }
                self.write_wrapped(&[b'<', b'/'], &e, &[b'>'])
            }
            Event::Empty(e) => self.write_wrapped(&[b'<'], &e, &[b'/', b'>']),
            Event::Text(e) => {
                next_should_line_break = false;
                self.write(&e)
            }
            Event::Comment(e) => self.write_wrapped(&[b'<', b'!', b'-', b'-'], &e, &[b'-', b'-', b'>']),
            Event::CData(e) => {
                next_should_line_break = false;
                self.write(&[b'<', b'!', b'[', b'C', b'D', b'A', b'T', b'A', b'['])?;
                self.write(&e)?;
                self.write(&[b']', b']', b'>'])
            }
            Event::Decl(e) => self.write_wrapped(&[b'<', b'?'], &e, &[b'?', b'>']),
            Event::PI(e) => self.write_wrapped(&[b'<', b'?'], &e, &[b'?', b'>']),
            Event::DocType(e) => self.write_wrapped(&[b'<', b'!', b'D', b'O', b'C', b'T', b'Y', b'P', b'E', b' '], &e, &[b'>']),
            Event::Eof => Ok(()),
        };
        if let Some(i) = self.indent.as_mut() {
            i.should_line_break = next_should_line_break;
        }
        result
    }

    pub(crate) fn write(&mut self, value: &[u8]) -> (r: io::Result<()>)
        ensures final(self).indent == old(self).indent,
            r is Ok ==> final(self).writer.out@ == old(self).writer.out@ + value@,
    {
        self.writer.write_all(value).map_err(Into::into)
    }

    fn write_wrapped(&mut self, before: &[u8], value: &[u8], after: &[u8]) -> (r: io::Result<()>)
        requires old(self).inv()
        ensures final(self).indent == old(self).indent,
            r is Ok ==> final(self).writer.out@ == old(self).writer.out@
                + (match old(self).indent { Some(i) => if i.should_line_break { seq![0x0au8] + Seq::new(i.current_indent_len as nat, |k: int| i.indent_char) } else { Seq::empty() }, None => Seq::empty() })
                + before@ + value@ + after@,
    {
        if let Some(ref i) = self.indent {
            if i.should_line_break {
                self.writer.write_all(&[b'\n'])?;
                self.writer.write_all(i.current())?;
            }
        }
        self.write(before)?;
        self.write(value)?;
        self.write(after)?;
        Ok(())
    }
}

} // verus!
fn main() {}
