use vstd::prelude::*;
verus! {
fn g() {
    let x = b"--";
    assert(x@.len() == 2);
    assert(x@[0] == 0x2d);
}
fn h() {
    let y: &[u8; 2] = &[b'-', b'-'];
    assert(y@.len() == 2);
    assert(y@[0] == 0x2d);
}
fn f(s: &[u8]) -> (r: bool)
    ensures r <==> (s@.len() >= 2 && s@[s@.len() - 1] == 0x2d && s@[s@.len() - 2] == 0x2d),
{
    let r = s.ends_with(&[b'-', b'-']);
    proof {
        let n = seq![0x2du8, 0x2du8];
        if r { assert(n.is_suffix_of(s@)); }
    }
    r
}
} // verus!
fn main() {}
