use vstd::prelude::*;
verus! {

pub mod memchr {
    use vstd::prelude::*;
    pub open spec fn is_needle3(n1: u8, n2: u8, n3: u8, b: u8) -> bool { b == n1 || b == n2 || b == n3 }
    pub struct Memchr3<'h> { pub n1: u8, pub n2: u8, pub n3: u8, pub hay: &'h [u8], pub pos: usize }
    impl<'h> Memchr3<'h> {
        pub open spec fn wf(&self) -> bool { self.pos <= self.hay@.len() }
        pub fn next(&mut self) -> (r: Option<usize>)
            requires old(self).wf()
            ensures
                final(self).wf(), final(self).hay == old(self).hay,
                final(self).n1 == old(self).n1, final(self).n2 == old(self).n2, final(self).n3 == old(self).n3,
                match r {
                    Some(i) => old(self).pos <= i < old(self).hay@.len()
                        && is_needle3(old(self).n1, old(self).n2, old(self).n3, old(self).hay@[i as int])
                        && final(self).pos == i + 1
                        && forall|j: int| old(self).pos <= j < i ==> !is_needle3(old(self).n1, old(self).n2, old(self).n3, old(self).hay@[j]),
                    None => final(self).pos == old(self).hay@.len()
                        && forall|j: int| old(self).pos <= j < old(self).hay@.len() ==> !is_needle3(old(self).n1, old(self).n2, old(self).n3, old(self).hay@[j]),
                }
        {
            while self.pos < self.hay.len()
                invariant self.wf(), self.hay == old(self).hay, self.n1 == old(self).n1, self.n2 == old(self).n2, self.n3 == old(self).n3,
                    old(self).pos <= self.pos,
                    forall|j: int| old(self).pos <= j < self.pos ==> !is_needle3(self.n1, self.n2, self.n3, self.hay@[j]),
                decreases self.hay@.len() - self.pos
            {
                let p = self.pos;
                self.pos = p + 1;
                let b = self.hay[p];
                if b == self.n1 || b == self.n2 || b == self.n3 { return Some(p); }
            }
            None
        }
    }
    pub fn memchr3_iter<'h>(n1: u8, n2: u8, n3: u8, hay: &'h [u8]) -> (r: Memchr3<'h>)
        ensures r.pos == 0, r.hay == hay, r.n1 == n1, r.n2 == n2, r.n3 == n3, r.wf()
    { Memchr3 { n1, n2, n3, hay, pos: 0 } }
}

pub enum SyntaxError { UnclosedTag }

#[derive(Clone, Copy)]
pub enum ElementParser { Outside, SingleQ, DoubleQ }

// ---- spec vocabulary: quote automaton (from the XML grammar: AttValue ::= '"' [^"]* '"' | "'" [^']* "'") ----
pub open spec fn q_step(q: ElementParser, b: u8) -> ElementParser {
    match q {
        ElementParser::Outside => if b == 0x27 { ElementParser::SingleQ } else if b == 0x22 { ElementParser::DoubleQ } else { ElementParser::Outside },
        ElementParser::SingleQ => if b == 0x27 { ElementParser::Outside } else { ElementParser::SingleQ },
        ElementParser::DoubleQ => if b == 0x22 { ElementParser::Outside } else { ElementParser::DoubleQ },
    }
}
pub open spec fn tag_end(q: ElementParser, s: Seq<u8>) -> Option<int> decreases s.len() {
    if s.len() == 0 { None }
    else if q is Outside && s[0] == 0x3e { Some(0int) }
    else { match tag_end(q_step(q, s[0]), s.subrange(1, s.len() as int)) { Some(i) => Some(i + 1), None => None } }
}
pub open spec fn q_after(q: ElementParser, s: Seq<u8>) -> ElementParser decreases s.len() {
    if s.len() == 0 { q } else { q_after(q_step(q, s[0]), s.subrange(1, s.len() as int)) }
}

proof fn lemma_concat(q: ElementParser, a: Seq<u8>, b: Seq<u8>)
    ensures
        tag_end(q, a + b) == (match tag_end(q, a) {
            Some(i) => Some(i),
            None => match tag_end(q_after(q, a), b) { Some(j) => Some(a.len() + j), None => None },
        }),
        tag_end(q, a) is None ==> q_after(q, a + b) == q_after(q_after(q, a), b),
    decreases a.len()
{
    if a.len() == 0 {
        assert(a + b =~= b);
    } else {
        let a1 = a.subrange(1, a.len() as int);
        assert((a + b).subrange(1, (a + b).len() as int) =~= a1 + b);
        assert((a + b)[0] == a[0]);
        if !(q is Outside && a[0] == 0x3e) {
            lemma_concat(q_step(q, a[0]), a1, b);
        }
    }
}
proof fn lemma_bounds(q: ElementParser, s: Seq<u8>)
    ensures tag_end(q, s) matches Some(i) ==> 0 <= i < s.len()
    decreases s.len()
{
    if s.len() > 0 && !(q is Outside && s[0] == 0x3e) { lemma_bounds(q_step(q, s[0]), s.subrange(1, s.len() as int)); }
}
/// bytes that are none of `>`, `'`, `"` neither end the tag nor change the quote state
proof fn lemma_plain(q: ElementParser, s: Seq<u8>)
    requires forall|j: int| 0 <= j < s.len() ==> !memchr::is_needle3(0x3e, 0x27, 0x22, s[j])
    ensures tag_end(q, s) is None, q_after(q, s) == q
    decreases s.len()
{
    if s.len() > 0 { lemma_plain(q, s.subrange(1, s.len() as int)); }
}
proof fn lemma_one(q: ElementParser, b: u8)
    ensures tag_end(q, seq![b]) == (if q is Outside && b == 0x3e { Some(0int) } else { None }),
            q_after(q, seq![b]) == q_step(q, b),
{
    reveal_with_fuel(tag_end, 2); reveal_with_fuel(q_after, 2);
    assert(seq![b].subrange(1, 1) =~= Seq::<u8>::empty());
}

impl ElementParser {
    // ===== real text of src/parser/element.rs ElementParser::feed (N1 applied) =====
    #[verifier::loop_isolation(false)]
    #[verifier::allow_complex_invariants]
    fn feed(&mut self, bytes: &[u8]) -> (r: Option<usize>)
        ensures match r {
            Some(i) => tag_end(*old(self), bytes@) == Some(i as int),
            None => tag_end(*old(self), bytes@) is None && *final(self) == q_after(*old(self), bytes@),
        }
    {
        let ghost q0 = *self;
        let mut __it = memchr::memchr3_iter(b'>', b'\'', b'"', bytes);
        loop
            invariant_except_break __it.wf(), __it.hay == bytes, __it.n1 == 0x3e, __it.n2 == 0x27, __it.n3 == 0x22,
                tag_end(q0, bytes@.subrange(0, __it.pos as int)) is None,
                *self == q_after(q0, bytes@.subrange(0, __it.pos as int)),
            ensures tag_end(q0, bytes@) is None, *self == q_after(q0, bytes@),
            decreases bytes@.len() - __it.pos
        { let ghost p_old = __it.pos; match __it.next() { None => { proof {
            let done = bytes@.subrange(0, p_old as int);
            let plain = bytes@.subrange(p_old as int, bytes@.len() as int);
            lemma_plain(*self, plain);
            lemma_concat(q0, done, plain);
            assert(done + plain =~= bytes@);
        } break }, Some(i) => {
            proof {
                let done = bytes@.subrange(0, p_old as int);
                let plain = bytes@.subrange(p_old as int, i as int);
                lemma_plain(*self, plain);
                lemma_concat(q0, done, plain);
                assert(done + plain =~= bytes@.subrange(0, i as int));
                lemma_one(*self, bytes@[i as int]);
                lemma_concat(q0, bytes@.subrange(0, i as int), seq![bytes@[i as int]]);
                assert(bytes@.subrange(0, i as int) + seq![bytes@[i as int]] =~= bytes@.subrange(0, i + 1));
                lemma_concat(q0, bytes@.subrange(0, i + 1), bytes@.subrange(i + 1, bytes@.len() as int));
                assert(bytes@.subrange(0, i + 1) + bytes@.subrange(i + 1, bytes@.len() as int) =~= bytes@);
            }
            *self = match (*self, bytes[i]) {
                // only allowed to match `>` while we are in state `Outside`
                (Self::Outside, b'>') => return Some(i),
                (Self::Outside, b'\'') => Self::SingleQ,
                (Self::Outside, b'\"') => Self::DoubleQ,

                // the only end_byte that gets us out if the same character
                (Self::SingleQ, b'\'') | (Self::DoubleQ, b'"') => Self::Outside,

                // all other bytes: no state change
                _ => continue,
            };
        }}}
        None
    }
}

} // verus!
fn main() {}
