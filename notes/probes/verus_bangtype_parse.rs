use vstd::prelude::*;
verus! {

// ---------- prelude: memchr reference (verified against its contract) ----------
pub mod memchr {
    use vstd::prelude::*;
    pub struct Memchr<'h> { pub needle: u8, pub hay: &'h [u8], pub pos: usize }
    impl<'h> Memchr<'h> {
        pub open spec fn wf(&self) -> bool { self.pos <= self.hay@.len() }
        pub fn next(&mut self) -> (r: Option<usize>)
            requires old(self).wf()
            ensures
                final(self).wf(), final(self).hay == old(self).hay, final(self).needle == old(self).needle,
                match r {
                    Some(i) => old(self).pos <= i < old(self).hay@.len() && old(self).hay@[i as int] == old(self).needle
                        && final(self).pos == i + 1
                        && forall|j: int| old(self).pos <= j < i ==> old(self).hay@[j] != old(self).needle,
                    None => final(self).pos == old(self).hay@.len()
                        && forall|j: int| old(self).pos <= j < old(self).hay@.len() ==> old(self).hay@[j] != old(self).needle,
                }
        {
            while self.pos < self.hay.len()
                invariant self.wf(), self.hay == old(self).hay, self.needle == old(self).needle,
                    old(self).pos <= self.pos,
                    forall|j: int| old(self).pos <= j < self.pos ==> self.hay@[j] != self.needle,
                decreases self.hay@.len() - self.pos
            {
                let p = self.pos;
                self.pos = p + 1;
                if self.hay[p] == self.needle { return Some(p); }
            }
            None
        }
    }
    pub fn memchr_iter<'h>(needle: u8, hay: &'h [u8]) -> (r: Memchr<'h>)
        ensures r.pos == 0, r.hay == hay, r.needle == needle, r.wf()
    { Memchr { needle, hay, pos: 0 } }
}

// ---------- spec vocabulary (from the XML grammar, not from the code) ----------
/// `t` are the bytes after `<` (t[0] == '!'). A comment terminator is a `>` at index k>=5
/// preceded by `--` (so that `<!-->` and `<!--->` are NOT complete comments).
pub open spec fn comment_term(t: Seq<u8>, k: int) -> bool {
    5 <= k < t.len() && t[k] == 0x3e && t[k - 1] == 0x2d && t[k - 2] == 0x2d
}
pub open spec fn cdata_term(t: Seq<u8>, k: int) -> bool {
    2 <= k < t.len() && t[k] == 0x3e && t[k - 1] == 0x5d && t[k - 2] == 0x5d
}

pub enum BangType { CData, Comment, DocType(i32) }

impl BangType {
    // ===== real text of src/reader/mod.rs BangType::parse (Comment + CData arms), N1 applied, annotations spliced =====
    #[verifier::loop_isolation(false)]
    fn parse<'b>(&mut self, buf: &[u8], chunk: &'b [u8]) -> (r: Option<(&'b [u8], usize)>)
        requires
            buf@.len() + chunk@.len() <= usize::MAX,
            *old(self) is Comment ==> forall|k: int| 0 <= k < buf@.len() ==> !comment_term(buf@ + chunk@, k),
            *old(self) is CData ==> forall|k: int| 0 <= k < buf@.len() ==> !cdata_term(buf@ + chunk@, k),
        ensures
            *old(self) is Comment ==> match r {
                Some((content, used)) => {
                    let k = buf@.len() + used - 1;
                    &&& 1 <= used <= chunk@.len()
                    &&& comment_term(buf@ + chunk@, k)
                    &&& forall|j: int| 0 <= j < k ==> !comment_term(buf@ + chunk@, j)
                    &&& content@ == chunk@.subrange(0, used - 1)
                },
                None => forall|j: int| 0 <= j < buf@.len() + chunk@.len() ==> !comment_term(buf@ + chunk@, j),
            },
            *old(self) is CData ==> match r {
                Some((content, used)) => {
                    let k = buf@.len() + used - 1;
                    &&& 1 <= used <= chunk@.len()
                    &&& cdata_term(buf@ + chunk@, k)
                    &&& forall|j: int| 0 <= j < k ==> !cdata_term(buf@ + chunk@, j)
                    &&& content@ == chunk@.subrange(0, used - 1)
                },
                None => forall|j: int| 0 <= j < buf@.len() + chunk@.len() ==> !cdata_term(buf@ + chunk@, j),
            },
    {
        let ghost t = buf@ + chunk@;
        match self {
            Self::Comment => {
                let mut __it = memchr::memchr_iter(b'>', chunk);
                loop
                    invariant __it.wf(), __it.hay == chunk, __it.needle == 0x3e, t == buf@ + chunk@, *self == *old(self),
                        buf@.len() + chunk@.len() <= usize::MAX,
                        forall|k: int| 0 <= k < buf@.len() + __it.pos ==> !comment_term(t, k),
                    decreases chunk@.len() - __it.pos
                { match __it.next() { None => break, Some(i) => {
                    // Need to read at least 6 symbols (`!---->`) for properly finished comment
                    // <!----> - XML comment
                    //  012345 - i
                    if buf.len() + i > 4 {
                        if chunk[..i].ends_with(&[b'-', b'-']) {

                            // We cannot strip last `--` from the buffer because we need it in case of
                            // check_comments enabled option. XML standard requires that comment
                            // will not end with `--->` sequence because this is a special case of
                            // `--` in the comment (https://www.w3.org/TR/xml11/#sec-comments)
                            return Some((&chunk[..i], i + 1)); // +1 for `>`
                        }
                        // End sequence `-|->` was splitted at |
                        //        buf --/   \-- chunk
                        if i == 1 && buf.ends_with(&[b'-']) && chunk[0] == b'-' {
                            return Some((&chunk[..i], i + 1)); // +1 for `>`
                        }
                        // End sequence `--|>` was splitted at |
                        //         buf --/   \-- chunk
                        if i == 0 && buf.ends_with(&[b'-', b'-']) {
                            return Some((&[], i + 1)); // +1 for `>`
                        }
                    }
                }}}
            }
            Self::CData => {
                let mut __it = memchr::memchr_iter(b'>', chunk);
                loop
                    invariant __it.wf(), __it.hay == chunk, __it.needle == 0x3e, t == buf@ + chunk@, *self == *old(self),
                        buf@.len() + chunk@.len() <= usize::MAX,
                        forall|k: int| 0 <= k < buf@.len() + __it.pos ==> !cdata_term(t, k),
                    decreases chunk@.len() - __it.pos
                { match __it.next() { None => break, Some(i) => {
                    if chunk[..i].ends_with(&[b']', b']']) {
                        return Some((&chunk[..i], i + 1)); // +1 for `>`
                    }
                    // End sequence `]|]>` was splitted at |
                    //        buf --/   \-- chunk
                    if i == 1 && buf.ends_with(&[b']']) && chunk[0] == b']' {
                        return Some((&chunk[..i], i + 1)); // +1 for `>`
                    }
                    // End sequence `]]|>` was splitted at |
                    //         buf --/   \-- chunk
                    if i == 0 && buf.ends_with(&[b']', b']']) {
                        return Some((&[], i + 1)); // +1 for `>`
                    }
                }}}
            }
            Self::DocType(ref mut balance) => {}
        }
        None
    }
}

} // verus!
fn main() {}
