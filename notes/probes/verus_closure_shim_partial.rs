use vstd::prelude::*;
verus! {

pub open spec fn spec_is_ws(b: u8) -> bool { b == 0x20 || b == 0x0d || b == 0x0a || b == 0x09 }

pub const fn is_whitespace(b: u8) -> (r: bool)
    ensures r == spec_is_ws(b)
{
    matches!(b, b' ' | b'\r' | b'\n' | b'\t')
}

pub mod shim {
    use vstd::prelude::*;
    /// contract of `<[u8]>::iter().rposition(f)` for a pure predicate on the byte value
    pub fn rposition<F: Fn(u8) -> bool>(s: &[u8], f: F) -> (r: Option<usize>)
        requires forall|b: u8| f.requires((b,)),
        ensures match r {
            Some(i) => i < s@.len() && f.ensures((s@[i as int],), true)
                && forall|j: int| i < j < s@.len() ==> f.ensures((s@[j],), false),
            None => forall|j: int| 0 <= j < s@.len() ==> f.ensures((s@[j],), false),
        }
    {
        let mut i = s.len();
        while i > 0
            invariant i <= s@.len(), forall|b: u8| f.requires((b,)),
                forall|j: int| i <= j < s@.len() ==> f.ensures((s@[j],), false),
            decreases i
        {
            i = i - 1;
            if f(s[i]) { return Some(i); }
        }
        None
    }
}

pub assume_specification<T, U, F: FnOnce(T) -> U> [Option::<T>::map_or] (o: Option<T>, default: U, f: F) -> (r: U)
    requires o.is_some() ==> f.requires((o.unwrap(),)),
    ensures match o { None => r == default, Some(x) => f.ensures((x,), r) };

pub open spec fn trimmed_end_len(s: Seq<u8>) -> nat decreases s.len() {
    if s.len() == 0 { 0 } else if spec_is_ws(s.last()) { trimmed_end_len(s.drop_last()) } else { s.len() }
}

fn emit_text_len(bytes: &[u8]) -> (len: usize)
    ensures len == trimmed_end_len(bytes@)
{
            let len = shim::rposition(bytes, |b: u8| -> (r: bool) ensures r == !spec_is_ws(b) { !is_whitespace(b) })
                .map_or(0, |p: usize| -> (r: usize) requires p < usize::MAX ensures r == p + 1 { p + 1 });
            len
}

} // verus!
fn main() {}
