use vstd::prelude::*;
verus! {

pub mod memchr {
    use vstd::prelude::*;
    pub open spec fn first_at(hay: Seq<u8>, n: u8, i: int) -> bool {
        0 <= i < hay.len() && hay[i] == n && forall|j: int| 0 <= j < i ==> hay[j] != n
    }
    pub fn memchr(needle: u8, hay: &[u8]) -> (r: Option<usize>)
        ensures match r { Some(i) => first_at(hay@, needle, i as int), None => forall|j: int| 0 <= j < hay@.len() ==> hay@[j] != needle }
    {
        let mut i = 0;
        while i < hay.len()
            invariant i <= hay@.len(), forall|j: int| 0 <= j < i ==> hay@[j] != needle
            decreases hay@.len() - i
        { if hay[i] == needle { return Some(i); } i += 1; }
        None
    }
}
pub assume_specification<'a, T: Copy> [core::option::Option::<&'a T>::copied] (o: Option<&'a T>) -> (r: Option<T>)
    ensures r == match o { Some(x) => Some(*x), None => None };
pub mod io { pub struct Error {} pub type Result<T> = core::result::Result<T, Error>; }
pub enum SyntaxError { UnclosedTag, UnclosedPIOrXmlDecl }
pub enum Error { Io(io::Error), Syntax(SyntaxError) }
pub type Result<T> = core::result::Result<T, Error>;

pub trait Parser: Sized {
    fn feed(&mut self, bytes: &[u8]) -> (r: Option<usize>)
        ensures r.is_some() ==> r.unwrap() < bytes@.len();
    fn eof_error() -> SyntaxError;
}

pub enum ReadTextResult<'r, B> {
    Markup(B),
    UpToMarkup(&'r [u8]),
    UpToEof(&'r [u8]),
    Err(io::Error),
}

trait XmlSource<'r, B> {
    fn read_text(&mut self, buf: B, position: &mut u64) -> ReadTextResult<'r, B>;
    fn read_with<P>(&mut self, parser: P, buf: B, position: &mut u64) -> Result<&'r [u8]>
    where
        P: Parser;
    fn peek_one(&mut self) -> io::Result<Option<u8>>;
}

impl<'a> XmlSource<'a, ()> for &'a [u8] {
    fn read_text(&mut self, _buf: (), position: &mut u64) -> ReadTextResult<'a, ()> {
        match memchr::memchr(b'<', self) {
            Some(0) => {
                *position += 1;
                *self = &self[1..];
                ReadTextResult::Markup(())
            }
            Some(i) => {
                *position += i as u64 + 1;
                let bytes = &self[..i];
                *self = &self[i + 1..];
                ReadTextResult::UpToMarkup(bytes)
            }
            None => {
                *position += self.len() as u64;
                let bytes = &self[..];
                *self = &[];
                ReadTextResult::UpToEof(bytes)
            }
        }
    }

    fn read_with<P>(&mut self, mut parser: P, _buf: (), position: &mut u64) -> Result<&'a [u8]>
    where
        P: Parser,
    {
        if let Some(i) = parser.feed(self) {
            // +1 for `>` which we do not include
            *position += i as u64 + 1;
            let bytes = &self[..i];
            *self = &self[i + 1..];
            return Ok(bytes);
        }

        *position += self.len() as u64;
        Err(Error::Syntax(P::eof_error()))
    }

    fn peek_one(&mut self) -> io::Result<Option<u8>> {
        Ok(self.first().copied())
    }
}

} // verus!
fn main() {}
