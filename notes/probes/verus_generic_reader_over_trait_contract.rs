use vstd::prelude::*;
verus! {

pub mod io { pub struct Error {} pub type Result<T> = core::result::Result<T, Error>; }
pub enum SyntaxError { UnclosedTag, UnclosedPIOrXmlDecl }
pub enum Error { Io(io::Error), Syntax(SyntaxError) }
pub type Result<T> = core::result::Result<T, Error>;

pub open spec fn first_gt(s: Seq<u8>) -> Option<int> decreases s.len() {
    if s.len() == 0 { None } else if s[0] == 0x3e { Some(0int) } else {
        match first_gt(s.subrange(1, s.len() as int)) { Some(i) => Some(i + 1), None => None } }
}

/// trait declaration = real text + spec method + contracts (annotation)
pub trait XmlSource<'r, B> {
    spec fn remaining(&self) -> Seq<u8>;

    fn read_tag(&mut self, buf: B, position: &mut u64) -> (r: Result<&'r [u8]>)
        requires *old(position) + old(self).remaining().len() <= u64::MAX,
        ensures match r {
            Ok(bytes) => {
                &&& first_gt(old(self).remaining()) == Some(bytes@.len() as int)
                &&& bytes@ == old(self).remaining().subrange(0, bytes@.len() as int)
                &&& final(self).remaining() == old(self).remaining().subrange(bytes@.len() as int + 1, old(self).remaining().len() as int)
                &&& *final(position) == *old(position) + bytes@.len() + 1
            },
            Err(Error::Syntax(_)) => first_gt(old(self).remaining()) is None && *final(position) == *old(position) + old(self).remaining().len(),
            Err(Error::Io(_)) => *old(position) <= *final(position) <= *old(position) + old(self).remaining().len(),
        };

    fn peek_one(&mut self) -> (r: io::Result<Option<u8>>)
        ensures final(self).remaining() == old(self).remaining(),
            match r { Ok(Some(b)) => old(self).remaining().len() > 0 && b == old(self).remaining()[0],
                      Ok(None) => old(self).remaining().len() == 0, Err(_) => true };
}

pub enum ParseState { InsideMarkup, InsideText, Done }
pub struct ReaderState { pub offset: u64, pub last_error_offset: u64, pub state: ParseState }
pub struct BytesStart<'a> { pub buf: &'a [u8] }
pub enum Event<'a> { Start(BytesStart<'a>), Eof }
impl ReaderState {
    pub fn emit_start<'b>(&mut self, content: &'b [u8]) -> (r: Event<'b>)
        ensures final(self).offset == old(self).offset, final(self).last_error_offset == old(self).last_error_offset,
            r matches Event::Start(e) && e.buf@ == content@
    { Event::Start(BytesStart { buf: content }) }
}
pub struct Reader<R> { pub reader: R, pub state: ReaderState }

impl<R> Reader<R> {
    // shape of read_until_close!(self, buf, self.reader), reduced to the start-tag arm
    fn read_until_close<'i, B>(&mut self, buf: B) -> (r: Result<Event<'i>>)
    where
        R: XmlSource<'i, B>,
        requires old(self).state.offset >= 1, old(self).state.offset + old(self).reader.remaining().len() <= u64::MAX,
        ensures
            final(self).state.offset >= old(self).state.offset,
            final(self).state.last_error_offset <= final(self).state.offset || final(self).state.last_error_offset == old(self).state.last_error_offset,
            match r {
                Ok(Event::Start(e)) => first_gt(old(self).reader.remaining()) == Some(e.buf@.len() as int),
                _ => true,
            }
    {
        self.state.state = ParseState::InsideText;

        let start = self.state.offset;
        match self.reader.peek_one() {
            // `<...` - opening or self-closed tag
            Ok(Some(_)) => match self.reader
                .read_tag(buf, &mut self.state.offset)
            {
                Ok(bytes) => Ok(self.state.emit_start(bytes)),
                Err(e) => {
                    // We want to report error at `<`, but offset was increased,
                    // so return it back (-1 for `<`)
                    self.state.last_error_offset = start - 1;
                    Err(e)
                }
            },
            // `<` - syntax error, tag not closed
            Ok(None) => {
                // We want to report error at `<`, but offset was increased,
                // so return it back (-1 for `<`)
                self.state.last_error_offset = start - 1;
                Err(Error::Syntax(SyntaxError::UnclosedTag))
            }
            Err(e) => Err(Error::Io(e.into())),
        }
    }
}

} // verus!
fn main() {}
