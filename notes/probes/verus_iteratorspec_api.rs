use vstd::prelude::*;
use vstd::std_specs::iter::IteratorSpec;
verus! {
fn f1(bytes: &[u8]) {
    let mut iter = bytes.iter();
    assert(IteratorSpec::obeys_prophetic_iter_laws(&iter));
    assert(bytes@.len() > 0 ==> IteratorSpec::peek(&iter, 0) == Some(&bytes@[0]));
    assert(bytes@.len() > 2 ==> IteratorSpec::peek(&iter, 2) == Some(&bytes@[2]));
    assert(IteratorSpec::peek(&iter, bytes@.len() as int) is None);
    let x = iter.next();
    assert(bytes@.len() > 0 ==> x == Some(&bytes@[0]));
    assert(bytes@.len() > 1 ==> IteratorSpec::peek(&iter, 0) == Some(&bytes@[1]));
}
} // verus!
fn main() {}
