use vstd::prelude::*;
verus! {

// ---------- prelude shims (assumed contracts; in the real unit these come from U-reader / U-ns resolver) ----------
pub struct QName<'a>(pub &'a [u8]);
pub struct BytesStart {}
pub struct BytesEnd {}
pub enum Event { Start(BytesStart), Empty(BytesStart), End(BytesEnd), Text, Eof }
pub struct Error {}
pub type Result<T> = core::result::Result<T, Error>;
pub type Span = core::ops::Range<u64>;

pub struct NamespaceResolver { pub nesting_level: i32 }
impl NamespaceResolver {
    #[verifier::external_body]
    pub fn push(&mut self, start: &BytesStart) -> (r: core::result::Result<(), Error>)
        requires old(self).nesting_level < i32::MAX
        ensures final(self).nesting_level == old(self).nesting_level + 1
    { unimplemented!() }
    #[verifier::external_body]
    pub fn pop(&mut self)
        requires old(self).nesting_level >= 1
        ensures final(self).nesting_level == old(self).nesting_level - 1
    { unimplemented!() }
}

/// Abstract of Reader<R>: `depth` = opened_starts.len() (U-state view)
pub struct Reader { pub depth: Ghost<int>, pub inside_empty: Ghost<bool> }
impl Reader {
    #[verifier::external_body]
    pub fn read_event_impl(&mut self, buf: ()) -> (r: Result<Event>)
        ensures match r {
            Ok(Event::Start(_)) => final(self).depth@ == old(self).depth@ + 1,
            Ok(Event::End(_)) => final(self).depth@ == old(self).depth@ - 1 && old(self).depth@ >= 1,
            Ok(_) => final(self).depth@ == old(self).depth@,
            Err(_) => true,
        }
    { unimplemented!() }
    /// contract proved in U-reader (C12): on success exactly one more End than Start was consumed
    #[verifier::external_body]
    pub fn read_to_end(&mut self, end: QName) -> (r: Result<Span>)
        ensures r.is_ok() ==> final(self).depth@ == old(self).depth@ - 1 && old(self).depth@ >= 1
    { unimplemented!() }
}

pub struct NsReader {
    pub reader: Reader,
    pub ns_resolver: NamespaceResolver,
    pub pending_pop: bool,
}

impl NsReader {
    /// representation invariant (C05 scope discipline)
    pub open spec fn inv(&self) -> bool {
        &&& self.reader.depth@ >= 0
        &&& self.ns_resolver.nesting_level as int == self.reader.depth@ + (if self.pending_pop { 1int } else { 0int })
    }

    // ===== real text: src/reader/ns_reader.rs =====
    fn read_event_impl(&mut self, buf: ()) -> (r: Result<Event>)
        requires old(self).inv(), old(self).ns_resolver.nesting_level < i32::MAX - 2
        ensures r.is_ok() ==> final(self).inv()
    {
        self.pop();
        let event = self.reader.read_event_impl(buf);
        self.process_event(event)
    }

    fn pop(&mut self)
        requires old(self).inv()
        ensures final(self).inv(), !final(self).pending_pop, final(self).reader == old(self).reader, final(self).ns_resolver.nesting_level <= old(self).ns_resolver.nesting_level
    {
        if self.pending_pop {
            self.ns_resolver.pop();
            self.pending_pop = false;
        }
    }

    fn process_event(&mut self, event: Result<Event>) -> (r: Result<Event>)
        requires !old(self).pending_pop, old(self).ns_resolver.nesting_level < i32::MAX - 2,
        ensures final(self).reader == old(self).reader,
            match event {
                Ok(Event::Start(_)) => r.is_ok() ==> final(self).ns_resolver.nesting_level == old(self).ns_resolver.nesting_level + 1 && !final(self).pending_pop,
                Ok(Event::Empty(_)) => r.is_ok() ==> final(self).ns_resolver.nesting_level == old(self).ns_resolver.nesting_level + 1 && final(self).pending_pop,
                Ok(Event::End(_)) => final(self).ns_resolver.nesting_level == old(self).ns_resolver.nesting_level && final(self).pending_pop,
                _ => final(self).ns_resolver.nesting_level == old(self).ns_resolver.nesting_level && !final(self).pending_pop,
            },
            event.is_err() ==> r.is_err(),
    {
        match event {
            Ok(Event::Start(e)) => {
                self.ns_resolver.push(&e)?;
                Ok(Event::Start(e))
            }
            Ok(Event::Empty(e)) => {
                self.ns_resolver.push(&e)?;
                // notify next `read_event_impl()` invocation that it needs to pop this
                // namespace scope
                self.pending_pop = true;
                Ok(Event::Empty(e))
            }
            Ok(Event::End(e)) => {
                // notify next `read_event_impl()` invocation that it needs to pop this
                // namespace scope
                self.pending_pop = true;
                Ok(Event::End(e))
            }
            e => e,
        }
    }

    pub fn read_to_end(&mut self, end: QName) -> (r: Result<Span>)
        requires old(self).inv(), !old(self).pending_pop
        ensures r.is_ok() ==> final(self).inv()     // <- from the property: declarations stop applying once the element has ended
    {
        // According to the https://www.w3.org/TR/xml11/#dt-etag, end name should
        // match literally the start name. See `Config::check_end_names` documentation
        self.reader.read_to_end(end)
    }
}

} // verus!
fn main() {}
