#[cfg(kani)]
mod proofs {
    use quick_xml::parser::{ElementParser, Parser, PiParser};

    fn ref_tag_end(mut q: u8, s: &[u8]) -> Option<usize> {
        let mut i = 0;
        while i < s.len() {
            let b = s[i];
            if q == 0 { if b == b'>' { return Some(i); } if b == b'\'' { q = 1; } else if b == b'"' { q = 2; } }
            else if q == 1 { if b == b'\'' { q = 0; } }
            else { if b == b'"' { q = 0; } }
            i += 1;
        }
        None
    }

    #[kani::proof]
    #[kani::unwind(8)]
    fn element_feed_6() {
        let input: [u8; 6] = kani::any();
        let len: usize = kani::any();
        kani::assume(len <= 6);
        let q: u8 = kani::any();
        kani::assume(q < 3);
        let mut p = match q { 0 => ElementParser::Outside, 1 => ElementParser::SingleQ, _ => ElementParser::DoubleQ };
        let r = p.feed(&input[..len]);
        assert!(r == ref_tag_end(q, &input[..len]));
    }

    #[kani::proof]
    #[kani::unwind(8)]
    fn pi_feed_6() {
        let input: [u8; 6] = kani::any();
        let len: usize = kani::any();
        kani::assume(len <= 6);
        let prev: bool = kani::any();
        let mut p = PiParser(prev);
        let r = p.feed(&input[..len]);
        let s = &input[..len];
        let mut exp = None;
        let mut i = 0;
        while i < s.len() {
            if s[i] == b'>' && ((i > 0 && s[i-1] == b'?') || (i == 0 && prev)) { exp = Some(i); break; }
            i += 1;
        }
        assert!(r == exp);
        if r.is_none() { assert!(p.0 == (len > 0 && s[len-1] == b'?')); }
    }
}
