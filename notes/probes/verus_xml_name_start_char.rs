use vstd::prelude::*;
verus! {
pub open spec fn spec_start(c: char) -> bool {
    let u = c as u32;
    u == 0x3a || (0x41 <= u <= 0x5a) || u == 0x5f || (0x61 <= u <= 0x7a) || (0xc0 <= u <= 0xd6) || (0xd8 <= u <= 0xf6)
    || (0xf8 <= u <= 0x2ff) || (0x370 <= u <= 0x37d) || (0x37f <= u <= 0x1fff) || (0x200c <= u <= 0x200d)
    || (0x2070 <= u <= 0x218f) || (0x2c00 <= u <= 0x2fef) || (0x3001 <= u <= 0xd7ff) || (0xf900 <= u <= 0xfdcf)
    || (0xfdf0 <= u <= 0xfffd) || (0x10000 <= u <= 0xeffff)
}
const fn is_xml11_name_start_char(ch: char) -> (r: bool)
    ensures r == spec_start(ch)
{
    match ch {
        ':'
        | 'A'..='Z'
        | '_'
        | 'a'..='z'
        | '\u{00C0}'..='\u{00D6}'
        | '\u{00D8}'..='\u{00F6}'
        | '\u{00F8}'..='\u{02FF}'
        | '\u{0370}'..='\u{037D}'
        | '\u{037F}'..='\u{1FFF}'
        | '\u{200C}'..='\u{200D}'
        | '\u{2070}'..='\u{218F}'
        | '\u{2C00}'..='\u{2FEF}'
        | '\u{3001}'..='\u{D7FF}'
        | '\u{F900}'..='\u{FDCF}'
        | '\u{FDF0}'..='\u{FFFD}'
        | '\u{10000}'..='\u{EFFFF}' => true,
        _ => false,
    }
}
} // verus!
fn main() {}
