#![feature(slice_pattern)]
#![feature(allocator_api)]
use vstd::prelude::*;
use std::alloc::Allocator;
verus! {

pub assume_specification<'a, T: PartialEq, P: core::slice::SlicePattern<Item = T> + ?Sized> [<[T]>::strip_suffix] (s: &'a [T], suffix: &P) -> (r: Option<&'a [T]>)
;

pub uninterp spec fn spec_items<'a, T: 'a, I: IntoIterator<Item = &'a T>>(i: I) -> Seq<T>;
pub assume_specification<'a, T: Copy + 'a, A: Allocator, I: IntoIterator<Item = &'a T>> [<Vec<T, A> as Extend<&'a T>>::extend] (v: &mut Vec<T, A>, i: I)
    ensures final(v)@ == old(v)@ + spec_items::<T, I>(i);
pub broadcast axiom fn axiom_items_slice<'a, T>(s: &'a [T])
    ensures #[trigger] spec_items::<T, &'a [T]>(s) == s@;


// ---------- prelude shims (trusted) ----------
pub struct Decoder {}
pub struct QName<'a>(pub &'a [u8]);
impl<'a> QName<'a> {
    pub fn as_ref(&self) -> (r: &'a [u8]) ensures r@ == self.0@ { self.0 }
}
pub struct BytesStart<'a> { pub buf: &'a [u8], pub name_len: usize }
impl<'a> BytesStart<'a> {
    pub fn wrap(content: &'a [u8], name_len: usize) -> (r: Self)
        ensures r.buf@ == content@, r.name_len == name_len
    { BytesStart { buf: content, name_len } }
    pub fn name(&self) -> (r: QName)
        requires self.name_len <= self.buf@.len()
        ensures r.0@ == self.buf@.subrange(0, self.name_len as int)
    { QName(&self.buf[..self.name_len]) }
}
pub struct BytesEnd { pub name: Vec<u8> }
pub enum Event<'a> { Start(BytesStart<'a>), Empty(BytesStart<'a>), End(BytesEnd), Eof }
pub enum ParseState { Init, InsideMarkup, InsideText, InsideEmpty, Done }
pub struct Config { pub expand_empty_elements: bool, pub check_end_names: bool }

pub open spec fn spec_is_ws(b: u8) -> bool { b == 0x20 || b == 0x0d || b == 0x0a || b == 0x09 }
pub open spec fn spec_name_len(s: Seq<u8>) -> nat decreases s.len() {
    if s.len() == 0 || spec_is_ws(s[0]) { 0 } else { 1 + spec_name_len(s.subrange(1, s.len() as int)) }
}
#[verifier::external_body]
pub fn name_len(bytes: &[u8]) -> (r: usize) ensures r == spec_name_len(bytes@), r <= bytes@.len() { unimplemented!() }

pub struct ReaderState {
    pub offset: u64,
    pub state: ParseState,
    pub config: Config,
    pub opened_buffer: Vec<u8>,
    pub opened_starts: Vec<usize>,
}

impl ReaderState {
    pub fn emit_start<'b>(&mut self, content: &'b [u8]) -> Event<'b> {
        if let Some(content) = content.strip_suffix(b"/") {
            // This is self-closed tag `<something/>`
            let event = BytesStart::wrap(content, name_len(content));

            if self.config.expand_empty_elements {
                self.state = ParseState::InsideEmpty;
                self.opened_starts.push(self.opened_buffer.len());
                self.opened_buffer.extend(event.name().as_ref());
                Event::Start(event)
            } else {
                Event::Empty(event)
            }
        } else {
            let event = BytesStart::wrap(content, name_len(content));

            // #514: Always store names event when .check_end_names == false,
            // because checks can be temporary disabled and when they would be
            // enabled, we should have that information
            self.opened_starts.push(self.opened_buffer.len());
            self.opened_buffer.extend(event.name().as_ref());
            Event::Start(event)
        }
    }
}

} // verus!
fn main() {}
