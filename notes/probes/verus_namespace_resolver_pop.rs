use vstd::prelude::*;
verus! {

pub struct Prefix<'a>(pub &'a [u8]);
pub struct Namespace<'a>(pub &'a [u8]);
pub enum ResolveResult<'ns> { Unbound, Bound(Namespace<'ns>), Unknown(Vec<u8>) }

pub struct NamespaceEntry { pub start: usize, pub prefix_len: usize, pub value_len: usize, pub level: i32 }

pub mod shim {
    use vstd::prelude::*;
    /// contract of `s.iter().rposition(f)`
    pub fn rposition<T, F: Fn(&T) -> bool>(s: &[T], f: F) -> (r: Option<usize>)
        requires forall|x: &T| f.requires((x,)),
        ensures s@.len() <= usize::MAX, match r {
            Some(i) => i < s@.len() && f.ensures((&s@[i as int],), true)
                && forall|j: int| i < j < s@.len() ==> f.ensures((&#[trigger] s@[j],), false),
            None => forall|j: int| 0 <= j < s@.len() ==> f.ensures((&#[trigger] s@[j],), false),
        }
    {
        let mut i = s.len();
        while i > 0
            invariant i <= s@.len(), forall|x: &T| f.requires((x,)),
                forall|j: int| i <= j < s@.len() ==> f.ensures((&#[trigger] s@[j],), false),
            decreases i
        {
            i = i - 1;
            if f(&s[i]) { return Some(i); }
        }
        None
    }
}

pub broadcast axiom fn axiom_slice_len<T>(s: &[T]) ensures #[trigger] s@.len() <= usize::MAX;
pub struct NamespaceResolver { pub buffer: Vec<u8>, pub bindings: Vec<NamespaceEntry>, pub nesting_level: i32 }

impl NamespaceResolver {
    /// representation invariant: entries are laid out consecutively in `buffer`, levels are non-decreasing and <= nesting_level
    pub open spec fn wf(&self) -> bool {
        &&& forall|i: int| 0 <= i < self.bindings@.len() ==> (#[trigger] self.bindings@[i]).start + self.bindings@[i].prefix_len + self.bindings@[i].value_len <= self.buffer@.len()
        &&& forall|i: int, j: int| 0 <= i <= j < self.bindings@.len() ==> self.bindings@[i].level <= self.bindings@[j].level
        &&& forall|i: int, j: int| 0 <= i < j < self.bindings@.len() ==> self.bindings@[i].start + self.bindings@[i].prefix_len + self.bindings@[i].value_len <= self.bindings@[j].start
        &&& forall|i: int| 0 <= i < self.bindings@.len() ==> (#[trigger] self.bindings@[i]).level <= self.nesting_level
    }

    // ===== real text of src/name.rs NamespaceResolver::pop (N2 for rposition) =====
    pub fn pop(&mut self)
        requires old(self).wf(), old(self).nesting_level >= 1,
        ensures
            final(self).wf(),
            final(self).nesting_level == old(self).nesting_level - 1,
            // exactly the bindings declared at the popped level are removed
            ({ let k = final(self).bindings@.len() as int;
               &&& k <= old(self).bindings@.len()
               &&& final(self).bindings@ == old(self).bindings@.subrange(0, k)
               &&& forall|i: int| 0 <= i < k ==> (#[trigger] old(self).bindings@[i]).level <= final(self).nesting_level
               &&& forall|i: int| k <= i < old(self).bindings@.len() ==> (#[trigger] old(self).bindings@[i]).level > final(self).nesting_level }),
    {
        self.nesting_level -= 1;
        let current_level = self.nesting_level;
        // from the back (most deeply nested scope), look for the first scope that is still valid
        match shim::rposition(self.bindings.as_slice(), |n: &NamespaceEntry| -> (r: bool) ensures r == (n.level <= current_level) { n.level <= current_level }) {
            // none of the namespaces are valid, remove all of them
            None => {
                self.buffer.clear();
                self.bindings.clear();
            }
            // drop all namespaces past the last valid namespace
            Some(last_valid_pos) => {
                if let Some(len) = self.bindings.get(last_valid_pos + 1).map(|n: &NamespaceEntry| -> (r: usize) ensures r == n.start { n.start }) {
                    self.buffer.truncate(len);
                    self.bindings.truncate(last_valid_pos + 1);
                }
            }
        }
    }
}

} // verus!
fn main() {}
