"""Bounded stand-in: Kani (CBMC) harnesses on the real crate, built from the working tree on every run.

Used only where the code is outside the Verus subset (C11: `IterState::next`, built from
`(offset..).zip(slice.iter())` / `find` iterator adaptors). Results are labelled *bounded* and are
never counted as proved obligations.
"""
import json
import os
import re
import shutil
import subprocess
import time

VERIF = os.path.dirname(os.path.dirname(os.path.abspath(__file__)))
MEMCHR_REF = os.path.join(VERIF, "kani", "memchr-ref")


def prepare(repo_root, tag):
    """Copy the working tree of the crate (src, Cargo.toml, Cargo.lock) into build/kani-work-<tag> and
    patch `memchr` to the reference crate (the real one reaches cpuid inline asm, which Kani rejects)."""
    work = os.path.join(os.environ.get("VX_BUILD") or os.path.join(VERIF, "build"), "kani-work-" + tag)
    os.makedirs(work, exist_ok=True)
    for d in ("src",):
        dst = os.path.join(work, d)
        if os.path.exists(dst):
            shutil.rmtree(dst)
        shutil.copytree(os.path.join(repo_root, d), dst)
    for cand in (os.path.join(repo_root, "Cargo.lock"), "/repo/Cargo.lock"):
        if os.path.exists(cand):
            shutil.copy(cand, os.path.join(work, "Cargo.lock"))
            break
    with open(os.path.join(repo_root, "Cargo.toml")) as f:
        toml = f.read()
    # benches refer to files that are not copied
    toml = re.sub(r"\[\[bench\]\].*?(?=\n\[|\Z)", "", toml, flags=re.S)
    toml += '\n[patch.crates-io]\nmemchr = { path = "%s" }\n' % MEMCHR_REF
    with open(os.path.join(work, "Cargo.toml"), "w") as f:
        f.write(toml)
    return work


def run(repo_root, harnesses, bound, timeout_s, tag="c11", playback=False):
    work = prepare(repo_root, tag)
    cmd = ["cargo", "kani"]
    for h in harnesses:
        cmd += ["--harness", h]
    if playback:
        cmd += ["-Z", "concrete-playback", "--concrete-playback=print"]
    else:
        cmd += ["-j", str(min(4, len(harnesses))), "--output-format=terse"]
    env = dict(os.environ)
    env["CARGO_NET_OFFLINE"] = "true"
    env["VX_KANI_N"] = str(bound)
    env["CARGO_TARGET_DIR"] = os.path.join(work, "target")
    t0 = time.monotonic()
    try:
        p = subprocess.run(cmd, cwd=work, env=env, stdout=subprocess.PIPE, stderr=subprocess.STDOUT, text=True, timeout=timeout_s)
        out, rc, timed_out = p.stdout, p.returncode, False
    except subprocess.TimeoutExpired as e:
        out, rc, timed_out = (e.stdout or b"").decode("utf-8", "replace") if isinstance(e.stdout, bytes) else (e.stdout or ""), -1, True
    wall = time.monotonic() - t0
    lines = [l for l in out.split("\n") if "aborting path on assume(false)" not in l]
    text = "\n".join(lines)
    res = {"cmd": "VX_KANI_N=%d %s" % (bound, " ".join(cmd)), "wall": wall, "rc": rc, "timed_out": timed_out, "bound": bound,
           "harnesses": {}, "failed_checks": [], "tail": "\n".join(lines[-40:]), "playback": None}
    m = re.search(r"Complete - (\d+) successfully verified harnesses, (\d+) failures, (\d+) total", text)
    res["complete"] = [int(x) for x in m.groups()] if m else None
    cur = None
    for l in lines:
        mm = re.search(r"Checking harness (\S+?)\.\.\.", l)
        if mm:
            cur = mm.group(1)
        mm = re.search(r"Verification failed for - (\S+)", l)
        if mm:
            res["harnesses"][mm.group(1)] = "FAILED"
        mm = re.search(r'Failed Checks: (.*)', l)
        if mm:
            res["failed_checks"].append(mm.group(1).strip())
    times = re.findall(r"Verification Time: ([0-9.]+)s", text)
    res["cbmc_seconds"] = [float(x) for x in times]
    if "out of memory" in text or "Killed" in text:
        res["oom"] = True
    if playback:
        # concrete values printed by Kani
        pm = re.search(r"Concrete playback unit test.*?```(.*?)```", text, flags=re.S)
        res["playback"] = pm.group(1).strip() if pm else None
    return res
