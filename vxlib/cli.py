import concurrent.futures
import hashlib
import json
import os
import re
import subprocess
import sys
import time

from .extract import Repo, AnchorError
from .merge import EmbedError
from .rs import LexError
from . import unit as U

VERIF = U.VERIF
BUILD = os.environ.get("VX_BUILD") or os.path.join(VERIF, "build")
EVID = os.environ.get("VX_EVID") or os.path.join(VERIF, "evidence")   # the seed matrix points this at a scratch directory
REPLAYS = os.environ.get("VX_REPLAYS") or os.path.join(VERIF, "replays")
REGISTRY = os.path.join(VERIF, "registry.json")
KNOWN = os.path.join(VERIF, "known_findings.txt")

VERIF_FAIL = (
    "postcondition not satisfied",
    "precondition not satisfied",
    "assertion failed",
    "possible arithmetic underflow/overflow",
    "possible division by zero",
    "invariant not satisfied",
    "loop invariant not",
    "decreases not satisfied",
    "could not prove termination",
    "unreachable",
    "possible bit shift underflow/overflow",
    "requires not satisfied",
    "assert_by",
    "index out of bounds",
    "cannot show",
    "unable to prove",
    "cannot prove",
    "loop ensures",
    "invariant_except_break",
    "failed to satisfy",
)
UNDECIDED_MARK = ("Resource limit (rlimit) exceeded", "rlimit exceeded", "timed out", "solver")


def repo_root():
    return os.environ.get("VX_REPO", "/repo")


def registry():
    with open(REGISTRY) as f:
        return json.load(f)


def mkrepo(unit_cfg):
    return Repo(repo_root(), unit_cfg.get("features", []))


class Undecided(Exception):
    pass


def build_unit(name, canary=False):
    reg = registry()
    cfg = reg["units"][name]
    repo = mkrepo(cfg)
    asm = U.assemble(repo, cfg["fragments"], canary=canary, canary_frags=cfg.get("canary_fragments"), variant=cfg.get("base_variant"),
                     lemma_frags=cfg.get("canary_lemma_fragments"))
    os.makedirs(BUILD, exist_ok=True)
    path = os.path.join(BUILD, name + ("_canary" if canary else "") + ".rs")
    with open(path, "w", encoding="utf-8") as f:
        f.write(asm.text)
    return asm, path, cfg


def run_verus(path, cfg, extra=()):
    """Runs Verus on a generated file. Results are cached by the SHA-256 of the generated text and
    the options (the same text always gives the same obligations), so that several property checks
    that share a unit do not re-run the solver on identical input."""
    with open(path, "rb") as fh:
        key = hashlib.sha256(fh.read() + repr(sorted(cfg.items())).encode() + repr(extra).encode()).hexdigest()
    cdir = os.path.join(BUILD, "cache")
    os.makedirs(cdir, exist_ok=True)
    cpath = os.path.join(cdir, key + ".json")
    if os.environ.get("VX_NOCACHE") != "1" and os.path.exists(cpath):
        try:
            with open(cpath) as fh:
                res = json.load(fh)
            res["cached"] = True
            return res
        except ValueError:
            pass
    res = _run_verus(path, cfg, extra)
    res["cached"] = False
    try:
        with open(cpath + ".tmp%d" % os.getpid(), "w") as fh:
            json.dump(res, fh)
        os.replace(cpath + ".tmp%d" % os.getpid(), cpath)
    except OSError:
        pass
    return res


def _run_verus(path, cfg, extra=()):
    rlimit = str(cfg.get("rlimit", 200))
    cmd = ["verus", path, "--output-json", "--time", "--error-format=json",
           "--multiple-errors", "20", "--rlimit", rlimit, "--num-threads", str(cfg.get("threads", 8))] + list(extra)
    for m in cfg.get("verify_modules", []):
        cmd += ["--verify-module", m]
    t0 = time.monotonic()
    p = subprocess.run(cmd, cwd=BUILD, stdout=subprocess.PIPE, stderr=subprocess.PIPE, text=True,
                       timeout=cfg.get("timeout", 1500))
    wall = time.monotonic() - t0
    try:
        js = json.loads(p.stdout) if p.stdout.strip().startswith("{") else None
    except ValueError:
        js = None
    diags = []
    raw_err = []
    for line in p.stderr.split("\n"):
        s = line.strip()
        if s.startswith("{"):
            try:
                diags.append(json.loads(s))
            except ValueError:
                raw_err.append(line)
        elif s:
            raw_err.append(line)
    return {"cmd": " ".join(cmd), "rc": p.returncode, "json": js, "diags": diags, "raw": raw_err, "wall": wall}


def classify(diag):
    """-> 'verif' | 'rlimit' | 'note' | 'other' """
    if diag.get("level") not in ("error",):
        return "note"
    m = diag.get("message", "")
    if m.startswith("aborting due to"):
        return "note"
    low = m.lower()
    if "rlimit" in low or "resource limit" in low or "timed out" in low:
        return "rlimit"
    if diag.get("code"):
        return "other"
    for k in VERIF_FAIL:
        if low.startswith(k.lower()):
            return "verif"
    return "other"


TERMINATION_MSG = "recursive function must have a decreases clause"


def sort_diags(asm, diags, lines):
    """-> (failed obligations, other errors, resource-limit hits).
    Termination: Verus checks that executable functions terminate and demands a `decreases` measure of every function on a
    call cycle. No function of a real-code region carries one where the calls between the functions under contract form no
    cycle, so "recursive function must have a decreases clause" AT A REGION means the working tree has closed a cycle the
    pinned tree does not have: the termination obligation of that function is not discharged (it is reported before any SMT
    query is made, so it is the only thing this run decides). Anywhere else (a lemma of a fragment) it is an error of the
    machinery."""
    fails, others, rlim = [], [], []
    for d in diags:
        c = classify(d)
        if c == "other" and d.get("message", "").startswith(TERMINATION_MSG):
            fi = failure_info(asm, d, lines)
            if fi["region"] is not None:
                fi["termination"] = True
                fi["kind"] = "termination"
                fi["label"] = "%s::termination[no call cycle among the functions under contract]" % fi["fn"]
                fails.append(fi)
                continue
        if c == "verif":
            fails.append(failure_info(asm, d, lines))
        elif c == "rlimit":
            rlim.append(failure_info(asm, d, lines))
        elif c == "other":
            others.append(d)
    return fails, others, rlim


def failure_info(asm, diag, build_lines):
    spans = diag.get("spans", [])
    # a span inside another file (the `requires false` of `unreachable!()` lies in core/src/panic.rs) carries line numbers
    # of THAT file: follow its macro expansion back to the call site in the generated file
    fixed = []
    for s in spans:
        fn_ = s.get("file_name", "")
        if fn_.startswith("/rustc/") or "/vstd/" in fn_ or fn_.startswith("vstd"):
            e = s.get("expansion")
            site = None
            while e:
                sp = e.get("span", {})
                f2 = sp.get("file_name", "")
                if not (f2.startswith("/rustc/") or "/vstd/" in f2 or f2.startswith("vstd")):
                    site = sp
                e = sp.get("expansion")
            if site is not None:
                s = dict(site, is_primary=s.get("is_primary"), label=s.get("label"))
            else:
                continue
        fixed.append(s)
    spans = fixed
    locs = []
    for s in spans:
        w = asm.where(s["line_start"])
        locs.append((s, w))
    prim = [x for x in locs if x[0].get("is_primary")]
    sec = [x for x in locs if not x[0].get("is_primary")]
    region = None
    # prefer the location inside the function being verified
    msg = diag["message"]
    order = (sec + prim) if msg.startswith("postcondition") else (prim + sec)
    for s, w in order:
        if w[1] == "region":
            region = w[2]
            break
    pl = prim[0][0]["line_start"] if prim else (spans[0]["line_start"] if spans else 0)
    clause = build_lines[pl - 1].strip() if 0 < pl <= len(build_lines) else ""
    # the label is the clause itself: comments are not part of it
    clause = re.sub(r"\s*//.*$", "", clause)
    site = None
    for s, w in sec + prim:
        if s.get("label") and ("exit" in s["label"] or "end of the function" in s["label"]):
            sl = s["line_start"]
            site = build_lines[sl - 1].strip() if 0 < sl <= len(build_lines) else None
    fn = region.id if region is not None else enclosing_fn(build_lines, pl)
    frag = None
    for s, w in order:
        if w[0]:
            frag = w[0]
            break
    kind = msg.split(":")[0]
    label = "%s::%s[%s]" % (fn, kind, clause[:160])
    return {"region": region, "fn": fn, "fragment": frag, "kind": kind, "clause": clause, "site": site,
            "label": label, "line": pl, "rendered": diag.get("rendered", "")}


def enclosing_fn(lines, line):
    for k in range(min(line, len(lines)) - 1, -1, -1):
        m = re.search(r"\bfn\s+([A-Za-z_][A-Za-z0-9_]*)", lines[k])
        if m:
            return m.group(1)
    return "?"


def verify_unit(name, canary=False):
    """Returns dict with status: ok | fail | undecided"""
    try:
        asm, path, cfg = build_unit(name, canary=canary)
    except (AnchorError, EmbedError, LexError) as e:
        return {"unit": name, "status": "undecided", "reason": "extraction: %s" % e, "failures": [], "wall": 0.0,
                "regions": [], "verified": 0, "errors": 0}
    res = run_verus(path, cfg)
    lines = asm.lines
    fails, others, rlim = sort_diags(asm, res["diags"], lines)
    if rlim and not others and not canary:
        # retry once with a larger budget
        cfg2 = dict(cfg)
        cfg2["rlimit"] = int(cfg.get("rlimit", 200)) * 5
        res2 = run_verus(path, cfg2)
        fails2, others2, rlim2 = sort_diags(asm, res2["diags"], lines)
        res, fails, rlim, others = res2, fails2, rlim2, others2
    js = res["json"] or {}
    vr = js.get("verification-results", {})
    out = {"unit": name, "path": path, "cmd": res["cmd"], "wall": res["wall"], "cached": res.get("cached", False), "verified": vr.get("verified", 0),
           "errors": vr.get("errors", 0), "failures": fails, "regions": asm.regions, "asm": asm,
           "smt_ms": (js.get("times-ms", {}).get("smt", {}) or {}).get("total"),
           "total_ms": (js.get("times-ms", {}) or {}).get("total"),
           "verus": js.get("verus", {}), "fn_times": fn_times(js)}
    # a verifier that crashed (solver died, internal panic) has decided nothing
    crashed = any(("panicked at" in l) or ("unexpected output from solver" in l) for l in res.get("raw", []))
    if crashed and not others:
        others = [{"message": "verus crashed: " + " | ".join(l for l in res.get("raw", []) if "panicked" in l or "unexpected output" in l)[:300], "spans": []}]
    term_only = bool(fails) and all(f.get("termination") for f in fails)
    if others or (res["json"] is None) or (vr.get("encountered-vir-error") and not term_only):
        msg = "; ".join((d.get("message", "")[:300] + " @" + ",".join(str(s["line_start"]) for s in d.get("spans", [])[:2]))
                        for d in others[:5]) or "\n".join(res["raw"][-15:])
        out.update(status="undecided", reason="verus/rustc error (not a verification failure): " + msg)
        out["other_rendered"] = [d.get("rendered", "") for d in others[:6]]
        return out
    if rlim:
        out.update(status="undecided", reason="resource limit exceeded in: " + ", ".join(f["fn"] for f in rlim))
        if not fails:
            return out
    if fails:
        out["status"] = "fail"
    else:
        out["status"] = "ok"
    return out


def fn_times(js):
    res = {}
    try:
        for m in js["times-ms"]["smt"]["smt-run-module-times"]:
            for f in m.get("function-breakdown", []):
                res[f["function"]] = {"micros": f.get("time-micros"), "rlimit": f.get("rlimit"), "success": f.get("success")}
    except (KeyError, TypeError):
        pass
    return res


def scan_trusted(asm):
    """Mechanical scan for assumptions in the generated file."""
    pats = ["assume(", "admit(", "external_body", "assume_specification", "external_fn_specification", "axiom", "external_type_specification", "#[verifier::external"]
    hits = []
    for no, line in enumerate(asm.lines, 1):
        s = line.strip()
        if s.startswith("//"):
            continue
        for p in pats:
            if p in s:
                frag, kind, ref, off = asm.where(no)
                hits.append("%s: %s" % (frag or "?", s[:140]))
                break
    return hits


def load_known():
    findings, fixed = [], []
    if os.path.exists(KNOWN):
        for line in open(KNOWN):
            s = line.strip()
            if s.startswith("finding:"):
                d = dict(re.findall(r'(\w+)=("(?:[^"\\]|\\.)*"|\S+)', s))
                d["_line"] = s
                findings.append(d)
            elif s.startswith("fixed:"):
                fixed.append(s)
    return findings, fixed


def cmd_check(pid, tier):
    t0 = time.monotonic()
    reg = registry()
    if pid not in reg["properties"]:
        print("vx: property %s is not claimed (see MANIFEST not_applicable)" % pid, file=sys.stderr)
        return 2
    pcfg = reg["properties"][pid]
    # the thorough tier also verifies the feature variants of the units (e.g. the `encoding` build of the reader)
    units = list(pcfg["units"]) + (list(pcfg.get("units_thorough", [])) if tier == "thorough" else [])
    results = {}
    with concurrent.futures.ThreadPoolExecutor(max_workers=4) as ex:
        futs = {ex.submit(verify_unit, u): u for u in units}
        canary_futs = {}
        if tier == "thorough" or pcfg.get("canary_quick", True):
            canary_futs = {ex.submit(verify_unit, u, True): u for u in units}
        for f in futs:
            results[futs[f]] = f.result()
        canaries = {canary_futs[f]: f.result() for f in canary_futs}

    undecided = [r for r in results.values() if r["status"] == "undecided"]
    extra_results = []
    if "async_identity" in pcfg.get("extra", []) or "async_identity_ns" in pcfg.get("extra", []):
        from . import asyncid
        pairs = asyncid.PAIRS_NS if "async_identity_ns" in pcfg.get("extra", []) else asyncid.PAIRS
        for (name, ok, detail) in asyncid.check(repo_root(), pairs):
            extra_results.append({"check": "async text identity: " + name, "ok": ok, "detail": detail})
            if ok is not True:
                undecided.append({"unit": "async_identity", "reason": "async instantiation of %s is not the verified text: %s" % (name, detail)})
    findings, fixed = load_known()
    my_findings = [f for f in findings if f.get("property") == pid]
    # a property that rests on other properties' contracts (registry: "inherits") is served by their regions too
    mine = {pid} | set(pcfg.get("inherits", []))
    violations, known_hits, foreign = [], [], []
    serving_regions = []
    all_regions = []
    for u in units:
        r = results[u]
        for rg in r.get("regions", []):
            all_regions.append((u, rg))
            if mine & set(rg.serves):
                serving_regions.append((u, rg))
        for f in r["failures"]:
            rg = f["region"]
            serves = rg.serves if rg is not None else [pid]
            audit = rg is not None and rg.opts.get("audit")
            if not (mine & set(serves)):
                foreign.append(f)
                continue
            hit = None
            for kf in my_findings:
                if kf.get("obligation", "").strip('"') == f["label"]:
                    hit = kf
            if hit:
                known_hits.append((hit, f))
            else:
                violations.append((u, f))
    # vacuity guards
    guard_msgs = []
    for u in units:
        r = results[u]
        exp = reg["units"][u].get("min_verified")
        if r["status"] in ("ok", "fail") and exp is not None and r["verified"] + r["errors"] < exp:
            undecided.append({"unit": u, "reason": "vacuity guard: %d obligations, expected at least %d" % (r["verified"] + r["errors"], exp)})
    canary_ok = 0
    canary_total = 0
    for u, c in canaries.items():
        if c["status"] == "undecided":
            guard_msgs.append("canary run of %s undecided: %s" % (u, c.get("reason")))
            continue
        got = {}
        for f in c["failures"]:
            if f["region"] is not None and "assert(false)" in f["clause"]:
                got[f["region"].id] = got.get(f["region"].id, 0) + 1
        # hand-written lemmas: every `proof fn` of the listed fragments must fail its canary
        lem = set(getattr(c.get("asm"), "lemma_canaries", []) or [])
        got_l = set()
        for f in c["failures"]:
            m = re.search(r"VX-CANARY-L (\w+)", f["clause"])
            if m:
                got_l.add(m.group(1))
        canary_total += len(lem)
        canary_ok += len(lem & got_l)
        for nm in sorted(lem - got_l):
            guard_msgs.append("canary in lemma %s did NOT fail: its requires may be contradictory" % nm)
            undecided.append({"unit": u, "reason": "vacuity: canary assert(false) verified in lemma " + nm})
        for rg in c["regions"]:
            n = getattr(rg, "canaries", 0)
            canary_total += n
            canary_ok += min(n, got.get(rg.id, 0))
            if got.get(rg.id, 0) < n:
                guard_msgs.append("canary in %s did NOT fail: precondition/axioms may be contradictory" % rg.id)
                undecided.append({"unit": u, "reason": "vacuity: canary assert(false) verified in " + rg.id})

    # ---- bounded stand-in (Kani) where the code is outside the Verus subset
    kani_res = None
    kcfg = pcfg.get("kani")
    if kcfg:
        from . import kanirun
        bound = kcfg["bound_thorough"] if tier == "thorough" else kcfg["bound_quick"]
        kani_res = kanirun.run(repo_root(), kcfg["harnesses"], bound, kcfg.get("timeout_s", 3000), tag=pid.lower())
        comp = kani_res.get("complete")
        if comp and comp[1] == 0 and comp[0] == len(kcfg["harnesses"]):
            pass
        elif kani_res["failed_checks"] and comp and comp[1] > 0:
            failing = [h for h, v in kani_res["harnesses"].items() if v == "FAILED"]
            pb = kanirun.run(repo_root(), [h.split("::")[-1] for h in failing[:1]], bound, kcfg.get("timeout_s", 3000), tag=pid.lower(), playback=True)
            kani_res["playback"] = pb.get("playback")
            kani_res["playback_tail"] = pb.get("tail")
            for chk in sorted(set(kani_res["failed_checks"])):
                violations.append(("kani", {"region": None, "fn": ",".join(failing), "fragment": "kani/in_attributes.rs", "kind": "bounded check failed",
                                            "clause": chk, "site": None, "label": "kani::%s::%s" % (",".join(x.split("::")[-1] for x in failing), chk),
                                            "line": 0, "rendered": kani_res["tail"], "playback": kani_res.get("playback")}))
        else:
            undecided.append({"unit": "kani", "reason": "Kani did not finish (timeout=%s oom=%s rc=%s): %s" % (
                kani_res.get("timed_out"), kani_res.get("oom"), kani_res.get("rc"), kani_res["tail"][-600:])})

    wall = time.monotonic() - t0
    # ---- report
    rc = 0
    stale = []
    for kf in my_findings:
        if any(kf is h for h, _ in known_hits):
            rest = kf["_line"][len("finding:"):].strip()
            rest = re.sub(r"^property=\S+\s*", "", rest)
            print("KNOWN-FINDING: property=%s %s" % (pid, rest))
        else:
            stale.append(kf["_line"])
    replay_path = None
    if violations:
        os.makedirs(os.path.join(REPLAYS, pid), exist_ok=True)
        stamp = time.strftime("%Y%m%d-%H%M%S")
        replay_path = os.path.join(REPLAYS, pid, "%s-%s.json" % (stamp, hashlib.sha1(repr([v[1]["label"] for v in violations]).encode()).hexdigest()[:8]))
        rep = {"property": pid, "tier": tier, "repo": repo_root(), "failed_obligations": [], "concrete_input": None,
               "note": "Verus gives no counterexample; see `refuter` for the bounded search result if any."}
        for (u, f) in violations:
            rg = f["region"]
            rep["failed_obligations"].append({
                "unit": u, "obligation": f["label"], "kind": f["kind"], "clause": f["clause"], "exit_site": f["site"],
                "function": f["fn"], "anchor": rg.anchor if rg is not None else None,
                "source": ("%s:%d-%d" % (rg.located.file, rg.located.line_lo, rg.located.line_hi)) if rg is not None and rg.located else None,
                "region_status": rg.status if rg is not None else None,
                "changes_vs_contract_base": rg.changes if rg is not None else None,
                "verus_output": f["rendered"],
                "generated_file": results[u]["path"] if u in results else None, "generated_line": f["line"],
                "concrete_playback": f.get("playback")})
            if f.get("playback"):
                rep["concrete_input"] = f["playback"]
        refuted = None
        try:
            from . import refute
            refuted = refute.try_refute(pid, violations, rep)
        except Exception as e:  # refuter problems never mask the violation
            rep["refuter_error"] = repr(e)
        with open(replay_path, "w") as fh:
            json.dump(rep, fh, indent=1)
        suffix = "" if (refuted or rep.get("concrete_input")) else " no-failing-input-found"
        for (u, f) in violations:
            print("  failed obligation: %s (unit %s)" % (f["label"], u))
        print("VIOLATION property=%s replay=%s%s" % (pid, replay_path, suffix))
        rc = 1
    elif undecided:
        for r in undecided:
            print("vx: UNDECIDED %s: %s" % (r.get("unit"), r.get("reason")), file=sys.stderr)
        rc = 2
    # ---- evidence
    # an audit copy that fails exactly its listed clause is a recorded finding, not an obligation of the claim
    audit_known = set()
    for u in units:
        for f in results[u]["failures"]:
            rg = f["region"]
            if rg is not None and rg.opts.get("audit") and any(kf.get("obligation", "").strip('"') == f["label"] for kf in findings):
                audit_known.add((u, rg.id))
    obligations = sum(r.get("verified", 0) + r.get("errors", 0) for r in results.values()) - len(audit_known)
    discharged = sum(r.get("verified", 0) for r in results.values())
    trusted = []
    fn_list = []
    norm_total = {}
    for u in units:
        r = results[u]
        if "asm" in r:
            for h in scan_trusted(r["asm"]):
                if h not in trusted:
                    trusted.append(h)
        for rg in r.get("regions", []):
            if rg.located is None:
                continue
            for k, v in (rg.counts or {}).items():
                norm_total[k] = norm_total.get(k, 0) + v
            fn_list.append({"region": rg.id, "anchor": rg.anchor, "file": rg.located.file,
                            "lines": [rg.located.line_lo, rg.located.line_hi], "sha": rg.located.sha(),
                            "status": rg.status, "serves": rg.serves, "normalisations": rg.counts,
                            "notes": rg.notes, "unit": u})
    samples = []
    for (u, rg) in serving_regions[:6]:
        clauses = [l.strip() for l in (rg.out_text or "").split("\n") if re.match(r"\s*(requires|ensures|invariant|decreases)\b", l)]
        samples.append({"function": rg.id, "unit": u, "contract_head": clauses[:4]})
    ev = {
        "property_id": pid, "tier": tier, "seed": int(os.environ.get("VERIF_SEED", "0") or 0),
        "level": pcfg.get("level", "proof"),
        "coverage": {
            "obligations": obligations, "discharged": discharged,
            "checker_cmd": "; ".join(r.get("cmd", "") for r in results.values()),
            "trusted_base": trusted + reg.get("assumptions", {}).get(pid, []) + reg.get("assumptions", {}).get("*", []),
            "explanation": pcfg.get("explanation", ""),
            "samples": samples or [{"note": "no region serves this property directly"}],
            "units": [{"unit": u, "status": results[u]["status"], "verified": results[u].get("verified"),
                       "errors": results[u].get("errors"), "smt_ms": results[u].get("smt_ms"),
                       "verus_total_ms": results[u].get("total_ms"), "wall_s": round(results[u].get("wall", 0), 2),
                       "reason": results[u].get("reason")} for u in units],
            "functions_under_contract": fn_list,
            "functions_serving_property": [rg.id for (_, rg) in serving_regions],
            "normalisation_counts": norm_total,
            "vacuity": {"canary_functions": canary_total, "canaries_failed_as_required": canary_ok, "messages": guard_msgs},
            "known_findings_reported": [h["_line"] for h, _ in known_hits],
            "audit_copies_failing_as_recorded": sorted("%s/%s" % x for x in audit_known),
            "stale_known_findings": stale,
            "fixed_entries": [s for s in fixed if ("property=" + pid) in s],
            "failures_of_other_properties_in_shared_units": [f["label"] for f in foreign],
            "backend": "Verus %s (Z3 bundled)" % (next(iter(results.values())).get("verus", {}).get("version", "?") if results else "?"),
            "solver_time_ms": sum((r.get("smt_ms") or 0) for r in results.values()),
            "bounded_units": ([{"tool": "Kani 0.68 / CBMC 6.11", "harnesses": kcfg["harnesses"], "bound": "slice length <= %d, all 256 byte values, arbitrary iterator state, <= 1 previous key" % kani_res["bound"],
                                "cmd": kani_res["cmd"], "complete": kani_res.get("complete"), "cbmc_seconds": kani_res.get("cbmc_seconds"), "wall_s": round(kani_res["wall"], 1),
                                "note": "bounded: never counted as proved"}] if kani_res else []),
            "extra_checks": extra_results,
            "cached_units": [u for u in units if results[u].get("cached")],
            "repo": repo_root(),
        },
        "assumptions": reg.get("assumptions", {}).get(pid, []) + reg.get("assumptions", {}).get("*", []),
        "wall_s": round(wall, 2),
        "violations": len(violations),
    }
    os.makedirs(EVID, exist_ok=True)
    with open(os.path.join(EVID, pid + ".json"), "w") as fh:
        json.dump(ev, fh, indent=1, default=str)
    status = {0: "held", 1: "VIOLATED", 2: "undecided"}[rc]
    print("vx: %s %s: %d/%d obligations discharged in %d unit(s), %d region functions under contract, canaries %d/%d, %.1fs"
          % (pid, status, discharged, obligations, len(units), len(all_regions), canary_ok, canary_total, wall))
    return rc


def cmd_verus(name, canary=False):
    r = verify_unit(name, canary=canary)
    print("unit %s: %s verified=%s errors=%s wall=%.1fs smt=%sms" % (name, r["status"], r.get("verified"), r.get("errors"), r.get("wall", 0), r.get("smt_ms")))
    if r.get("reason"):
        print("  reason:", r["reason"])
    for x in r.get("other_rendered", []):
        print(x)
    for f in r["failures"]:
        print("  FAIL %s  (line %d of %s)" % (f["label"], f["line"], r.get("path")))
        if f.get("site"):
            print("       at: %s" % f["site"])
    for rg in r.get("regions", []):
        if rg.status == "changed":
            print("  region %s changed vs contract base: %s" % (rg.id, rg.changes[:3]))
    slow = sorted(r.get("fn_times", {}).items(), key=lambda kv: -(kv[1]["micros"] or 0))[:5]
    for k, v in slow:
        print("  time %-60s %8.1f ms rlimit=%s" % (k, (v["micros"] or 0) / 1000.0, v["rlimit"]))
    return 0 if r["status"] == "ok" else 1


def main(argv):
    if not argv:
        print(__doc__)
        return 2
    cmd = argv[0]
    try:
        if cmd == "sync":
            reg = registry()
            frag = argv[1]
            # a fragment shared by several units is snapshotted with the smallest feature set that uses it
            # `vx sync <fragment> [--unit U] [ids]`: snapshots for the default feature set of the smallest unit
            # using the fragment, or (with --unit) the overlay of that unit's base variant
            args = argv[2:]
            variant = None
            if "--unit" in args:
                k = args.index("--unit")
                ucfg = reg["units"][args[k + 1]]
                feats, variant = ucfg.get("features", []), ucfg.get("base_variant")
                args = args[:k] + args[k + 2:]
            else:
                cands = [u.get("features", []) for u in reg["units"].values() if frag in u["fragments"] and not u.get("base_variant")]
                feats = min(cands, key=len) if cands else []
            U.sync(Repo(repo_root(), feats), frag, only=set(args) or None, variant=variant)
            return 0
        if cmd == "build":
            asm, path, cfg = build_unit(argv[1], canary="--canary" in argv)
            print(path)
            for rg in asm.regions:
                print("  %-40s %-9s %s %s" % (rg.id, rg.status, rg.counts, "; ".join(rg.notes)))
            return 0
        if cmd == "verus":
            return cmd_verus(argv[1], canary="--canary" in argv)
        if cmd == "check":
            pid = argv[1]
            tier = os.environ.get("VERIF_TIER", "quick")
            if "--tier" in argv:
                tier = argv[argv.index("--tier") + 1]
            return cmd_check(pid, tier)
        if cmd == "show":
            asm, path, cfg = build_unit(argv[1])
            for rg in asm.regions:
                if rg.id == argv[2]:
                    print("== %s  %s:%d-%d  [%s]" % (rg.anchor, rg.located.file, rg.located.line_lo, rg.located.line_hi, rg.status))
                    print("-- normalisations:", rg.counts, rg.notes)
                    print(rg.out_text)
            return 0
        if cmd == "replay":
            with open(argv[1]) as f:
                rep = json.load(f)
            print("replaying property %s: re-running the check against %s" % (rep["property"], repo_root()))
            for ob in rep["failed_obligations"]:
                print("  recorded failed obligation:", ob["obligation"])
            if rep.get("concrete_input"):
                from . import refute
                return refute.replay(rep)
            return cmd_check(rep["property"], rep.get("tier", "quick"))
        if cmd == "setup":
            os.makedirs(BUILD, exist_ok=True)
            os.makedirs(EVID, exist_ok=True)
            p = subprocess.run(["verus", "--version"], stdout=subprocess.PIPE, stderr=subprocess.STDOUT, text=True)
            print(p.stdout.strip())
            return 0 if p.returncode == 0 else 2
    except (AnchorError, EmbedError, LexError) as e:
        print("vx: UNDECIDED: %s" % e, file=sys.stderr)
        return 2
    print("unknown command", cmd)
    return 2
