"""Carrying annotations (pure token insertions) from the authoring-time text of
a function to its current working-tree text.

B = base tokens (normalised real text when the contract was written)
A = annotated tokens; B must embed into A as a subsequence (insert-only)
C = current tokens (normalised real text of the working tree)
"""
import difflib

from .rs import keys, is_id, is_p, match_close


class EmbedError(Exception):
    pass


ITEM_START = {"fn", "pub", "proof", "spec", "open", "closed", "exec", "impl", "const", "broadcast", "axiom",
              "uninterp", "async", "unsafe", "type", "trait", "struct", "enum", "mod", "use"}


def fn_items(toks):
    """(name, kw, body_open, body_close) of every fn item with a body that is
    not nested in another fn body. Works for Rust and for Verus-annotated text
    (clauses between signature and body may contain brace groups)."""
    res = []
    i, n = 0, len(toks)
    while i < n:
        t = toks[i]
        if is_id(t, "fn") and i + 1 < n and toks[i + 1].kind == "id" and not (i > 0 and is_p(toks[i - 1], ".")):
            j = i + 2
            # generics: skip to the parameter list
            while j < n and not is_p(toks[j], "("):
                j += 1
            if j >= n:
                break
            j = match_close(toks, j) + 1
            found = None
            while j < n:
                x = toks[j]
                if is_p(x, ";"):
                    break
                if is_p(x, "{"):
                    c = match_close(toks, j)
                    nx = toks[c + 1] if c + 1 < n else None
                    if nx is None or is_p(nx, "}") or is_p(nx, "#") or (nx.kind == "id" and nx.text in ITEM_START):
                        found = (j, c)
                        break
                    j = c + 1
                    continue
                if x.kind == "punct" and x.text in ("(", "["):
                    j = match_close(toks, j) + 1
                    continue
                if is_p(x, "}"):
                    break
                j += 1
            if found:
                res.append((toks[i + 1].text, i, found[0], found[1]))
                i = found[1] + 1
                continue
        i += 1
    return res


def embed(B, A):
    """Return (gaps, amap): gaps is a list of len(B)+1 lists of A tokens;
    gaps[i] are the tokens inserted before B[i] (gaps[len(B)] after the last).
    Function items are paired by name first so that a signature embeds into
    the annotated signature+contract and a body into the annotated body."""
    fb, fa = fn_items(B), fn_items(A)
    cuts_b, cuts_a = [0], [0]
    ia = 0
    for (name, kw, bo, bc) in fb:
        m = None
        for k in range(ia, len(fa)):
            if fa[k][0] == name:
                m = k
                break
        if m is None:
            continue
        (_, kwa, boa, bca) = fa[m]
        ia = m + 1
        for pb, pa in ((kw, kwa), (bo, boa), (bo + 1, boa + 1), (bc, bca), (bc + 1, bca + 1)):
            if pb >= cuts_b[-1] and pa >= cuts_a[-1]:
                cuts_b.append(pb)
                cuts_a.append(pa)
    cuts_b.append(len(B))
    cuts_a.append(len(A))
    amap = []
    for k in range(len(cuts_b) - 1):
        sub = _embed_flat(B[cuts_b[k]:cuts_b[k + 1]], A[cuts_a[k]:cuts_a[k + 1]])
        amap.extend(x + cuts_a[k] for x in sub)
    _fix_closers(B, A, amap)
    gaps = [[] for _ in range(len(B) + 1)]
    prev = -1
    for i, ai in enumerate(amap):
        gaps[i] = list(A[prev + 1:ai])
        prev = ai
    gaps[len(B)] = list(A[prev + 1:])
    return gaps, amap


def _fix_closers(B, A, amap):
    """Bracket structure decides ambiguous alignments: where several identical closers are adjacent in A (a real
    `}` next to an inserted one) the real closer is the one that closes the image of the real opener. Only moves
    a closer within its slack (between the images of its neighbours), so the embedding stays a subsequence."""
    OPEN = {"(": ")", "[": "]", "{": "}"}
    for i, t in enumerate(B):
        if t.kind != "punct" or t.text not in OPEN:
            continue
        try:
            ci = match_close(B, i)
            ca = match_close(A, amap[i])
        except Exception:
            continue
        if ci is None or ca is None or ci >= len(B) or ca >= len(A) or amap[ci] == ca:
            continue
        if A[ca].key() != B[ci].key():
            continue
        lo = amap[ci - 1] if ci > 0 else -1
        hi = amap[ci + 1] if ci + 1 < len(B) else len(A)
        if lo < ca < hi:
            amap[ci] = ca


def _embed_flat(B, A):
    kb, ka = keys(B), keys(A)
    sm = difflib.SequenceMatcher(None, kb, ka, autojunk=False)
    blocks = sm.get_matching_blocks()
    matched = sum(b.size for b in blocks)
    if matched != len(kb):
        amap = _subseq_dp(kb, ka)
        if amap is None:
            # report first base token that is missing
            miss = []
            covered = [False] * len(kb)
            for b in blocks:
                for k in range(b.size):
                    covered[b.a + k] = True
            for i, c in enumerate(covered):
                if not c:
                    miss.append((i, B[i].text, B[i].line))
            raise EmbedError("annotated text is not an insert-only extension of the real text; "
                             "first unmatched real tokens: %s" % miss[:8])
    else:
        amap = [None] * len(kb)
        for b in blocks:
            for k in range(b.size):
                amap[b.a + k] = b.b + k
    return amap


def _subseq_dp(kb, ka):
    """Right-most-greedy then left-most greedy subsequence embedding."""
    # leftmost greedy
    amap = []
    j = 0
    for k in kb:
        while j < len(ka) and ka[j] != k:
            j += 1
        if j >= len(ka):
            return None
        amap.append(j)
        j += 1
    return amap


def _emit(out, gap, ctok, atriv):
    """emit the inserted tokens of `gap` and then the real token `ctok`; comments that precede the
    real token stay in front of the insertion"""
    if gap:
        first = gap[0].clone(trivia=ctok.trivia + ("" if ctok.trivia.endswith((" ", "\n")) or not ctok.trivia else " ") + gap[0].trivia.lstrip("\n") if ("//" in ctok.trivia or "/*" in ctok.trivia) else gap[0].trivia)
        out.append(first)
        out.extend(gap[1:])
        if "//" in ctok.trivia or "/*" in ctok.trivia:
            out.append(ctok.clone(trivia=atriv if atriv is not None else " "))
        else:
            out.append(ctok)
    else:
        out.append(ctok)


def transplant(B, gaps, C, atriv=None):
    """Produce tokens: C with the insertions of `gaps` carried over.
    Returns (tokens, changed_spans) where changed_spans describes the
    differences between B and C (for reporting)."""
    kb, kc = keys(B), keys(C)
    sm = difflib.SequenceMatcher(None, kb, kc, autojunk=False)
    out = []
    changes = []
    pending = []  # gap insertions whose base token vanished
    for tag, b0, b1, c0, c1 in sm.get_opcodes():
        if tag == "equal":
            for k in range(b1 - b0):
                out.extend(pending)
                pending = []
                _emit(out, gaps[b0 + k], C[c0 + k], atriv[b0 + k] if atriv else None)
        elif tag == "delete":
            # insertions in front of the deleted run stay (they are emitted before the next real token); insertions
            # INSIDE the run annotated code that no longer exists (e.g. the error arm of a removed `?`) and go with it
            pending.extend(gaps[b0])
            dropped = sum(len(gaps[k]) for k in range(b0 + 1, b1))
            # the dropped annotations must take their brackets with them: an annotation block opened inside the run and
            # closed in front of the next kept token loses that closer too; a closer inside the run whose opener stands
            # before the run stays
            pair = {"}": "{", ")": "(", "]": "["}
            opened = []
            for k in range(b0 + 1, b1):
                for t in gaps[k]:
                    if t.kind == "punct" and t.text in ("{", "(", "["):
                        opened.append(t.text)
                    elif t.kind == "punct" and t.text in pair:
                        if opened and opened[-1] == pair[t.text]:
                            opened.pop()
                        else:
                            pending.append(t)
            if opened and b1 < len(gaps):
                g = list(gaps[b1])
                while opened and g and g[0].kind == "punct" and g[0].text in pair and pair[g[0].text] == opened[-1]:
                    g.pop(0); opened.pop()
                gaps[b1] = g
            changes.append(("delete", b0, b1, c0, c1))
            if dropped:
                changes.append(("dropped-annotations", b0 + 1, b1, c0, c1))
        elif tag == "insert":
            out.extend(pending)
            pending = []
            # closers that open the annotation gap in front of B[b0] close blocks the annotation opened around the
            # PREVIOUS real tokens: they stay in front of the tokens the working tree inserted here
            # Both bracket systems must stay ONE well-nested sequence: an inserted real closer that closes a real
            # opener standing inside an annotation block goes first; an annotation closer goes as soon as the
            # innermost open bracket is its annotation opener.
            ins = list(C[c0:c1])
            if b0 < len(gaps):
                g = gaps[b0]
                k = 0
                while k < len(g) and g[k].kind == "punct" and g[k].text in ("}", ")", "]"):
                    k += 1
                lead = g[:k]
                if lead:
                    pair = {"}": "{", ")": "(", "]": "["}
                    stack = []   # (opener text, is_annotation)
                    for t in out:
                        if t.kind == "punct" and t.text in ("{", "(", "["):
                            stack.append((t.text, getattr(t, "origin", None) == "annot"))
                        elif t.kind == "punct" and t.text in pair and stack:
                            stack.pop()
                    li = 0
                    while li < len(lead):
                        if stack and stack[-1][1] and stack[-1][0] == pair[lead[li].text]:
                            out.append(lead[li]); stack.pop(); li += 1
                        elif ins and ins[0].kind == "punct" and ins[0].text in pair and stack and (not stack[-1][1]) and stack[-1][0] == pair[ins[0].text]:
                            out.append(ins.pop(0)); stack.pop()
                        else:
                            break
                    out.extend(lead[li:])
                    gaps[b0] = g[k:]
            out.extend(ins)
            changes.append(("insert", b0, b1, c0, c1))
        else:  # replace
            changes.append(("replace", b0, b1, c0, c1))
            if b1 - b0 == c1 - c0:
                for k in range(b1 - b0):
                    out.extend(pending)
                    pending = []
                    _emit(out, gaps[b0 + k], C[c0 + k], atriv[b0 + k] if atriv else None)
            else:
                out.extend(pending)
                pending = []
                out.extend(gaps[b0])
                out.extend(C[c0:c1])
                for k in range(b0 + 1, b1):
                    pending.extend(gaps[k])
    out.extend(pending)
    out.extend(gaps[len(B)])
    if changes:
        out = _drop_stranded_proof_blocks(out, changes)
    return out, changes


def _drop_stranded_proof_blocks(out, changes):
    """A statement-level `proof { .. }` annotation that stood first in the block of a match arm is stranded when the
    working tree turned that arm into a bare expression (`=> proof { .. } return x,` is no Rust): the annotation goes
    (reported as dropped), so that Verus decides the changed code instead of stopping at a syntax error."""
    res = []
    i, n = 0, len(out)
    while i < n:
        t = out[i]
        if getattr(t, "origin", None) == "annot" and t.kind == "id" and t.text == "proof" and res \
                and len(res) >= 2 and res[-1].kind == "punct" and res[-1].text == ">" and res[-1].trivia == "" \
                and res[-2].kind == "punct" and res[-2].text == "=" and getattr(res[-1], "origin", None) != "annot" \
                and i + 1 < n and out[i + 1].kind == "punct" and out[i + 1].text == "{":
            depth, j = 0, i + 1
            while j < n:
                if out[j].kind == "punct" and out[j].text == "{":
                    depth += 1
                elif out[j].kind == "punct" and out[j].text == "}":
                    depth -= 1
                    if depth == 0:
                        break
                j += 1
            nxt = out[j + 1] if j + 1 < n else None
            if j < n and nxt is not None and not (nxt.kind == "punct" and nxt.text in (",", "}")):
                changes.append(("dropped-annotations", 0, 0, 0, 0))
                if j + 1 < n:
                    out[j + 1] = out[j + 1].clone(trivia=" ")
                i = j + 1
                continue
        res.append(t)
        i += 1
    return res
