"""Syntax-directed normalisations N1..N8 (see DESIGN.md §2.2), on token lists.

Every rule is local, independent of the function it occurs in, and produces
plain Rust.  `apply_all` returns the rewritten tokens and a dict of
application counts per rule.
"""
from .rs import (Tok, match_close, is_p, is_id, lex_fragment, text_of, OPEN, CLOSE, keys)
from .extract import AnchorError, cfg_holds, expand, _split_commas

BLOCKLIKE = {"if", "match", "loop", "while", "for", "unsafe"}
ITEMLIKE = {"fn", "pub", "use", "impl", "mod", "struct", "enum", "const", "static", "type",
            "trait", "macro_rules", "async", "extern"}


def frag(text, trivia=" "):
    ts = lex_fragment(text, "norm")
    if ts:
        ts[0].trivia = trivia
        for t in ts[1:]:
            if t.trivia == "":
                pass
    return ts


def _stmt_end(toks, i):
    """Index one past the construct starting at toks[i] (statement, item, or
    field), used to drop cfg'd-out constructs."""
    n = len(toks)
    t = toks[i]
    if is_id(t, "pub"):
        k = i + 1
        if k < n and is_p(toks[k], "("):
            k = match_close(toks, k) + 1
        if k < n and not (toks[k].kind == "id" and toks[k].text in ITEMLIKE):
            # a struct field `pub name: T,`
            return _stmt_end(toks, k)
    if t.kind == "id" and t.text in BLOCKLIKE or is_p(t, "{"):
        j = i
        while j < n:
            if is_p(toks[j], "{"):
                c = match_close(toks, j)
                j = c + 1
                if j < n and is_id(toks[j], "else"):
                    continue
                # `if let .. = expr? { }` style: the block closes the stmt
                if j < n and is_p(toks[j], ";"):
                    j += 1
                return j
            if toks[j].kind == "punct" and toks[j].text in ("(", "["):
                j = match_close(toks, j)
            j += 1
        return n
    if t.kind == "id" and t.text in ITEMLIKE:
        j = i
        while j < n:
            if is_p(toks[j], "{"):
                return match_close(toks, j) + 1
            if is_p(toks[j], ";"):
                return j + 1
            if toks[j].kind == "punct" and toks[j].text in ("(", "["):
                j = match_close(toks, j)
            j += 1
        return n
    # let / expression statement / field / match arm: up to ';' or ',' at depth 0
    j = i
    while j < n:
        if is_p(toks[j], "=") and j + 2 < n and is_p(toks[j + 1], ">") and toks[j + 1].trivia == "" and is_p(toks[j + 2], "{") \
                and not any(is_id(x, "let") for x in toks[i:j]):
            # a match arm whose body is a block ends with the block (a comma after it is optional)
            c = match_close(toks, j + 2)
            if c + 1 < n and is_p(toks[c + 1], ","):
                return c + 2
            return c + 1
        if toks[j].kind == "punct" and toks[j].text in OPEN:
            j = match_close(toks, j)
        elif toks[j].kind == "punct" and toks[j].text in CLOSE:
            return j
        elif is_p(toks[j], ";") or is_p(toks[j], ","):
            return j + 1
        j += 1
    return n


def drop_attrs(toks, features, counts, notes=None):
    out = []
    i, n = 0, len(toks)
    while i < n:
        t = toks[i]
        if is_p(t, "#") and i + 1 < n and (is_p(toks[i + 1], "[") or
                                           (is_p(toks[i + 1], "!") and i + 2 < n and is_p(toks[i + 2], "["))):
            ob = i + 1 if is_p(toks[i + 1], "[") else i + 2
            cb = match_close(toks, ob)
            inner = toks[ob + 1:cb]
            nxt = cb + 1
            if inner and is_id(inner[0], "cfg"):
                counts["cfg"] = counts.get("cfg", 0) + 1
                if not cfg_holds(inner, features):
                    # swallow further attributes of the same construct
                    while nxt < n and is_p(toks[nxt], "#"):
                        nxt = match_close(toks, nxt + 1) + 1
                    end = _stmt_end(toks, nxt)
                    if notes is not None:
                        # state exactly what is dropped: the condition and the construct it removes
                        txt = " ".join(x.text for x in toks[nxt:end])
                        notes.append("cfg-dropped [%s]: %s" % ("".join(x.text for x in inner[1:]), txt if len(txt) <= 90 else txt[:60] + " ... " + txt[-25:]))
                    i = end
                    continue
            else:
                counts["attr"] = counts.get("attr", 0) + 1
            if nxt < n:
                toks[nxt] = toks[nxt].clone(trivia=t.trivia)
            i = nxt
            continue
        out.append(t)
        i += 1
    return out


def expand_inner(toks, repo, names, files, counts, notes):
    if not names:
        return toks
    changed = True
    while changed:
        changed = False
        out = []
        i, n = 0, len(toks)
        while i < n:
            t = toks[i]
            if t.kind == "id" and t.text in names and i + 2 < n and is_p(toks[i + 1], "!") and \
                    toks[i + 2].kind == "punct" and toks[i + 2].text in OPEN:
                close = match_close(toks, i + 2)
                macro, mrel = repo.find_macro(t.text, files)
                exp, binds, rename = expand(macro, toks[i + 3:close])
                notes.append("macro %s!(%s) transcribed from %s%s" % (
                    t.text, text_of(toks[i + 3:close]), mrel,
                    (" (hygiene: renamed " + ",".join(sorted(rename)) + ")") if rename else ""))
                if exp:
                    exp[0] = exp[0].clone(trivia=t.trivia)
                out.extend(exp)
                counts["macro"] = counts.get("macro", 0) + 1
                i = close + 1
                changed = True
            else:
                out.append(t)
                i += 1
        toks = out
    return toks


def n14_mut_self(toks, counts):
    """N14: Verus has no `mut self` receiver. `fn f(mut self, ..) -> T { BODY }` becomes
    `fn f(self, ..) -> T { let mut self__ = self; BODY' }` where BODY' is BODY with every `self` renamed to `self__`.
    Semantics-preserving: `mut self` IS a by-value binding that may be mutated; the rename moves it into a local."""
    n = len(toks)
    # find `( mut self` of a fn item at nesting depth 0 of the region
    i = 0
    while i + 2 < n:
        if is_p(toks[i], "(") and is_id(toks[i + 1], "mut") and is_id(toks[i + 2], "self") and i >= 1:
            # the token before `(` (skipping generics) must belong to a fn header: look back for `fn`
            k = i - 1
            depth = 0
            ok = False
            while k >= 0:
                t = toks[k]
                if is_p(t, ">"):
                    depth += 1
                elif is_p(t, "<"):
                    depth -= 1
                elif depth == 0 and is_id(t, "fn"):
                    ok = True
                    break
                elif depth == 0 and t.kind == "punct" and t.text in ("{", "}", ";", "("):
                    break
                k -= 1
            if ok:
                close = match_close(toks, i)
                # body: first `{` after the parameter list at depth 0 (skipping the where clause)
                j = close + 1
                d = 0
                while j < n and not (d == 0 and is_p(toks[j], "{")):
                    if toks[j].kind == "punct" and toks[j].text in ("(", "[", "<"):
                        d += 1
                    elif toks[j].kind == "punct" and toks[j].text in (")", "]", ">") and not (j > 0 and is_p(toks[j - 1], "-")):
                        d -= 1
                    j += 1
                if j < n:
                    bclose = match_close(toks, j)
                    out = list(toks[:i + 1]) + [toks[i + 2].clone(trivia=toks[i + 1].trivia)] + list(toks[i + 3:j + 1])
                    out += frag("let mut self__ = self;", " ")
                    for t in toks[j + 1:bclose]:
                        out.append(t.clone(text="self__") if is_id(t, "self") else t)
                    out += list(toks[bclose:])
                    counts["N14"] = counts.get("N14", 0) + 1
                    return n14_mut_self(out, counts) if False else out
        i += 1
    return toks



def n15_errmsg(toks, counts):
    """N15 (opt-in `n15=1`): the TEXT of an error message is not interpreted by any contract.
    `format!(...).into()` and `"literal".into()` become `errmsg_()` (an assumed, unspecified `Cow<'static, str>`);
    a bare `format!(...)` and `"literal".to_string()` become `errstr_()` (an unspecified String)."""
    out = []
    i, n = 0, len(toks)
    def is_into(k):
        return k + 4 < n + 1 and k + 3 < n and is_p(toks[k], ".") and is_id(toks[k + 1], "into") and is_p(toks[k + 2], "(") and is_p(toks[k + 3], ")")
    while i < n:
        t = toks[i]
        if is_id(t, "format") and i + 2 < n and is_p(toks[i + 1], "!") and is_p(toks[i + 2], "("):
            close = match_close(toks, i + 2)
            if is_into(close + 1):
                out.extend(frag("errmsg_()", t.trivia))
                i = close + 5
            else:
                out.extend(frag("errstr_()", t.trivia))
                i = close + 1
            counts["N15"] = counts.get("N15", 0) + 1
            continue
        if t.kind == "str" and t.text.startswith('"') and is_into(i + 1):
            out.extend(frag("errmsg_()", t.trivia))
            counts["N15"] = counts.get("N15", 0) + 1
            i += 5
            continue
        if t.kind == "str" and t.text.startswith('"') and i + 4 < n and is_p(toks[i + 1], ".") and is_id(toks[i + 2], "to_string") \
                and is_p(toks[i + 3], "(") and is_p(toks[i + 4], ")"):
            out.extend(frag("errstr_()", t.trivia))
            counts["N15"] = counts.get("N15", 0) + 1
            i += 5
            continue
        out.append(t)
        i += 1
    return out



def n16_unreachable(toks, counts):
    """N16: `unreachable!("message", args..)` -> `unreachable!()`: the message is not semantics (Verus accepts only the
    bare form, which it treats as `assert(false)`: the site must be PROVED unreachable)."""
    out = []
    i, n = 0, len(toks)
    while i < n:
        t = toks[i]
        if is_id(t, "unreachable") and i + 2 < n and is_p(toks[i + 1], "!") and is_p(toks[i + 2], "(") and match_close(toks, i + 2) > i + 3:
            close = match_close(toks, i + 2)
            out.extend([t, toks[i + 1], toks[i + 2], toks[close].clone(trivia="")])
            counts["N16"] = counts.get("N16", 0) + 1
            i = close + 1
            continue
        out.append(t)
        i += 1
    return out



def n17_closure_wildcard(toks, counts):
    """N17: a closure that ignores its only argument, `|_| body`, is written `|_c| body` (Verus accepts only variables as
    closure parameters). Only the exact form at the start of an expression -- after `(`, `,`, `=` or `=>` -- is touched, so
    an alternative `a | _ | b` of a match pattern is not."""
    out = []
    i, n = 0, len(toks)
    while i < n:
        t = toks[i]
        if is_p(t, "|") and i + 2 < n and toks[i + 1].kind == "id" and toks[i + 1].text == "_" and is_p(toks[i + 2], "|") \
                and out and out[-1].kind == "punct" and out[-1].text in ("(", ",", "=", ">"):
            out.append(t)
            out.append(toks[i + 1].clone(text="_c"))
            out.append(toks[i + 2])
            counts["N17"] = counts.get("N17", 0) + 1
            i += 3
            continue
        out.append(t)
        i += 1
    return out


def n18_wildcard_param(toks, counts):
    """N18: an ignored function parameter `_: T` is written `_pK: T` (Verus: "function parameters must be a plain
    identifier pattern")."""
    out = []
    k = 0
    for i, t in enumerate(toks):
        if t.kind == "id" and t.text == "_" and 0 < i < len(toks) - 1 and is_p(toks[i + 1], ":") \
                and not (i + 2 < len(toks) and is_p(toks[i + 2], ":")) \
                and toks[i - 1].kind == "punct" and toks[i - 1].text in ("(", ","):
            out.append(t.clone(text="_p%d" % k))
            k += 1
            counts["N18"] = counts.get("N18", 0) + 1
        else:
            out.append(t)
    return out


def n6_debug_assert(toks, counts):
    out = []
    i, n = 0, len(toks)
    while i < n:
        t = toks[i]
        if t.kind == "id" and t.text in ("debug_assert", "debug_assert_eq", "debug_assert_ne") and \
                i + 2 < n and is_p(toks[i + 1], "!") and is_p(toks[i + 2], "("):
            close = match_close(toks, i + 2)
            args = _split_commas(toks[i + 3:close])
            if t.text == "debug_assert":
                cond = args[0]
            else:
                op = "==" if t.text.endswith("eq") else "!="
                a, b = args[0], args[1]
                cond = [x.clone() for x in a] + frag(op) + [x.clone() for x in b]
            new = frag("assert!(", t.trivia) + [x.clone() for x in cond] + frag(")", "")
            out.extend(new)
            counts["N6"] = counts.get("N6", 0) + 1
            i = close + 1
            continue
        out.append(t)
        i += 1
    return out


def _bytestr_elems(text):
    """b"..." -> list of byte literal texts."""
    body = text[2:-1]
    elems = []
    i = 0
    while i < len(body):
        c = body[i]
        if c == "\\":
            nx = body[i + 1]
            if nx == "x":
                elems.append("0x" + body[i + 2:i + 4])
                i += 4
            elif nx in "nrt0\\'\"":
                elems.append("b'\\%s'" % nx)
                i += 2
            else:
                raise AnchorError("unsupported escape in byte string " + text)
        else:
            if ord(c) > 127:
                raise AnchorError("non-ascii byte string " + text)
            elems.append("b'%s'" % ("\\'" if c == "'" else c))
            i += 1
    return elems


def n8_bytestr(toks, counts):
    out = []
    for t in toks:
        if t.kind == "str" and t.text.startswith('b"'):
            elems = _bytestr_elems(t.text)
            new = frag("&[" + ", ".join(elems) + "]", t.trivia)
            out.extend(new)
            counts["N8"] = counts.get("N8", 0) + 1
        else:
            out.append(t)
    return out


def n13_match_bytestr(toks, counts):
    """N13: `match E { b"lt" => A, b"x" | b"y" => B, _ => C }` (all patterns byte-string literals or `_`) ->
    `{ let __m13_K = E; if bytes_eq(__m13_K, b"lt") { A } else if bytes_eq(__m13_K, b"x") || bytes_eq(__m13_K, b"y") { B } else { C } }`.
    A byte-string literal pattern matches exactly the slices equal to it (Rust Reference: literal patterns);
    Verus has no slice patterns. Runs before N8, which then turns the literals into array expressions."""
    seq = [0]

    def arms_of(body):
        """split the tokens between the braces of a match into (pattern tokens, expr tokens)"""
        arms = []
        i, n = 0, len(body)
        while i < n:
            j = i
            while j < n and not (is_p(body[j], "=") and j + 1 < n and is_p(body[j + 1], ">")):
                if body[j].kind == "punct" and body[j].text in OPEN:
                    j = match_close(body, j)
                j += 1
            if j >= n:
                break
            pat = body[i:j]
            k = j + 2
            if k < n and is_p(body[k], "{"):
                e = match_close(body, k)
                expr = body[k:e + 1]
                k = e + 1
                if k < n and is_p(body[k], ","):
                    k += 1
            else:
                e = k
                while e < n and not is_p(body[e], ","):
                    if body[e].kind == "punct" and body[e].text in OPEN:
                        e = match_close(body, e)
                    e += 1
                expr = body[k:e]
                k = e + 1
            arms.append((pat, expr))
            i = k
        return arms

    def go(toks):
        out = []
        i, n = 0, len(toks)
        while i < n:
            t = toks[i]
            if is_id(t, "match"):
                try:
                    bo = _body_open(toks, i + 1)
                except AnchorError:
                    out.append(t); i += 1; continue
                bc = match_close(toks, bo)
                arms = arms_of(toks[bo + 1:bc])
                ok = bool(arms) and any(p and p[0].kind == "str" for p, _ in arms)
                for p, _ in arms:
                    alts = [x for x in p if not is_p(x, "|")]
                    if not all((x.kind == "str" and x.text.startswith('b"')) or is_id(x, "_") for x in alts):
                        ok = False
                # second form: byte-string literals NESTED in constructor patterns (`Some(Named(b"xml")) => ..`):
                # each literal becomes a fresh binding plus a guard `bytes_eq(binding, literal)`; arm order is kept
                nested = (not ok) and bool(arms) and any(any(x.kind == "str" and x.text.startswith('b"') for x in p) for p, _ in arms) \
                    and not any(is_p(x, "|") for p, _ in arms for x in p)
                if nested:
                    new = list(toks[i:bo + 1])
                    for p, e in arms:
                        conds = []
                        pat = []
                        guard = []
                        in_guard = False
                        for x in p:
                            if is_id(x, "if") and not in_guard:
                                in_guard = True
                                continue
                            if in_guard:
                                guard.append(x)
                            elif x.kind == "str" and x.text.startswith('b"'):
                                seq[0] += 1
                                v = "__b13_%d" % seq[0]
                                pat.extend(frag(v, x.trivia))
                                conds.append("bytes_eq(%s, %s)" % (v, x.text))
                            else:
                                pat.append(x)
                        new += pat
                        if conds or guard:
                            g = " && ".join(conds)
                            new += frag(" if " + g + (" && (" if (conds and guard) else ""))
                            new += guard
                            if conds and guard:
                                new += frag(")")
                        body_e = go(list(e))
                        new += frag(" =>") + body_e + ([] if (body_e and is_p(body_e[-1], "}")) else []) + frag(",")
                    new += [toks[bc]]
                    out.extend(new)
                    counts["N13"] = counts.get("N13", 0) + 1
                    i = bc + 1
                    continue
                if ok and is_id(arms[-1][0][0], "_") and len(arms[-1][0]) == 1:
                    seq[0] += 1
                    v = "__m13_%d" % seq[0]
                    scrut = toks[i + 1:bo]
                    new = frag("{ let " + v + " =", t.trivia) + scrut + frag(";")
                    first = True
                    for p, e in arms[:-1]:
                        alts = [x for x in p if not is_p(x, "|")]
                        cond = " || ".join("bytes_eq(%s, %s)" % (v, x.text) for x in alts)
                        new += frag(("if " if first else "else if ") + cond + " {") + go(list(e)) + frag("}")
                        first = False
                    new += frag("else {") + go(list(arms[-1][1])) + frag("} }")
                    out.extend(new)
                    counts["N13"] = counts.get("N13", 0) + 1
                    i = bc + 1
                    continue
            out.append(t)
            i += 1
        return out
    return go(list(toks))


def _body_open(toks, i):
    """first '{' at paren depth 0 from i"""
    j = i
    while j < len(toks):
        if is_p(toks[j], "{"):
            return j
        if toks[j].kind == "punct" and toks[j].text in ("(", "["):
            j = match_close(toks, j)
        j += 1
    raise AnchorError("no block found")




def n1_for(toks, counts, match_form=False):
    # `match_form` is a parameter, not module state: units are assembled in parallel threads
    seq = [0]

    def go(toks):
        out = []
        i, n = 0, len(toks)
        while i < n:
            t = toks[i]
            if is_id(t, "for") and not (i > 0 and (is_p(toks[i - 1], ">") or is_id(toks[i - 1], "impl"))) and \
                    _is_for_loop(toks, i):
                j = i + 1
                depth = 0
                while not (is_id(toks[j], "in") and depth == 0):
                    if toks[j].kind == "punct" and toks[j].text in OPEN:
                        j = match_close(toks, j)
                    j += 1
                pat = toks[i + 1:j]
                bo = _body_open(toks, j + 1)
                bc = match_close(toks, bo)
                expr = toks[j + 1:bo]
                body = go(toks[bo:bc + 1])
                seq[0] += 1
                it = "__it%d" % seq[0]
                if match_form:
                    # the Rust Reference desugaring proper: `match E { mut iter => loop { .. } }` keeps temporaries
                    # of E alive for the whole loop (needed when E borrows from a temporary)
                    new = frag("match", t.trivia) + [x.clone() for x in expr] + \
                        frag("{ mut %s => loop { match %s.next() { None => { break; } Some(" % (it, it), "") + \
                        [x.clone() for x in pat] + frag(") =>", "") + body + frag("} } }")
                else:
                    new = frag("{ let mut %s =" % it, t.trivia) + [x.clone() for x in expr] + \
                        frag("; loop { match %s.next() { None => { break; } Some(" % it, "") + \
                        [x.clone() for x in pat] + frag(") =>", "") + body + frag("} } }")
                out.extend(new)
                counts["N1"] = counts.get("N1", 0) + 1
                i = bc + 1
                continue
            out.append(t)
            i += 1
        return out
    return go(toks)


def _is_for_loop(toks, i):
    # `for PAT in` at statement level: find `in` before any `{`/`;`
    j = i + 1
    while j < len(toks):
        if is_id(toks[j], "in"):
            return True
        if is_p(toks[j], "{") or is_p(toks[j], ";"):
            return False
        if toks[j].kind == "punct" and toks[j].text in ("(", "["):
            j = match_close(toks, j)
        j += 1
    return False


def n4_while_let(toks, counts):
    def go(toks):
        out = []
        i, n = 0, len(toks)
        while i < n:
            t = toks[i]
            if is_id(t, "while") and i + 1 < n and is_id(toks[i + 1], "let"):
                j = i + 2
                while not is_p(toks[j], "="):
                    if toks[j].kind == "punct" and toks[j].text in OPEN:
                        j = match_close(toks, j)
                    j += 1
                pat = toks[i + 2:j]
                bo = _body_open(toks, j + 1)
                bc = match_close(toks, bo)
                expr = toks[j + 1:bo]
                body = go(toks[bo:bc + 1])
                pk = [x.text for x in pat]
                # N5: slice patterns [first, rest @ ..] / [rest @ .., last]
                if len(pk) == 8 and pk[0] == "[" and pk[2] == "," and pk[4:] == ["@", ".", ".", "]"]:
                    expr = [x.clone() for x in expr] + frag(".split_first()", "")
                    pat = frag("Some((%s, %s))" % (pk[1], pk[3]))
                    counts["N5"] = counts.get("N5", 0) + 1
                elif len(pk) == 8 and pk[0] == "[" and pk[2:6] == ["@", ".", ".", ","] and pk[7] == "]":
                    expr = [x.clone() for x in expr] + frag(".split_last()", "")
                    pat = frag("Some((%s, %s))" % (pk[6], pk[1]))
                    counts["N5"] = counts.get("N5", 0) + 1
                new = frag("loop { match", t.trivia) + [x.clone() for x in expr] + frag("{") + \
                    [x.clone() for x in pat] + frag("=>") + body + frag("_ => { break; } } }")
                out.extend(new)
                counts["N4"] = counts.get("N4", 0) + 1
                i = bc + 1
                continue
            out.append(t)
            i += 1
        return out
    return go(toks)


def _value_breaks(toks, bo, bc):
    """indices of `break` tokens with a value that belong to the loop whose
    body is toks[bo..bc]."""
    res = []
    j = bo + 1
    while j < bc:
        t = toks[j]
        if t.kind == "id" and t.text in ("loop", "while", "for") and not is_p(toks[j - 1], "."):
            if t.text == "for" and not _is_for_loop(toks, j):
                j += 1
                continue
            b2 = _body_open(toks, j + 1)
            j = match_close(toks, b2) + 1
            continue
        if is_id(t, "break"):
            nx = toks[j + 1]
            if not (is_p(nx, ";") or is_p(nx, "}") or is_p(nx, ",") or nx.kind == "life"):
                res.append(j)
        j += 1
    return res


def _expr_end(toks, i, limit):
    """end (exclusive) of the expression starting at toks[i]: next ';' ',' or
    unmatched closer at depth 0."""
    j = i
    while j < limit:
        t = toks[j]
        if t.kind == "punct" and t.text in OPEN:
            j = match_close(toks, j) + 1
            continue
        if t.kind == "punct" and (t.text in CLOSE or t.text in (";", ",")):
            return j
        j += 1
    return limit


def n3_break_value(toks, counts):
    seq = [0]
    changed = True
    while changed:
        changed = False
        i, n = 0, len(toks)
        while i < n:
            t = toks[i]
            if is_id(t, "loop") and i + 1 < n and is_p(toks[i + 1], "{"):
                bo = i + 1
                bc = match_close(toks, bo)
                vb = _value_breaks(toks, bo, bc)
                if vb:
                    seq[0] += 1
                    prev = toks[i - 1] if i > 0 else None
                    # shape (a): let [mut] X [: T] = loop { .. };
                    var = None
                    head = None
                    if prev is not None and is_p(prev, "="):
                        k = i - 2
                        while k >= 0 and not is_id(toks[k], "let"):
                            if is_p(toks[k], ";") or is_p(toks[k], "{") or is_p(toks[k], "}"):
                                break
                            k -= 1
                        if k >= 0 and is_id(toks[k], "let"):
                            names = [x for x in toks[k + 1:i - 1] if x.kind == "id" and x.text != "mut"]
                            var = names[0].text
                            head = (k, i - 1)  # let .. (exclusive '=')
                    body = list(toks[bo:bc + 1])
                    lv = var or ("__lv%d" % seq[0])
                    # rewrite breaks inside body (indices relative)
                    rel = [b - bo for b in vb]
                    newbody = []
                    p = 0
                    for r in rel:
                        newbody.extend(body[p:r])
                        e = _expr_end(body, r + 1, len(body) - 1)
                        br = body[r]
                        newbody.extend(frag("{ %s =" % lv, br.trivia) + [x.clone() for x in body[r + 1:e]] +
                                       frag("; break; }", ""))
                        p = e
                    newbody.extend(body[p:])
                    if var is not None:
                        k, eq = head
                        # let X [: T] ; loop {..}   (the original trailing ';' stays)
                        new = toks[:eq] + frag(";", "") + [t.clone(trivia=" ")] + newbody
                        toks = new + toks[bc + 1:]
                    elif prev is None or is_p(prev, ";") or is_p(prev, "{") or is_p(prev, "}"):
                        after = toks[bc + 1] if bc + 1 < n else None
                        if after is None or not is_p(after, "}"):
                            raise AnchorError("N3: loop with value-carrying break is not a let initialiser nor a block tail")
                        new = toks[:i] + frag("let %s;" % lv, t.trivia) + [t.clone(trivia=" ")] + newbody + frag(lv)
                        toks = new + toks[bc + 1:]
                    else:
                        raise AnchorError("N3: unsupported position of loop with value-carrying break (after `%s`)" % prev.text)
                    counts["N3"] = counts.get("N3", 0) + 1
                    changed = True
                    break
            i += 1
    return toks


def _postfix_start(toks, q):
    """start index of the postfix-expression chain that ends just before toks[q]"""
    j = q - 1
    while j >= 0:
        t = toks[j]
        if t.kind == "punct" and t.text in (")", "]"):
            depth = 0
            k = j
            while k >= 0:
                if toks[k].kind == "punct" and toks[k].text in CLOSE:
                    depth += 1
                elif toks[k].kind == "punct" and toks[k].text in OPEN:
                    depth -= 1
                    if depth == 0:
                        break
                k -= 1
            j = k - 1
            # a call/index group must be preceded by the callee (ident), `.`-chain or another group
            if j >= 0 and (toks[j].kind in ("id",) or is_p(toks[j], ")") or is_p(toks[j], "]") or is_p(toks[j], "?")):
                continue
            return j + 1
        if is_p(t, "?"):
            j -= 1
            continue
        if t.kind in ("id", "num", "str", "char"):
            j -= 1
            if j >= 0 and is_p(toks[j], "."):
                j -= 1
                continue
            if j >= 1 and is_p(toks[j], ":") and is_p(toks[j - 1], ":"):
                j -= 2
                continue
            return j + 1
        return j + 1
    return 0


def n11_try(toks, which, counts):
    """N11: `E?` -> `match E { Ok(v) => v, Err(e) => return Err(From::from(e)) }` for the listed
    ordinals (1-based, in source order) of postfix `?` (Rust Reference: the `?` operator on Result)."""
    if not which:
        return toks
    seq = 0
    i = 0
    out = list(toks)
    while i < len(out):
        t = out[i]
        if is_p(t, "?") and i > 0 and (out[i - 1].kind in ("id",) or is_p(out[i - 1], ")") or is_p(out[i - 1], "]")):
            seq += 1
            # `@name`: the `?` directly applied to a call of that function / method (robust against other `?` being
            # added or removed, unlike ordinals)
            callee = None
            if is_p(out[i - 1], ")"):
                d, k = 0, i - 1
                while k >= 0:
                    if is_p(out[k], ")"):
                        d += 1
                    elif is_p(out[k], "("):
                        d -= 1
                        if d == 0:
                            break
                    k -= 1
                if k > 0 and out[k - 1].kind == "id":
                    callee = out[k - 1].text
            if seq in which or "all" in which or (callee is not None and ("@" + callee) in which):
                st = _postfix_start(out, i)
                operand = out[st:i]
                lead = operand[0].trivia
                operand[0] = operand[0].clone(trivia=" ")
                new = frag("match", lead) + operand + frag("{ Ok(v__) => v__, Err(e__) => return Err(From::from(e__)) }")
                out = out[:st] + new + out[i + 1:]
                counts["N11"] = counts.get("N11", 0) + 1
                i = st + len(new)
                continue
        i += 1
    return out


def drop_tokens(toks, what, counts):
    """drop `async` qualifiers and `.await` postfixes (C02 async text identity)"""
    out = []
    i, n = 0, len(toks)
    while i < n:
        t = toks[i]
        if "await" in what and is_p(t, ".") and i + 1 < n and is_id(toks[i + 1], "await"):
            counts["await"] = counts.get("await", 0) + 1
            i += 2
            continue
        if "async" in what and is_id(t, "async"):
            counts["async"] = counts.get("async", 0) + 1
            if i + 1 < n:
                toks[i + 1] = toks[i + 1].clone(trivia=t.trivia)
            i += 1
            continue
        out.append(t)
        i += 1
    return out


def _receiver_start(toks, end):
    """index of the first token of the postfix expression that ends just before toks[end] (identifiers, paths, field
    accesses, balanced `(..)` / `[..]` groups, `?`): the receiver of a method call"""
    j = end
    while j > 0:
        t = toks[j - 1]
        if t.kind == "punct" and t.text in (")", "]"):
            depth = 0
            k = j - 1
            while k >= 0:
                x = toks[k]
                if x.kind == "punct" and x.text in (")", "]"):
                    depth += 1
                elif x.kind == "punct" and x.text in ("(", "["):
                    depth -= 1
                    if depth == 0:
                        break
                k -= 1
            if k < 0:
                break
            j = k
            continue
        if t.kind == "id" and t.text in ("match", "if", "while", "return", "let", "in", "else", "for", "loop", "break", "mut", "ref", "move", "as", "where", "fn", "unsafe", "await", "async", "dyn", "impl", "use", "pub", "const", "static", "true", "false"):
            break
        if t.kind in ("id", "num", "life") or (t.kind == "punct" and t.text in (".", ":", "?")):
            j -= 1
            continue
        break
    return j


def rewrite_recv(toks, frm, to, counts, mode="once"):
    """Rewrite whose pattern starts with the wildcard `$X`: `$X.iter().position(|&b| ==> shim::position(&$X, |b: u8|`.
    `$X` stands for the receiver expression in front of the rest of the pattern, whatever it is (so a change of the receiver
    is carried into the rewritten text instead of making the pattern miss)."""
    rest = keys(lex_fragment(frm.strip()[2:]))
    out = list(toks)
    hits = 0
    i = 0
    while i < len(out):
        if [x.key() for x in out[i:i + len(rest)]] == rest:
            start = _receiver_start(out, i)
            if start < i:
                recv = out[start:i]
                recv_text = "".join((" " if k and x.trivia else "") + x.text for k, x in enumerate(recv))
                new = frag(to.replace("$X", recv_text), out[start].trivia)
                out[start:i + len(rest)] = new
                hits += 1
                i = start + len(new)
                continue
        i += 1
    if mode == "opt" and hits <= 1:
        counts["rewrite"] = counts.get("rewrite", 0) + hits
        return out
    if hits == 0 or (mode == "once" and hits != 1):
        raise AnchorError("rewrite pattern `%s` matched %d times (expected %s)" % (frm, hits, "1" if mode == "once" else ">=1"))
    counts["rewrite"] = counts.get("rewrite", 0) + hits
    return out


def rewrite(toks, frm, to, counts, mode="once"):
    """Declared per-region rewrite: token sequence `frm` -> `to`."""
    if frm.strip().startswith("$X"):
        return rewrite_recv(toks, frm, to, counts, mode)
    f = keys(lex_fragment(frm))
    if not f:
        raise AnchorError("empty rewrite pattern")
    out = []
    i, n = 0, len(toks)
    hits = 0
    while i < n:
        if [x.key() for x in toks[i:i + len(f)]] == f:
            new = frag(to, toks[i].trivia) if to.strip() else []
            out.extend(new)
            if not new and i + len(f) < n:
                toks[i + len(f)] = toks[i + len(f)].clone(trivia=toks[i].trivia)
            i += len(f)
            hits += 1
        else:
            out.append(toks[i])
            i += 1
    if mode == "opt" and hits <= 1:
        counts["rewrite"] = counts.get("rewrite", 0) + hits
        return out
    # a declared rewrite is a syntax-directed normalisation: when the working tree holds MORE occurrences than the
    # annotated text did (a change added a second call of the same shape) every one of them is normalised the same
    # way and Verus decides; only a pattern that no longer occurs at all leaves the region undecided
    if hits == 0:
        raise AnchorError("rewrite pattern `%s` matched %d times (expected %s)" % (frm, hits, "1" if mode == "once" else ">=1"))
    counts["rewrite"] = counts.get("rewrite", 0) + hits
    return out


def n12_const(toks, counts):
    """N12: `const NAME: &[T] = EXPR;` -> `exec const NAME: &'static [T] { EXPR }` (Verus needs the exec-const
    form to attach an `ensures` to a constant whose value is an array literal; the lifetime of a const is 'static)."""
    if not (toks and is_id(toks[0], "const")):
        return toks
    out = []
    depth = 0
    seen_eq = False
    mk = lambda kind, text, like: Tok(kind, text, " ", like.line, "norm")
    for i, t in enumerate(toks):
        if i == 0:
            # `exec` takes over the leading trivia (doc comments) of `const`
            out.append(Tok("id", "exec", t.trivia, t.line, "norm"))
            out.append(t.clone(trivia=" "))
            continue
        if not seen_eq and is_p(t, "&") and not (i + 1 < len(toks) and toks[i + 1].kind == "life"):
            out.append(t)
            out.append(Tok("life", "'static", "", t.line, "norm"))
            if i + 1 < len(toks) and toks[i + 1].trivia == "":
                toks[i + 1] = toks[i + 1].clone(trivia=" ")
            continue
        if not seen_eq and depth == 0 and is_p(t, "="):
            out.append(mk("punct", "{", t))
            seen_eq = True
            continue
        if seen_eq and i == len(toks) - 1 and is_p(t, ";"):
            out.append(mk("punct", "}", t))
            continue
        if t.kind == "punct" and t.text in "([{":
            depth += 1
        elif t.kind == "punct" and t.text in ")]}":
            depth -= 1
        out.append(t)
    counts["N12"] = 1
    return out


def apply_all(toks, repo, opts, notes):
    counts = {}
    toks = n12_const(list(toks), counts)
    toks = drop_attrs(list(toks), repo.features | set(opts.get("features", [])), counts, notes)
    toks = expand_inner(toks, repo, set(opts.get("expand", [])), opts.get("macro_files", []), counts, notes)
    # attributes inside macro bodies
    toks = drop_attrs(toks, repo.features | set(opts.get("features", [])), counts, notes)
    if opts.get("drop"):
        toks = drop_tokens(toks, set(opts["drop"]), counts)
    toks = n6_debug_assert(toks, counts)
    toks = n14_mut_self(toks, counts)
    toks = n16_unreachable(toks, counts)
    toks = n17_closure_wildcard(toks, counts)
    toks = n18_wildcard_param(toks, counts)
    if opts.get("n15"):
        toks = n15_errmsg(toks, counts)
    if opts.get("n13"):
        toks = n13_match_bytestr(toks, counts)
    toks = n8_bytestr(toks, counts)
    toks = n1_for(toks, counts, match_form=(opts.get("n1") == "match"))
    toks = n4_while_let(toks, counts)
    toks = n3_break_value(toks, counts)
    if opts.get("n11"):
        which = set()
        for x in str(opts["n11"]).split(","):
            which.add(x if (x == "all" or x.startswith("@")) else int(x))
        toks = n11_try(toks, which, counts)
    for (frm, to, mode) in opts.get("rewrites", []):
        toks = rewrite(toks, frm, to, counts, mode)
    return toks, counts
