"""Item locator and macro_rules transcriber for the real quick-xml sources."""
import hashlib
import os

from .rs import (Tok, lex, strip_eof, match_close, is_p, is_id, keys, render,
                 lex_fragment, text_of, OPEN, CLOSE, LexError)


class AnchorError(Exception):
    """The anchor could not be resolved in the working tree (=> undecided)."""


RUST_KEYWORDS = {"as", "async", "await", "break", "const", "continue", "crate", "dyn", "else", "enum", "extern", "false",
                 "fn", "for", "if", "impl", "in", "let", "loop", "match", "mod", "move", "mut", "pub", "ref", "return",
                 "self", "Self", "static", "struct", "super", "trait", "true", "type", "unsafe", "use", "where", "while"}
QUALIFIERS = {"pub", "const", "async", "unsafe", "default", "extern"}


def cfg_holds(attr_toks, features):
    """attr_toks: tokens inside #[ ... ] of a cfg attribute, starting at 'cfg'.
    Supports feature = "x", not(..), all(..), any(..), test, kani, and bare
    idents (false)."""
    toks = attr_toks[1:]
    assert is_p(toks[0], "(")
    val, rest = _cfg_expr(toks[1:match_close(toks, 0)], features)
    return val


def _split_commas(toks):
    out, cur, depth = [], [], 0
    for t in toks:
        if t.kind == "punct" and t.text in OPEN:
            depth += 1
        elif t.kind == "punct" and t.text in CLOSE:
            depth -= 1
        if depth == 0 and is_p(t, ","):
            out.append(cur)
            cur = []
        else:
            cur.append(t)
    if cur:
        out.append(cur)
    return out


def _cfg_expr(toks, features):
    head = toks[0]
    if is_id(head, "feature"):
        assert is_p(toks[1], "=") and toks[2].kind == "str"
        return toks[2].text.strip('"') in features, toks[3:]
    if head.kind == "id" and head.text in ("not", "all", "any"):
        close = match_close(toks, 1)
        parts = [_cfg_expr(p, features)[0] for p in _split_commas(toks[2:close])]
        if head.text == "not":
            return (not parts[0]), toks[close + 1:]
        if head.text == "all":
            return all(parts), toks[close + 1:]
        return any(parts), toks[close + 1:]
    if head.kind == "id":
        # test, kani, debug_assertions, ... : treated as off
        return False, toks[1:]
    raise AnchorError("unsupported cfg expression: " + text_of(toks))


def attrs_before(toks, i):
    """Return (start_index, [attr token lists]) of the attributes and
    qualifiers that precede the item keyword at toks[i]."""
    j = i
    attrs = []
    while j > 0:
        p = toks[j - 1]
        if p.kind == "id" and p.text in QUALIFIERS:
            j -= 1
            continue
        if p.kind == "str" and j >= 2 and is_id(toks[j - 2], "extern"):
            j -= 1
            continue
        if is_p(p, ")"):
            # pub(crate) / pub(super)
            k = j - 1
            depth = 0
            while k >= 0:
                if is_p(toks[k], ")"):
                    depth += 1
                elif is_p(toks[k], "("):
                    depth -= 1
                    if depth == 0:
                        break
                k -= 1
            if k >= 1 and is_id(toks[k - 1], "pub"):
                j = k - 1
                continue
            break
        if is_p(p, "]"):
            k = j - 1
            depth = 0
            while k >= 0:
                if is_p(toks[k], "]"):
                    depth += 1
                elif is_p(toks[k], "["):
                    depth -= 1
                    if depth == 0:
                        break
                k -= 1
            if k >= 1 and is_p(toks[k - 1], "#"):
                attrs.append(toks[k + 1:j - 1])
                j = k - 1
                continue
            break
        break
    return j, attrs


def item_enabled(attrs, features):
    for a in attrs:
        if a and is_id(a[0], "cfg"):
            if not cfg_holds(a, features):
                return False
    return True


def scan_items(toks, features):
    """Yield (kind, name_or_header_tokens, kw_index, body_open, body_close,
    start_index, attrs) for items at bracket depth 0 of toks."""
    i, n = 0, len(toks)
    while i < n:
        t = toks[i]
        if t.kind == "punct" and t.text in OPEN:
            i = match_close(toks, i) + 1
            continue
        if t.kind == "id" and t.text in ("fn", "impl", "mod", "trait", "struct", "enum") and \
                not (i > 0 and is_p(toks[i - 1], ".")):
            # find body '{' or ';'
            j = i + 1
            while j < n and not (is_p(toks[j], "{") or is_p(toks[j], ";")):
                if toks[j].kind == "punct" and toks[j].text in ("(", "["):
                    j = match_close(toks, j)
                j += 1
            start, attrs = attrs_before(toks, i)
            if j < n and is_p(toks[j], "{"):
                close = match_close(toks, j)
                if item_enabled(attrs, features):
                    yield (t.text, toks[i + 1:j], i, j, close, start, attrs)
                i = close + 1
            else:
                if item_enabled(attrs, features):
                    yield (t.text, toks[i + 1:j], i, None, j, start, attrs)
                i = j + 1
            continue
        if is_id(t, "const") and i + 2 < n and toks[i + 1].kind == "id" and toks[i + 1].text not in RUST_KEYWORDS \
                and is_p(toks[i + 2], ":") and not (i > 0 and is_p(toks[i - 1], "*")):
            # `const NAME: T = EXPR;`
            j = i + 3
            while j < n and not is_p(toks[j], ";"):
                if toks[j].kind == "punct" and toks[j].text in OPEN:
                    j = match_close(toks, j)
                j += 1
            start, attrs = attrs_before(toks, i)
            if item_enabled(attrs, features):
                yield ("const", [toks[i + 1]], i, None, j, start, attrs)
            i = j + 1
            continue
        if is_id(t, "macro_rules") and i + 2 < n and is_p(toks[i + 1], "!"):
            j = i + 3
            close = match_close(toks, j)
            start, attrs = attrs_before(toks, i)
            if item_enabled(attrs, features):
                yield ("macro", [toks[i + 2]], i, j, close, start, attrs)
            i = close + 1
            continue
        if t.kind == "id" and i + 1 < n and is_p(toks[i + 1], "!") and i + 2 < n and \
                toks[i + 2].kind == "punct" and toks[i + 2].text in OPEN:
            close = match_close(toks, i + 2)
            start, attrs = attrs_before(toks, i)
            if item_enabled(attrs, features):
                yield ("invoke", [t], i, i + 2, close, start, attrs)
            i = close + 1
            continue
        i += 1


# foreign macros the extractor looks through: name -> where the definition was read (assumption A-foreign-macro)
TRANSPARENT_MACROS = {
    "serde_if_integer128": "serde 1.0.229 src/integer128.rs: `($($tt:tt)*) => { $($tt)* }`",
}


class Macro:
    def __init__(self, name, arms):
        self.name = name
        self.arms = arms            # [(matcher tokens, body tokens)] in source order
        self.matcher, self.body = arms[0]


def parse_macro(toks, open_i, close_i, name):
    """macro_rules!: { (matcher) => { body } ; ... } -- the arms in source order (the first arm whose matcher
    accepts an invocation is the one transcribed, as in rustc)"""
    inner = toks[open_i + 1:close_i]
    arms = []
    k = 0
    while k < len(inner):
        if is_p(inner[k], ";"):
            k += 1
            continue
        if not (inner[k].kind == "punct" and inner[k].text in OPEN):
            raise AnchorError("macro %s: unsupported shape" % name)
        mclose = match_close(inner, k)
        matcher = inner[k + 1:mclose]
        k = mclose + 1
        if not (k + 1 < len(inner) and is_p(inner[k], "=") and is_p(inner[k + 1], ">")):
            raise AnchorError("macro %s: expected =>" % name)
        k += 2
        bclose = match_close(inner, k)
        arms.append((matcher, inner[k + 1:bclose]))
        k = bclose + 1
    if not arms:
        raise AnchorError("macro %s: unsupported shape" % name)
    return Macro(name, arms)


def _parse_matcher(m):
    """-> list of ('lit', tok) | ('var', name, kind) | ('opt', [sub])"""
    out = []
    i = 0
    while i < len(m):
        t = m[i]
        if is_p(t, "$") and i + 1 < len(m) and is_p(m[i + 1], "("):
            close = match_close(m, i + 1)
            sub = _parse_matcher(m[i + 2:close])
            rep = m[close + 1]
            if is_p(rep, "?"):
                out.append(("opt", sub))
                i = close + 2
            elif is_p(rep, "*") or is_p(rep, "+"):
                out.append(("rep", sub, None))
                i = close + 2
            elif close + 2 < len(m) and (is_p(m[close + 2], "*") or is_p(m[close + 2], "+")):
                out.append(("rep", sub, rep))
                i = close + 3
            else:
                raise AnchorError("unsupported repetition in a macro matcher")
        elif is_p(t, "$"):
            name = m[i + 1].text
            assert is_p(m[i + 2], ":")
            out.append(("var", name, m[i + 3].text))
            i += 4
        else:
            out.append(("lit", t))
            i += 1
    return out


def _match(pattern, args, pos, binds):
    for idx, p in enumerate(pattern):
        if p[0] == "lit":
            if pos < len(args) and args[pos].key() == p[1].key():
                pos += 1
            else:
                return None
        elif p[0] == "var":
            kind = p[2]
            if pos >= len(args):
                return None
            if kind in ("ident", "lifetime"):
                binds[p[1]] = [args[pos]]
                pos += 1
            elif kind in ("tt", "block"):
                if args[pos].kind == "punct" and args[pos].text in OPEN:
                    c = match_close(args, pos)
                    binds[p[1]] = args[pos:c + 1]
                    pos = c + 1
                else:
                    binds[p[1]] = [args[pos]]
                    pos += 1
            elif kind in ("expr", "ty", "path", "pat"):
                j = pos
                depth = 0
                while j < len(args):
                    a = args[j]
                    if a.kind == "punct" and a.text in OPEN:
                        j = match_close(args, j)
                    elif is_p(a, ",") or is_p(a, ";") or (a.kind == "punct" and a.text in (")", "]", "}")):
                        break
                    j += 1
                binds[p[1]] = args[pos:j]
                pos = j
            else:
                raise AnchorError("unsupported fragment kind " + kind)
        elif p[0] == "opt":
            saved = dict(binds)
            r = _match(p[1], args, pos, binds)
            if r is None:
                binds.clear()
                binds.update(saved)
            else:
                pos = r
        elif p[0] == "rep":
            # $( sub ) sep? *  : the variables of `sub` are bound to one token list per iteration
            iters = []
            while True:
                b2 = {}
                r = _match(p[1], args, pos, b2)
                if r is None or r == pos:
                    break
                iters.append(b2)
                pos = r
                if p[2] is not None:
                    if pos < len(args) and args[pos].key() == p[2].key():
                        pos += 1
                    else:
                        break
            for name in _matcher_vars(p[1]):
                binds[name] = RepBind([it.get(name, []) for it in iters])
    return pos


class RepBind(object):
    """binding of a macro variable that sits inside a `$( .. )*` repetition: one token list per iteration"""
    def __init__(self, items):
        self.items = items


def _matcher_vars(pattern):
    out = []
    for p in pattern:
        if p[0] == "var":
            out.append(p[1])
        elif p[0] in ("opt", "rep"):
            out.extend(_matcher_vars(p[1]))
    return out


def _let_bound(body):
    names = set()
    for i, t in enumerate(body):
        if is_id(t, "let"):
            j = i + 1
            if is_id(body[j], "mut"):
                j += 1
            if body[j].kind == "id" and not is_p(body[j - 1], "$"):
                names.add(body[j].text)
    return names


def _transcribe(body, binds, rename):
    out = []
    i = 0
    while i < len(body):
        t = body[i]
        if is_p(t, "$") and i + 1 < len(body) and is_p(body[i + 1], "("):
            close = match_close(body, i + 1)
            sub = body[i + 2:close]
            rep = body[close + 1]
            vars_ = [sub[k + 1].text for k in range(len(sub) - 1) if is_p(sub[k], "$") and sub[k + 1].kind == "id"]
            if is_p(rep, "?"):
                if vars_ and all(v in binds for v in vars_):
                    exp = _transcribe(sub, binds, rename)
                    if exp:
                        exp[0] = exp[0].clone(trivia=t.trivia)
                    out.extend(exp)
                i = close + 2
            else:
                sep = None
                if is_p(rep, "*") or is_p(rep, "+"):
                    i = close + 2
                elif close + 2 < len(body) and (is_p(body[close + 2], "*") or is_p(body[close + 2], "+")):
                    sep = rep
                    i = close + 3
                else:
                    raise AnchorError("unsupported repetition in a macro transcriber")
                reps = [v for v in vars_ if isinstance(binds.get(v), RepBind)]
                if not reps:
                    raise AnchorError("macro repetition without a repeated variable")
                n = len(binds[reps[0]].items)
                for k in range(n):
                    b2 = dict(binds)
                    for v in reps:
                        b2[v] = binds[v].items[k]
                    exp = _transcribe(sub, b2, rename)
                    if k > 0 and sep is not None:
                        out.append(sep.clone())
                    if exp and k == 0:
                        exp[0] = exp[0].clone(trivia=t.trivia)
                    out.extend(exp)
        elif is_p(t, "$") and i + 1 < len(body) and body[i + 1].kind == "id":
            name = body[i + 1].text
            if name not in binds:
                raise AnchorError("macro variable $%s unbound" % name)
            sub = [x.clone(origin="macro-arg") for x in binds[name]]
            if sub:
                sub[0] = sub[0].clone(trivia=t.trivia, origin="macro-arg")
            out.extend(sub)
            i += 2
        else:
            if t.kind == "id" and t.text in rename and not (i > 0 and is_p(body[i - 1], ".") and not (i > 1 and is_p(body[i - 2], "."))):
                out.append(t.clone(text=rename[t.text]))
            else:
                out.append(t.clone())
            i += 1
    return out


def expand(macro, args):
    """Transcribe a single-arm macro_rules! for the given invocation tokens.
    Identifiers bound by `let` in the macro body are renamed (suffix `_m`) when
    the same identifier occurs in an argument: macro_rules hygiene."""
    binds = None
    for (matcher, body) in macro.arms:
        b0 = {}
        pos = _match(_parse_matcher(matcher), args, 0, b0)
        if pos is not None and pos == len(args):
            binds = b0
            macro = Macro(macro.name, [(matcher, body)])
            break
    if binds is None:
        raise AnchorError("macro %s: invocation does not match its matcher" % macro.name)
    def _flat(v):
        if isinstance(v, RepBind):
            return [t for it in v.items for t in it]
        return v
    arg_ids = {t.text for v in binds.values() for t in _flat(v) if t.kind == "id"} - RUST_KEYWORDS
    # macro_rules hygiene: an identifier written in the macro body can never refer to a local
    # variable of the call site, so body identifiers that collide with identifiers passed in
    # arguments are macro-local bindings and are renamed.
    body_ids = set()
    b = macro.body
    for k, t in enumerate(b):
        if t.kind == "id" and t.text in arg_ids and not (k > 0 and (is_p(b[k - 1], "$") or (is_p(b[k - 1], ".") and not (k > 1 and is_p(b[k - 2], "."))) or is_p(b[k - 1], ":"))) \
                and not (k + 1 < len(b) and (is_p(b[k + 1], "!") or (is_p(b[k + 1], ":") and k + 2 < len(b) and is_p(b[k + 2], ":")))):
            body_ids.add(t.text)
    rename = {n: n + "_m" for n in (set(_let_bound(macro.body)) & arg_ids) | body_ids}
    return _transcribe(macro.body, binds, rename), binds, rename


class Source:
    """A parsed source file of the working tree."""

    def __init__(self, repo, rel, features):
        self.rel = rel
        self.path = os.path.join(repo, rel)
        try:
            with open(self.path, encoding="utf-8") as f:
                self.text = f.read()
        except OSError as e:
            raise AnchorError("cannot read %s: %s" % (rel, e))
        try:
            self.toks = strip_eof(lex(self.text))
        except LexError as e:
            raise AnchorError("cannot tokenise %s: %s" % (rel, e))
        self.features = features


class Located:
    def __init__(self, toks, kind, file, line_lo, line_hi, notes, quals):
        self.toks = toks
        self.kind = kind
        self.file = file
        self.line_lo = line_lo
        self.line_hi = line_hi
        self.notes = notes
        self.quals = quals

    def sha(self):
        return hashlib.sha256(repr(keys(self.toks)).encode()).hexdigest()[:16]


class Repo:
    def __init__(self, root, features=()):
        self.root = root
        self.features = set(features)
        self._src = {}
        self._macros = None

    def source(self, rel):
        if rel not in self._src:
            self._src[rel] = Source(self.root, rel, self.features)
        return self._src[rel]

    def find_macro(self, name, hint_files):
        for rel in hint_files:
            s = self.source(rel)
            for (kind, head, kw, bo, bc, st, attrs) in scan_items(s.toks, self.features):
                if kind == "macro" and head[0].text == name:
                    return parse_macro(s.toks, bo, bc, name), rel
                if kind == "mod" and bo is not None:
                    inner = s.toks[bo + 1:bc]
                    for (k2, h2, kw2, bo2, bc2, st2, a2) in scan_items(inner, self.features):
                        if k2 == "macro" and h2[0].text == name:
                            return parse_macro(inner, bo2, bc2, name), rel
        raise AnchorError("macro_rules! %s not found in %s" % (name, hint_files))

    def locate(self, anchor, macro_files=()):
        """anchor: 'src/x.rs :: impl Foo :: fn bar' ; returns Located.
        When several items match a non-final segment (e.g. two `impl` blocks
        with the same header) each is searched in source order."""
        import re as _re
        segs = [s.strip() for s in split_anchor(anchor)]
        rel = segs[0]
        src = self.source(rel)

        def matches(seg, scope):
            m = _re.match(r"^([A-Za-z_]+)\s*(.*)$", seg)
            kind, rest = m.group(1), m.group(2).strip()
            want = keys(lex_fragment(rest))
            for it in scan_items(scope, self.features):
                (k, head, kw, bo, bc, st, attrs) = it
                if kind == "impl" and k == "impl" and keys(head) == want:
                    yield kind, rest, it
                elif kind in ("fn", "mod", "trait", "struct", "enum", "const") and k == kind and head and head[0].text == rest:
                    yield kind, rest, it
                elif kind == "invoke" and k == "invoke" and head[0].text == rest:
                    yield kind, rest, it
                elif kind == "macro" and k == "macro" and head[0].text == rest:
                    yield kind, rest, it

        def go(scope, idx, notes, rel=rel):
            seg = segs[idx]
            last = idx == len(segs) - 1
            for kind, rest, it in matches(seg, scope):
                (k, head, kw, bo, bc, st, attrs) = it
                if kind == "invoke" and rest in TRANSPARENT_MACROS:
                    # a foreign macro whose definition is the identity on its tokens: the items inside are the items
                    n2 = notes + ["foreign macro %s! taken as the identity on its tokens (%s)" % (rest, TRANSPARENT_MACROS[rest])]
                    if last:
                        return Located([t.clone() for t in scope[bo + 1:bc]], "expansion", rel, scope[kw].line, scope[bc].line, n2, [])
                    r = go(scope[bo + 1:bc], idx + 1, n2, rel)
                    if r is not None:
                        return r
                elif kind == "invoke":
                    macro, mrel = self.find_macro(rest, [rel] + list(macro_files))
                    exp, binds, rename = expand(macro, scope[bo + 1:bc])
                    n2 = notes + ["macro %s!(%s) transcribed from %s%s" % (
                        rest, text_of(scope[bo + 1:bc]), mrel,
                        (" (hygiene: renamed " + ",".join(sorted(rename)) + ")") if rename else "")]
                    if last:
                        return Located([t.clone() for t in exp], "expansion", rel, scope[kw].line, scope[bc].line, n2, [])
                    # items found inside the transcription carry the line numbers of the file that defines the macro
                    r = go(exp, idx + 1, n2, mrel)
                    if r is not None:
                        return r
                elif last:
                    quals = [t.text for t in scope[st:kw] if t.kind == "id" and t.text in QUALIFIERS]
                    item = [t.clone() for t in scope[kw:bc + 1]]
                    return Located(item, k, rel, scope[kw].line, scope[bc].line, notes, quals)
                elif bo is not None:
                    r = go(scope[bo + 1:bc], idx + 1, notes, rel)
                    if r is not None:
                        return r
            return None

        r = go(src.toks, 1, [])
        if r is None:
            raise AnchorError("anchor not found in the working tree: %s" % anchor)
        return r


def split_anchor(a):
    """Split on ' :: ' (with surrounding spaces) only, so that paths like
    `Foo::bar` inside impl headers are untouched."""
    return a.split(" :: ")
