"""Minimal Rust lexer and token utilities used by the extractor.

A token is (kind, text, trivia) where trivia is the whitespace/comments that
precede it.  Comparison between token streams uses (kind, text) only, so that
comments and layout are irrelevant for anchoring.
"""
import re

IDENT_START = set("abcdefghijklmnopqrstuvwxyzABCDEFGHIJKLMNOPQRSTUVWXYZ_")
IDENT_CONT = IDENT_START | set("0123456789")
OPEN = {"(": ")", "[": "]", "{": "}"}
CLOSE = {")": "(", "]": "[", "}": "{"}


class LexError(Exception):
    pass


class Tok:
    __slots__ = ("kind", "text", "trivia", "line", "origin")

    def __init__(self, kind, text, trivia="", line=0, origin=None):
        self.kind = kind      # id | num | str | char | life | punct
        self.text = text
        self.trivia = trivia
        self.line = line
        self.origin = origin  # free tag ('src', 'annot', 'norm', 'macro')

    def key(self):
        return (self.kind, self.text)

    def clone(self, **kw):
        t = Tok(self.kind, self.text, self.trivia, self.line, self.origin)
        for k, v in kw.items():
            setattr(t, k, v)
        return t

    def __repr__(self):
        return "Tok(%s,%r)" % (self.kind, self.text)


def lex(src):
    """Tokenise Rust source. Returns list of Tok; trailing trivia is returned
    as a final token of kind 'eof' with empty text."""
    toks = []
    i, n = 0, len(src)
    line = 1
    triv_start = 0
    while True:
        # trivia
        triv_start = i
        while i < n:
            c = src[i]
            if c in " \t\r\n":
                i += 1
            elif src.startswith("//", i):
                j = src.find("\n", i)
                i = n if j < 0 else j
            elif src.startswith("/*", i):
                depth = 1
                i += 2
                while i < n and depth:
                    if src.startswith("/*", i):
                        depth += 1
                        i += 2
                    elif src.startswith("*/", i):
                        depth -= 1
                        i += 2
                    else:
                        i += 1
                if depth:
                    raise LexError("unterminated block comment")
            else:
                break
        trivia = src[triv_start:i]
        line += trivia.count("\n")
        if i >= n:
            toks.append(Tok("eof", "", trivia, line))
            return toks
        c = src[i]
        start = i
        # raw strings / byte strings / byte chars
        m = re.match(r'(?:b|c)?r(#*)"', src[i:i + 40]) if c in "brc" else None
        if m:
            hashes = m.group(1)
            end = src.find('"' + hashes, i + len(m.group(0)))
            if end < 0:
                raise LexError("unterminated raw string")
            i = end + 1 + len(hashes)
            kind = "str"
        elif c == '"' or (c in "bc" and src.startswith('"', i + 1)):
            i += 1 if c == '"' else 2
            while i < n and src[i] != '"':
                i += 2 if src[i] == "\\" else 1
            i += 1
            kind = "str"
        elif c == "b" and src.startswith("'", i + 1):
            i += 2
            while i < n and src[i] != "'":
                i += 2 if src[i] == "\\" else 1
            i += 1
            kind = "char"
        elif c == "'":
            # char literal or lifetime
            if i + 2 < n and src[i + 1] == "\\":
                i += 3   # the quote, the backslash and the escaped character (which may be a quote itself: '\\'')
                while i < n and src[i] != "'":
                    i += 2 if src[i] == "\\" else 1
                i += 1
                kind = "char"
            elif i + 2 < n and src[i + 2] == "'":
                i += 3
                kind = "char"
            else:
                # lifetime (or a multi-byte char literal)
                j = i + 1
                while j < n and src[j] in IDENT_CONT:
                    j += 1
                if j < n and src[j] == "'" and j > i + 1 and j - i <= 2:
                    i = j + 1
                    kind = "char"
                elif j == i + 1:
                    # non-ascii char literal like 'é'
                    j2 = src.find("'", i + 1)
                    if j2 < 0 or j2 - i > 8:
                        raise LexError("bad char literal at line %d" % line)
                    i = j2 + 1
                    kind = "char"
                else:
                    i = j
                    kind = "life"
        elif c in IDENT_START:
            while i < n and src[i] in IDENT_CONT:
                i += 1
            kind = "id"
            # raw identifiers r#foo
            if src[start:i] == "r" and src.startswith("#", i) and i + 1 < n and src[i + 1] in IDENT_START:
                i += 1
                while i < n and src[i] in IDENT_CONT:
                    i += 1
        elif c.isdigit():
            while i < n and (src[i] in IDENT_CONT):
                i += 1
            # fractional part: digit '.' digit
            if i + 1 < n and src[i] == "." and src[i + 1].isdigit():
                i += 1
                while i < n and src[i] in IDENT_CONT:
                    i += 1
            kind = "num"
        else:
            i += 1
            kind = "punct"
        text = src[start:i]
        toks.append(Tok(kind, text, trivia, line, "src"))
        line += text.count("\n")


def render(toks):
    return "".join(t.trivia + t.text for t in toks)


def keys(toks):
    return [t.key() for t in toks if t.kind != "eof"]


def strip_eof(toks):
    return [t for t in toks if t.kind != "eof"]


def match_close(toks, i):
    """toks[i] is an opening bracket; return index of its matching closer."""
    assert toks[i].text in OPEN, toks[i]
    depth = 0
    for j in range(i, len(toks)):
        t = toks[j]
        if t.kind == "punct":
            if t.text in OPEN:
                depth += 1
            elif t.text in CLOSE:
                depth -= 1
                if depth == 0:
                    return j
    raise LexError("unbalanced bracket at line %d" % toks[i].line)


def is_p(t, s):
    return t.kind == "punct" and t.text == s


def is_id(t, s=None):
    return t.kind == "id" and (s is None or t.text == s)


def lex_fragment(text, origin="norm"):
    ts = strip_eof(lex(text))
    for t in ts:
        t.origin = origin
    return ts


def text_of(toks):
    """Compact single-line text of tokens (for messages)."""
    out = []
    for t in toks:
        if t.kind == "eof":
            continue
        out.append((" " if t.trivia else "") + t.text)
    return "".join(out).strip()
