"""Refuter: after a Verus obligation of a byte scanner failed, look (bounded, Kani) for a concrete
input on which the real function disagrees with an executable reference, and turn Kani's concrete
playback into a small program that replays the input against the real code through the public API."""
import json
import os
import re
import subprocess

from . import kanirun

VERIF = kanirun.VERIF
HARNESS_FOR_REGION = {
    "parser::ElementParser::impl": "refute_element_feed",
    "parser::PiParser::impl": "refute_pi_feed",
    "reader::BangType::parse": "refute_bang_parse",
}

REPLAY_COMMON = r'''
use std::io::{self, BufRead, Read};
/// delivers `data` in two pieces: data[..cut] and data[cut..]
struct TwoChunks<'a> { data: &'a [u8], cut: usize, pos: usize }
impl<'a> Read for TwoChunks<'a> { fn read(&mut self, b: &mut [u8]) -> io::Result<usize> { let a = self.fill_buf()?; let n = a.len().min(b.len()); b[..n].copy_from_slice(&a[..n]); self.consume(n); Ok(n) } }
impl<'a> BufRead for TwoChunks<'a> {
    fn fill_buf(&mut self) -> io::Result<&[u8]> { let end = if self.pos < self.cut { self.cut } else { self.data.len() }; Ok(&self.data[self.pos..end]) }
    fn consume(&mut self, n: usize) { self.pos += n; }
}
'''

REPLAY_FEED = r'''
use quick_xml::parser::{ElementParser, Parser, PiParser};
fn main() {
    let bytes: &[u8] = &BYTES;
    let (len, cut) = (LEN, CUT);
    let s = &bytes[..len];
    HARNESS_BODY
}
'''


def parse_playback(pb):
    """-> list of byte vectors in the order Kani consumed them"""
    vals = []
    for m in re.finditer(r"vec!\[([0-9, ]*)\]", pb.split("let concrete_vals")[1] if "let concrete_vals" in pb else ""):
        txt = m.group(1).strip()
        vals.append([int(x) for x in txt.split(",") if x.strip()] if txt else [])
    return vals[0:] if vals else []


def le(v):
    return sum(b << (8 * i) for i, b in enumerate(v))


def make_program(harness, vals, n):
    """Rust source of a replay program for the given harness inputs (public API only)."""
    # first N single bytes, then len, cut, (+ selector)
    data = [v[0] for v in vals[:n]]
    length = le(vals[n])
    cut = le(vals[n + 1])
    hdr = "const BYTES: [u8; %d] = %s;\nconst LEN: usize = %d;\nconst CUT: usize = %d;\n" % (n, data, length, cut)
    if harness == "refute_element_feed":
        sel = vals[n + 2][0] % 3
        body = '''
    let start = [ElementParser::Outside, ElementParser::SingleQ, ElementParser::DoubleQ][%d];
    let mut p = start;
    let got = match p.feed(&s[..cut]) { Some(i) => Some(i), None => p.feed(&s[cut..]).map(|j| cut + j) };
    // reference: first '>' outside quotes
    let mut q = %d; let mut want = None;
    for (i, &b) in s.iter().enumerate() {
        if q == 0 { if b == b'>' { want = Some(i); break; } if b == b'\\'' { q = 1 } else if b == b'"' { q = 2 } }
        else if q == 1 { if b == b'\\'' { q = 0 } } else if b == b'"' { q = 0 }
    }
    println!("input {:?} fed as {:?} | {:?} from state %d: real {:?}, grammar {:?}", s, &s[..cut], &s[cut..], got, want);
    if got != want { println!("REPRODUCED: ElementParser::feed disagrees with the grammar"); std::process::exit(1); }
''' % (sel, sel, sel)
        return "use quick_xml::parser::{ElementParser, Parser};\n" + hdr + "fn main() {\n    let s = &BYTES[..LEN]; let cut = CUT;" + body + "}\n"
    if harness == "refute_pi_feed":
        body = '''
    let mut p = PiParser(false);
    let got = match p.feed(&s[..cut]) { Some(i) => Some(i), None => p.feed(&s[cut..]).map(|j| cut + j) };
    let want = (1..s.len()).find(|&i| s[i] == b'>' && s[i - 1] == b'?');
    println!("input {:?} fed as {:?} | {:?}: real {:?}, grammar {:?}", s, &s[..cut], &s[cut..], got, want);
    if got != want { println!("REPRODUCED: PiParser::feed disagrees with the grammar"); std::process::exit(1); }
'''
        return "use quick_xml::parser::{Parser, PiParser};\n" + hdr + "fn main() {\n    let s = &BYTES[..LEN]; let cut = CUT;" + body + "}\n"
    if harness == "refute_bang_parse":
        body = '''
    // The scanner does not look at the keyword, the reader checks it afterwards: spell it out so that
    // the document is well formed up to the terminator (the added bytes hold no '<', '>', ']' or '-').
    let kind = match s[1] { b'-' => 0, b'[' => 1, _ => 2 };
    let pad: &[u8] = match kind { 1 => b"CDATA[", 2 => b"OCTYPE", _ => b"" };
    let mut t = s[..2].to_vec(); t.extend_from_slice(pad); t.extend_from_slice(&s[2..]);
    let cut = if cut >= 2 { cut + pad.len() } else { cut };
    let s = &t[..];
    let mut doc = vec![b'<']; doc.extend_from_slice(s);
    // reference: first terminator of the construct (index into s)
    let mut want = None; let mut bal: i64 = 0;
    for k in 0..s.len() {
        if s[k] == b'>' {
            let hit = match kind { 0 => k >= 5 && s[k-1] == b'-' && s[k-2] == b'-', 1 => k >= 2 && s[k-1] == b']' && s[k-2] == b']', _ => bal == 0 };
            if hit { want = Some(k); break; }
            bal -= 1;
        } else if s[k] == b'<' { bal += 1; }
    }
    // the refill boundary lies after 1 + cut bytes
    let mut r = quick_xml::Reader::from_reader(TwoChunks { data: &doc, cut: 1 + cut, pos: 0 });
    let mut buf = Vec::new();
    let ev = r.read_event_into(&mut buf).map(|e| format!("{:?}", e));
    let pos = r.buffer_position();
    let want_pos = match want { Some(k) => (k + 2) as u64, None => doc.len() as u64 };
    println!("document {:?} delivered as {:?} | {:?}", String::from_utf8_lossy(&doc), String::from_utf8_lossy(&doc[..1 + cut]), String::from_utf8_lossy(&doc[1 + cut..]));
    println!("real: {:?}, position after it {}; grammar: construct ends at {:?}, position {}", ev, pos, want.map(|k| k + 1), want_pos);
    let bad = pos != want_pos || (want.is_none() && ev.is_ok());
    if bad { println!("REPRODUCED: the `<!` construct does not end at its first terminator"); std::process::exit(1); }
'''
        return hdr + REPLAY_COMMON + "fn main() {\n    let s = &BYTES[..LEN]; let cut = CUT;" + body + "}\n"
    return None


def run_program(src, repo_root, tag):
    d = os.path.join(os.environ.get("VX_BUILD") or os.path.join(VERIF, "build"), "replay-" + tag)
    os.makedirs(os.path.join(d, "src"), exist_ok=True)
    with open(os.path.join(d, "Cargo.toml"), "w") as f:
        f.write('[package]\nname = "vx-replay"\nversion = "0.0.0"\nedition = "2021"\n[dependencies]\nquick-xml = { path = "%s" }\n[workspace]\n' % repo_root)
    lock = os.path.join(repo_root, "Cargo.lock")
    with open(os.path.join(d, "src", "main.rs"), "w") as f:
        f.write(src)
    env = dict(os.environ)
    env["CARGO_NET_OFFLINE"] = "true"
    env["RUSTFLAGS"] = "-Awarnings"
    env["CARGO_TARGET_DIR"] = os.path.join(d, "target")
    b = subprocess.run(["cargo", "build", "--offline", "-q"], cwd=d, env=env, stdout=subprocess.PIPE, stderr=subprocess.STDOUT, text=True, timeout=900)
    if b.returncode != 0:
        return 2, "replay program did not build:\n" + b.stdout[-2000:]
    env["RUST_BACKTRACE"] = "0"
    p = subprocess.run([os.path.join(d, "target", "debug", "vx-replay")], env=env, stdout=subprocess.PIPE, stderr=subprocess.STDOUT, text=True, timeout=60)
    out = p.stdout[-3000:]
    if p.returncode == 101:
        # a panic inside the real code on the replayed input is a reproduction as well
        return 1, out + "REPRODUCED: the real code panics on this input\n"
    return p.returncode, out


def try_refute(pid, violations, rep, repo_root=None):
    """Returns True iff a concrete failing input was found AND reproduced on the real code."""
    repo_root = repo_root or os.environ.get("VX_REPO", "/repo")
    harnesses = []
    for (u, f) in violations:
        rg = f.get("region")
        h = HARNESS_FOR_REGION.get(rg.id) if rg is not None else None
        if h and h not in harnesses:
            harnesses.append(h)
    if not harnesses:
        return False
    bound = int(os.environ.get("VX_REFUTE_N", "7"))
    found = False
    rep["refuter"] = []
    for h in harnesses:
        r = kanirun.run(repo_root, [h], bound, int(os.environ.get("VX_REFUTE_TIMEOUT", "1500")), tag="refute", playback=True)
        entry = {"harness": h, "bound": "N=%d bytes, every split" % bound, "cmd": r["cmd"], "complete": r.get("complete"), "failed_checks": r.get("failed_checks"), "wall_s": round(r["wall"], 1)}
        if r.get("playback"):
            vals = parse_playback(r["playback"])
            entry["kani_concrete_playback"] = r["playback"]
            try:
                src = make_program(h, vals, bound)
            except (IndexError, ValueError) as e:
                src = None
                entry["program_error"] = repr(e)
            if src:
                rc, out = run_program(src, repo_root, pid.lower())
                entry["replay_program"] = src
                entry["replay_output"] = out
                entry["reproduced_on_real_code"] = (rc == 1)
                if rc == 1:
                    found = True
                    rep["concrete_input"] = {"harness": h, "output": out}
                    print("  refuter (%s, bounded search): failing input replayed on the real code:" % h)
                    for l in out.strip().split("\n"):
                        print("    " + l)
        rep["refuter"].append(entry)
    return found


def replay(rep):
    """vx replay for a file that carries a concrete input: run the stored program against the current tree."""
    ok = 0
    for e in rep.get("refuter", []):
        if e.get("replay_program"):
            rc, out = run_program(e["replay_program"], os.environ.get("VX_REPO", "/repo"), "again")
            print(out)
            if rc == 1:
                ok = 1
    pb = rep.get("concrete_input")
    if isinstance(pb, str):
        print("Kani concrete playback (inputs of the harness, in order):")
        print(pb)
    return ok
