"""Text identity of the asynchronous instantiations with the verified synchronous ones (C02, C18).

The async reader is not a second implementation: `TokioAdapter` gets its helpers from the same
`impl_buffered_source!` macro and `read_event_into_async` / `read_until_close_async` /
`read_to_end_into_async` from the same `read_event_impl!` / `read_until_close!` / `read_to_end!`
macros, invoked with the extra `async`/`await` arguments. This module transcribes both invocations
from the working tree and checks that, after erasing `async`, `.await`, the adapter field access
`.0`, the extra lifetime parameter and the call-site names, the token sequences are identical.
What remains assumed is A-await (awaiting a future is transparent for the values computed)."""
from .extract import Repo, AnchorError
from .rs import keys, is_p, is_id, text_of
from . import normalise as N

PAIRS = [
    ("impl_buffered_source",
     "src/reader/buffered_reader.rs :: impl<'b, R: BufRead> XmlSource<'b, &'b mut Vec<u8>> for R :: invoke impl_buffered_source",
     "src/reader/async_tokio.rs :: impl<'a, R: AsyncBufRead + Unpin> TokioAdapter<'a, R> :: invoke impl_buffered_source",
     ["src/reader/buffered_reader.rs"]),
    ("read_event_impl",
     "src/reader/mod.rs :: impl<R> Reader<R> :: fn read_event_impl",
     "src/reader/async_tokio.rs :: impl<R: AsyncBufRead + Unpin> Reader<R> :: fn read_event_into_async",
     ["src/reader/mod.rs"]),
    ("read_until_close",
     "src/reader/mod.rs :: impl<R> Reader<R> :: fn read_until_close",
     "src/reader/async_tokio.rs :: impl<R: AsyncBufRead + Unpin> Reader<R> :: fn read_until_close_async",
     ["src/reader/mod.rs"]),
    ("read_to_end",
     "src/reader/buffered_reader.rs :: impl<R: BufRead> Reader<R> :: fn read_to_end_into",
     "src/reader/async_tokio.rs :: impl<R: AsyncBufRead + Unpin> Reader<R> :: fn read_to_end_into_async",
     ["src/reader/mod.rs"]),
]


PAIRS_NS = [
    ("NsReader::read_event_impl",
     "src/reader/ns_reader.rs :: impl<R> NsReader<R> :: fn read_event_impl",
     "src/reader/async_tokio.rs :: impl<R: AsyncBufRead + Unpin> NsReader<R> :: fn read_event_into_async",
     ["src/reader/mod.rs"]),
    ("NsReader::read_to_end_into",
     "src/reader/ns_reader.rs :: impl<R: BufRead> NsReader<R> :: fn read_to_end_into",
     "src/reader/async_tokio.rs :: impl<R: AsyncBufRead + Unpin> NsReader<R> :: fn read_to_end_into_async",
     ["src/reader/mod.rs"]),
]


def _erase(toks, body_only):
    if body_only:
        # compare function bodies only (signatures differ by design: names, async, lifetimes)
        from .merge import fn_items
        items = fn_items(toks)
        if len(items) == 1:
            (_, kw, bo, bc) = items[0]
            toks = toks[bo:bc + 1]
    out = []
    i, n = 0, len(toks)
    while i < n:
        t = toks[i]
        if is_id(t, "async"):
            i += 1
            continue
        if is_p(t, ".") and i + 1 < n and is_id(toks[i + 1], "await"):
            i += 2
            continue
        if is_p(t, ".") and i + 1 < n and toks[i + 1].kind == "num" and toks[i + 1].text == "0":
            i += 2
            continue
        if is_p(t, "<") and i + 2 < n and toks[i + 1].kind == "life" and toks[i + 1].text == "'b" and is_p(toks[i + 2], ">"):
            i += 3
            continue
        if t.kind == "life" and t.text == "'b" and i + 1 < n and is_p(toks[i + 1], ",") and i > 0 and is_p(toks[i - 1], "<"):
            i += 2
            continue
        out.append(t)
        i += 1
    k = [x.key() for x in out]
    # call-site names of the async variants
    ren = {"read_until_close_async": "read_until_close", "read_event_into_async": "read_event_impl",
           "read_to_end_into_async": "read_to_end_into"}
    k = [(a, ren.get(b, b)) for (a, b) in k]
    # TokioAdapter(&mut self.reader) -> self.reader
    txt = " ".join(b for (a, b) in k)
    txt = txt.replace("TokioAdapter ( & mut self . reader )", "self . reader")
    return txt


def check(repo_root, pairs=None):
    """-> list of (name, ok, detail)"""
    repo = Repo(repo_root, ["async-tokio"])
    res = []
    for (name, a_sync, a_async, mfiles) in (pairs or PAIRS):
        try:
            ls = repo.locate(a_sync, mfiles)
            la = repo.locate(a_async, mfiles)
            notes = []
            opts = {"expand": ["read_event_impl", "read_until_close", "read_to_end"], "macro_files": mfiles + ["src/reader/mod.rs"]}
            cs, _ = N.apply_all(ls.toks, repo, dict(opts), notes)
            ca, _ = N.apply_all(la.toks, repo, dict(opts), notes)
            body_only = name != "impl_buffered_source"
            ts, ta = _erase(cs, body_only), _erase(ca, body_only)
            if ts == ta:
                res.append((name, True, "%d tokens identical after erasing async/.await/.0/'b" % len(ts.split())))
            else:
                # first difference
                xs, xa = ts.split(), ta.split()
                d = next((i for i in range(min(len(xs), len(xa))) if xs[i] != xa[i]), min(len(xs), len(xa)))
                res.append((name, False, "texts differ at token %d: sync `%s` vs async `%s`" % (d, " ".join(xs[d:d + 8]), " ".join(xa[d:d + 8]))))
        except AnchorError as e:
            res.append((name, None, "anchor: %s" % e))
    return res
